package main

import (
	"bufio"
	"bytes"
	"encoding/json"
	"flag"
	"fmt"
	"io/ioutil"
	"os"
	"os/exec"
	"path/filepath"
	"regexp"
	"strings"
	"sync"

	"github.com/goatcms/goatcore/app/modules/commonm/commservices"
	"github.com/goatcms/goatcore/app/modules/commonm/commservices/envs"
	"github.com/goatcms/goatcore/app/modules/ocm/ocservices/dcmd"
	"github.com/goatcms/goatcore/app/modules/pipelinem/pipservices/sandboxes/sshsb"
)

func init() { commands["envcases"] = cmdEnvCases }

var tokText = map[string]string{"dollar": "$CANARYVAR", "bq": "`touch canary_bq`", "cmd": "$(touch canary_cmd)", "sq": "'", "dq": "\"",
	"bs": "\\", "nl": "\n", "tab": "\t", "EOF": "EOF", "a": "a", "semi": ";"}

func toksToString(t []string) string {
	var b strings.Builder
	for _, x := range t {
		b.WriteString(tokText[x])
	}
	return b.String()
}

type envCase struct {
	A       []string `json:"A"`
	B       []string `json:"B"`
	ExpectA []string `json:"expectA"`
	ExpectB []string `json:"expectB"`
}

// the grammar of one variable in the generated script
var varBlock = regexp.MustCompile(`(?s)^([A-Za-z_]+)=\$\(cat <<'([A-Za-z]+)'\n(.*?)\n([A-Za-z]+)\n\)\nexport ([A-Za-z_]+)\n`)

// decoyEnvs: another sandbox's environment, whose script is built AFTER ours and BEFORE ours is read (several
// sandboxes are started side by side): the reader we were handed must not depend on later calls
func decoyEnvs() commservices.Environments {
	d := envs.NewEnvironments()
	d.Set("DECOY", "decoy-value")
	return d
}

func buildScript(kind string, e commservices.Environments) (string, error) {
	if kind == "container" {
		r, err := dcmd.InitSequence(e)
		if err != nil {
			return "", err
		}
		if _, err := dcmd.InitSequence(decoyEnvs()); err != nil {
			return "", err
		}
		b, err := ioutil.ReadAll(r)
		return string(b), err
	}
	r, err := sshsb.VerifInitSequence("", e)
	if err != nil {
		return "", err
	}
	if _, err := sshsb.VerifInitSequence("", decoyEnvs()); err != nil {
		return "", err
	}
	b, err := ioutil.ReadAll(r)
	return string(b), err
}

// runShell feeds the script to the real /bin/sh on stdin and returns the variables it ends up with
func runShell(dir, script string, keys []string) (map[string]string, string, error) {
	var tail strings.Builder
	for _, k := range keys {
		tail.WriteString(fmt.Sprintf("printf '%%s' \"$%s\" > out_%s\n", k, k))
	}
	cmd := exec.Command("/bin/sh")
	cmd.Dir = dir
	cmd.Env = []string{"PATH=/usr/bin:/bin", "CANARYVAR=EXPANDED-BY-THE-SHELL"}
	cmd.Stdin = strings.NewReader(script + "\n" + tail.String())
	var stderr bytes.Buffer
	cmd.Stderr = &stderr
	err := cmd.Run()
	out := map[string]string{}
	for _, k := range keys {
		b, _ := ioutil.ReadFile(filepath.Join(dir, "out_"+k))
		out[k] = string(b)
	}
	return out, stderr.String(), err
}

func cmdEnvCases(args []string) error {
	fl := flag.NewFlagSet("envcases", flag.ExitOnError)
	in := fl.String("in", "", "TLC output")
	tmp := fl.String("tmp", "", "scratch")
	fl.Parse(args)
	byKey := map[string]int{}
	examples := map[string][]map[string]string{}
	executed, shells := 0, 0
	var samples []string
	fail := func(key, op, backend, what string) {
		byKey[key]++
		if len(examples[key]) < 3 {
			examples[key] = append(examples[key], map[string]string{"key": key, "op": op, "backend": backend, "what": what})
		}
	}
	// ---- names that are not plain identifiers are rejected when they are set
	for _, bad := range []string{"", "1A", "A-B", "A B", "A;touch x", "A$", "A\nB", "a=b", "A.B", "ÄB", "A`x`"} {
		executed++
		e := envs.NewEnvironments()
		if err := e.Set(bad, "v"); err == nil {
			fail("name-accepted", fmt.Sprintf("Set(%q)", bad), "envs", "a name that is not a plain identifier was accepted")
		}
		if err := e.SetAll(map[string]string{"OK": "v", bad: "v"}); err == nil {
			fail("name-accepted", fmt.Sprintf("SetAll(.. %q ..)", bad), "envs", "a name that is not a plain identifier was accepted")
		}
	}
	f, err := os.Open(*in)
	if err != nil {
		return err
	}
	defer f.Close()
	sc := bufio.NewScanner(f)
	sc.Buffer(make([]byte, 1<<20), 1<<24)
	for sc.Scan() {
		line := sc.Text()
		if !strings.Contains(line, "\\\"k\\\":\\\"env\\\"") {
			continue
		}
		var inner string
		if err := json.Unmarshal([]byte(line), &inner); err != nil {
			return err
		}
		var c envCase
		if err := json.Unmarshal([]byte(inner), &c); err != nil {
			return err
		}
		executed++
		if len(samples) < 3 && len(c.A) >= 2 {
			samples = append(samples, inner)
		}
		vals := map[string]string{"VAR_A": toksToString(c.A), "VAR_B": toksToString(c.B)}
		want := map[string]string{"VAR_A": toksToString(c.ExpectA), "VAR_B": toksToString(c.ExpectB)}
		for _, kind := range []string{"container", "ssh"} {
			e := envs.NewEnvironments()
			if err := e.SetAll(vals); err != nil {
				fail("infra", inner, kind, err.Error())
				continue
			}
			script, err := buildScript(kind, e)
			if err != nil {
				fail("infra", inner, kind, err.Error())
				continue
			}
			// (a) grammar: after the preamble the script is a sequence of quoted-delimiter blocks
			rest := strings.TrimPrefix(script, "\nset -e\nset +x\n")
			blocks := 0
			for {
				m := varBlock.FindStringSubmatch(rest)
				if m == nil {
					break
				}
				if m[2] != m[4] || m[1] != m[5] || strings.TrimRight(vals[m[1]], "\n") != strings.TrimRight(m[3], "\n") { // "up to trailing newlines": the shell drops them anyway
					break
				}
				blocks++
				rest = rest[len(m[0]):]
			}
			if blocks != 2 || strings.TrimSpace(rest) != "" {
				fail("grammar:"+kind, inner, kind, fmt.Sprintf("the script is not two blocks K=$(cat <<'TAG' / value / TAG / ) / export K; script:\n%s", script))
			}
			// (b) the real shell
			dir, err := ioutil.TempDir(*tmp, "sh")
			if err != nil {
				return err
			}
			got, stderr, runErr := runShell(dir, script, []string{"VAR_A", "VAR_B"})
			shells++
			canaries, _ := filepath.Glob(filepath.Join(dir, "canary*"))
			if len(canaries) > 0 {
				fail("command-ran:"+kind, inner, kind, fmt.Sprintf("a value made the shell run a command (%v); script:\n%s", canaries, script))
			} else if got["VAR_A"] != want["VAR_A"] || got["VAR_B"] != want["VAR_B"] {
				fail("value-changed:"+kind, inner, kind, fmt.Sprintf("shell has VAR_A=%q VAR_B=%q, configured %q %q (err %v, stderr %q)", got["VAR_A"], got["VAR_B"], vals["VAR_A"], vals["VAR_B"], runErr, stderr))
			}
			os.RemoveAll(dir)
		}
	}
	out := map[string]interface{}{"executed": executed, "calls": shells, "failures_by_key": byKey, "examples": examples, "samples": samples}
	b, _ := json.Marshal(out)
	fmt.Println(string(b))
	return nil
}

func init() { commands["envwitness"] = cmdEnvWitness }

// envwitness: ONE Environments object used the way a long-running application uses it -- values are replaced
// (Set) while start-up scripts for other sandboxes are being built from it (All / InitSequence) -- with a LARGE
// environment.  Once everything has come to rest, the next script must set every variable to the value that
// Get returns now (the script builders read the map through All).
func cmdEnvWitness(args []string) error {
	fl := flag.NewFlagSet("envwitness", flag.ExitOnError)
	rounds := fl.Int("rounds", 40, "rounds")
	vars := fl.Int("vars", 1000, "padding variables")
	tmp := fl.String("tmp", "", "scratch")
	fl.Parse(args)
	byKey := map[string]int{}
	examples := map[string][]map[string]string{}
	fail := func(key, op, what string) {
		byKey[key]++
		if len(examples[key]) < 3 {
			examples[key] = append(examples[key], map[string]string{"key": key, "op": op, "backend": "envs", "what": what})
		}
	}
	executed := 0
	for _, kind := range []string{"container", "ssh"} {
		e := envs.NewEnvironments()
		all := map[string]string{"TOKEN": "initial"}
		for i := 0; i < *vars; i++ {
			// (names are letters and underscores)
			all["PAD_"+string(rune('A'+i/676%26))+string(rune('A'+i/26%26))+string(rune('A'+i%26))] = fmt.Sprintf("padding value %d", i)
		}
		if err := e.SetAll(all); err != nil {
			return err
		}
		for r := 0; r < *rounds; r++ {
			executed++
			want := fmt.Sprintf("value-of-round-%d", r)
			var wg sync.WaitGroup
			start := make(chan struct{})
			wg.Add(2)
			// one side reads the whole environment over and over (what every script build starts with), the other
			// replaces the value a few times; the LAST replacement is the configured value
			go func() {
				defer wg.Done()
				<-start
				for k := 0; k < 300; k++ {
					e.All()
				}
				buildScript(kind, e)
			}()
			go func() {
				defer wg.Done()
				<-start
				for j := 0; j < 20; j++ {
					e.Set("TOKEN", fmt.Sprintf("%s-step-%d", want, j))
					for spin := 0; spin < (r%5)*300; spin++ {
						_ = spin
					}
				}
				e.Set("TOKEN", want)
			}()
			close(start)
			wg.Wait()
			if got := e.Get("TOKEN"); got != want {
				fail("infra", kind, fmt.Sprintf("Get(TOKEN) = %q after Set(%q)", got, want))
				continue
			}
			script, err := buildScript(kind, e)
			if err != nil {
				fail("infra", kind, err.Error())
				continue
			}
			// grammar layer: the TOKEN block of the script
			m := regexp.MustCompile(`TOKEN=\$\(cat <<'([A-Za-z0-9_]+)'\n((?s:.*?))\n([A-Za-z0-9_]+)\n\)`).FindStringSubmatch(script)
			inScript := "<no TOKEN block>"
			if m != nil {
				inScript = m[2]
			}
			if inScript != want {
				// the real shell decides
				dir, err := ioutil.TempDir(*tmp, "shw")
				if err != nil {
					return err
				}
				got, stderr, runErr := runShell(dir, script, []string{"TOKEN"})
				os.RemoveAll(dir)
				if got["TOKEN"] != want {
					fail("stale-value:"+kind, fmt.Sprintf("round %d, %d variables", r, *vars+1), fmt.Sprintf("after Set(TOKEN, %q) had returned (Get answers it), the next start-up script gives the shell TOKEN=%q (script block %q; err %v %q)", want, got["TOKEN"], inScript, runErr, stderr))
					break
				}
			}
		}
	}
	out := map[string]interface{}{"executed": executed, "failures_by_key": byKey, "examples": examples, "samples": []string{}}
	b, _ := json.Marshal(out)
	fmt.Println(string(b))
	return nil
}
