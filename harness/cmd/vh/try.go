package main

import (
	"bufio"
	"encoding/json"
	"flag"
	"fmt"
	"os"
	"runtime"
	"strings"
	"time"
	wdog "verifharness/wd"

	"github.com/goatcms/goatcore/app/modules/pipelinem/pipcommands/pipc"
	"verifharness/pipx"
)

func init() {
	commands["trytrace"] = cmdTryTrace
	commands["tryseq"] = cmdTrySeq
}

type tryProg struct {
	K, FailAt    int
	Nested       string
	Dmask, Fmask int
}

var tryHandlers = []string{"success", "fail", "finally"}
var tryHandlerProbe = map[string]string{"success": "s1", "fail": "f1", "finally": "y1"}

func (p tryProg) sets() (defined, hfails, body []string) {
	defined, hfails, body = []string{}, []string{}, []string{}
	for i, h := range tryHandlers {
		if p.Dmask&(1<<uint(i)) != 0 {
			defined = append(defined, h)
		}
		if p.Fmask&(1<<uint(i)) != 0 {
			hfails = append(hfails, h)
		}
	}
	for c := 1; c <= p.K; c++ {
		body = append(body, fmt.Sprintf("b%d", c))
	}
	return
}

func (p tryProg) script(name string) string {
	var script strings.Builder
	script.WriteString("pip:try --name=" + name + " --silent=false --body=<<EOF\n")
	for c := 1; c <= p.K; c++ {
		if c == 1 && p.Nested != "none" {
			script.WriteString("pip:run --name=n --silent=false --body=\"probe --id=n1\"\n")
		}
		script.WriteString(fmt.Sprintf("probe --id=b%d\n", c))
	}
	script.WriteString("EOF")
	defined, _, _ := p.sets()
	for _, h := range defined {
		script.WriteString(fmt.Sprintf(" --%s=\"probe --id=%s\"", h, tryHandlerProbe[h]))
	}
	script.WriteString("\n")
	return script.String()
}

func (p tryProg) configure(wd *pipx.World) {
	_, hfails, _ := p.sets()
	for c := 1; c <= 3; c++ {
		wd.SetProbe(fmt.Sprintf("b%d", c), c == p.FailAt && c <= p.K, time.Duration(c*50)*time.Microsecond)
	}
	wd.SetProbe("n1", p.Nested == "fail", 400*time.Microsecond)
	for _, h := range tryHandlers {
		wd.SetProbe(tryHandlerProbe[h], false, 0)
	}
	for _, h := range hfails {
		wd.SetProbe(tryHandlerProbe[h], true, 0)
	}
}

func (p tryProg) reset(wd *pipx.World) {
	defined, hfails, body := p.sets()
	wd.Log.Emit(map[string]interface{}{"ev": "reset", "k": p.K, "body": body, "failat": p.FailAt, "nested": p.Nested, "defined": defined, "hfails": hfails})
}

// tryseq: TWO try blocks (different names) run one after the other by ONE application through one terminal
// session; a separator command between them closes the first history (what did the first block leave behind in
// the surrounding scope?) and opens the second, so that each block is validated by Trace_Try.tla on its own --
// in particular the second block must behave as if the first had never run.
func cmdTrySeq(args []string) error {
	fl := flag.NewFlagSet("tryseq", flag.ExitOnError)
	out := fl.String("out", "", "ndjson")
	every := fl.Int("every", 1, "take every n-th second program")
	offset := fl.Int("offset", 0, "offset")
	fl.Parse(args)
	f, err := os.Create(*out)
	if err != nil {
		return err
	}
	bw := bufio.NewWriterSize(f, 1<<20)
	firsts := []tryProg{{1, 0, "none", 7, 0}, {1, 1, "none", 7, 0}, {1, 0, "ok", 4, 0}, {2, 2, "none", 6, 0}}
	var seconds []tryProg
	for failAt := 0; failAt <= 1; failAt++ {
		for _, nested := range []string{"none", "ok", "fail"} {
			for dmask := 0; dmask < 8; dmask++ {
				for fmask := 0; fmask < 8; fmask++ {
					if fmask&^dmask == 0 {
						seconds = append(seconds, tryProg{1, failAt, nested, dmask, fmask})
					}
				}
			}
		}
	}
	executed, idx := 0, 0
	hung := false
	for _, a := range firsts {
		for _, b := range seconds {
			idx++
			if idx%*every != *offset%*every || hung {
				continue
			}
			executed++
			text := a.script("t") + "probe --id=sep\n" + b.script("u")
			wd, err := pipx.NewWorld(bw, text, []string{"appname", "terminal", "--strict=true", "--silent=true"})
			if err != nil {
				return err
			}
			a.reset(wd)
			a.configure(wd)
			sepSeen := false
			b := b
			wd.Intercept = map[string]func(){"sep": func() {
				sepSeen = true
				wd.Log.Emit(map[string]interface{}{"ev": "final", "outererr": len(wd.App.Scopes().App().Errors()) > 0})
				b.reset(wd)
				b.configure(wd)
			}}
			done := make(chan bool, 1)
			go func() {
				runErr := wd.Boot.Run()
				waitErr := wd.App.Scopes().App().Wait()
				done <- runErr != nil || waitErr != nil
			}()
			select {
			case outerErr := <-done:
				if !sepSeen {
					// the first block stopped the script (it must not: none of its handlers fails): reported by its own final
					wd.Log.Emit(map[string]interface{}{"ev": "final", "outererr": outerErr})
				} else {
					wd.Log.Emit(map[string]interface{}{"ev": "final", "outererr": outerErr})
				}
			case <-wdog.After(15 * time.Second):
				buf := make([]byte, 1<<16)
				n := runtime.Stack(buf, true)
				wd.Log.Emit(map[string]interface{}{"ev": "hang", "script": text, "goroutines": string(buf[:n])})
				hung = true
			}
		}
	}
	bw.Flush()
	f.Close()
	b, _ := json.Marshal(map[string]interface{}{"programs": executed, "hung": hung})
	fmt.Println(string(b))
	return nil
}

// trytrace: every pip:try program in a bound (body length, failing command, nested task,
// handler subset, failing handlers) executed by a real application through its terminal
func cmdTryTrace(args []string) error {
	fl := flag.NewFlagSet("trytrace", flag.ExitOnError)
	out := fl.String("out", "", "ndjson")
	every := fl.Int("every", 1, "take every n-th program")
	offset := fl.Int("offset", 0, "offset")
	maxK := fl.Int("k", 2, "max body commands")
	gate := fl.Bool("gate", false, "only programs whose finally handler fails; the next handler is submitted after that failure (try.handler hook)")
	fl.Parse(args)
	f, err := os.Create(*out)
	if err != nil {
		return err
	}
	bw := bufio.NewWriterSize(f, 1<<20)
	idx, executed := 0, 0
	hung := false
	handlers := []string{"success", "fail", "finally"}
	for k := 1; k <= *maxK && !hung; k++ {
		for failAt := 0; failAt <= k && !hung; failAt++ {
			for _, nested := range []string{"none", "ok", "fail", "try", "try2"} {
				for dmask := 0; dmask < 8 && !hung; dmask++ {
					for fmask := 0; fmask < 8 && !hung; fmask++ {
						if fmask&^dmask != 0 {
							continue // only defined handlers can fail
						}
						if *gate && (fmask&4 == 0 || dmask&3 == 0) {
							continue
						}
						idx++
						if idx%*every != *offset%*every {
							continue
						}
						executed++
						var defined, hfails, body []string
						for i, h := range handlers {
							if dmask&(1<<uint(i)) != 0 {
								defined = append(defined, h)
							}
							if fmask&(1<<uint(i)) != 0 {
								hfails = append(hfails, h)
							}
						}
						var script strings.Builder
						script.WriteString("pip:try --name=t --silent=false --body=<<EOF\n")
						for c := 1; c <= k; c++ {
							id := fmt.Sprintf("b%d", c)
							body = append(body, id)
							if c == 1 && nested == "try2" {
								// ... whose finally handler fails at once while its success handler is still working
								script.WriteString("pip:try --name=in --silent=false --body=\"probe --id=n1\" --success=\"probe --id=n2\" --finally=\"probe --id=n3\"\n")
							} else if c == 1 && nested == "try" {
								// a try block INSIDE the body: its body and its handler are tasks spawned by the outer body
								script.WriteString("pip:try --name=in --silent=false --body=\"probe --id=n1\" --finally=\"probe --id=n2\"\n")
							} else if c == 1 && nested != "none" {
								script.WriteString("pip:run --name=n --silent=false --body=\"probe --id=n1\"\n")
							}
							script.WriteString("probe --id=" + id + "\n")
						}
						script.WriteString("EOF\n")
						// the remaining arguments continue the same command line after the heredoc
						line := ""
						for _, h := range defined {
							line += fmt.Sprintf(" --%s=\"probe --id=%s\"", h, map[string]string{"success": "s1", "fail": "f1", "finally": "y1"}[h])
						}
						text := strings.TrimSuffix(script.String(), "\n") + line + "\n"
						wd, err := pipx.NewWorld(bw, text, []string{"appname", "terminal", "--strict=true", "--silent=true"})
						if err != nil {
							return err
						}
						if defined == nil {
							defined = []string{}
						}
						if hfails == nil {
							hfails = []string{}
						}
						wd.Log.Emit(map[string]interface{}{"ev": "reset", "k": k, "body": body, "failat": failAt, "nested": nested, "defined": defined, "hfails": hfails})
						for c := 1; c <= k; c++ {
							wd.SetProbe(fmt.Sprintf("b%d", c), c == failAt, time.Duration(c*50)*time.Microsecond)
						}
						wd.SetProbe("n1", nested == "fail", 400*time.Microsecond) // the nested task outlives the body's own commands
						wd.SetProbe("n2", false, 300*time.Microsecond)            // (nested try: its finally handler)
						if nested == "try2" {
							wd.SetProbe("n1", false, 100*time.Microsecond)
							wd.SetProbe("n2", false, 3*time.Millisecond) // the nested success handler is still working ...
							wd.SetProbe("n3", true, 0)                   // ... when the nested finally handler fails
						}
						for _, h := range hfails {
							wd.SetProbe(map[string]string{"success": "s1", "fail": "f1", "finally": "y1"}[h], true, 0)
						}
						pipc.VerifHook = nil
						if *gate {
							// forced schedule: the finally handler has failed (and the surrounding scope is done)
							// before the fail / success handler is submitted
							yEnded := wd.EndedCh("y1")
							pipc.VerifHook = func(site, name string) {
								if site == "try.handler" {
									select {
									case <-yEnded:
										time.Sleep(5 * time.Millisecond)
									case <-wdog.After(2 * time.Second):
									}
								}
							}
						}
						if os.Getenv("VH_DEBUG") != "" {
							fmt.Fprintf(os.Stderr, "PROGRAM k=%d failat=%d nested=%s defined=%v hfails=%v\n", k, failAt, nested, defined, hfails)
						}
						done := make(chan bool, 1)
						go func() {
							runErr := wd.Boot.Run()
							waitErr := wd.App.Scopes().App().Wait()
							done <- runErr != nil || waitErr != nil
						}()
						select {
						case outerErr := <-done:
							wd.Log.Emit(map[string]interface{}{"ev": "final", "outererr": outerErr})
						case <-wdog.After(15 * time.Second):
							buf := make([]byte, 1<<16)
							n := runtime.Stack(buf, true)
							wd.Log.Emit(map[string]interface{}{"ev": "hang", "script": text, "goroutines": string(buf[:n])})
							hung = true
						}
					}
				}
			}
		}
	}
	pipc.VerifHook = nil
	bw.Flush()
	f.Close()
	b, _ := json.Marshal(map[string]interface{}{"programs": executed, "hung": hung})
	fmt.Println(string(b))
	return nil
}
