package main

import (
	"fmt"
	"os"
	"runtime/pprof"
)

type cmdFn func(args []string) error

var commands = map[string]cmdFn{}

func main() {
	if len(os.Args) < 2 {
		fmt.Fprintln(os.Stderr, "usage: vh <command> ...")
		os.Exit(2)
	}
	fn, ok := commands[os.Args[1]]
	if !ok {
		fmt.Fprintln(os.Stderr, "unknown command", os.Args[1])
		os.Exit(2)
	}
	if pf := os.Getenv("VH_CPUPROFILE"); pf != "" {
		f, _ := os.Create(pf)
		pprof.StartCPUProfile(f)
		defer pprof.StopCPUProfile()
	}
	if err := fn(os.Args[2:]); err != nil {
		fmt.Fprintln(os.Stderr, "error:", err)
		os.Exit(2)
	}
}
