package main

import (
	"bufio"
	"encoding/json"
	"flag"
	"fmt"
	"math/rand"
	"os"
	"runtime"
	"time"

	"github.com/goatcms/goatcore/filesystem/fsloop"
	"verifharness/loopx"
)

func init() {
	commands["loopscript"] = cmdLoopScript
	commands["looptrace"] = cmdLoopTrace
}

var scriptShapes = []loopx.Shape{
	{"f1"},
	{"f1", "f2", "f3"},
	{"d/f1", "f2"},
	{"d/e/f1"},
	{"d/"},
	{"a/f1", "b/f2", "c/d/f3", "f4"},
	{".h/f1", ".f2", "..d/.f3", "d.e/f4"}, // names that begin with a dot are names like any other
	{},
}

// loopscript: the property-directed schedule (counterexample of the "prefix" variant) on the real loop
func cmdLoopScript(args []string) error {
	fl := flag.NewFlagSet("loopscript", flag.ExitOnError)
	fl.Parse(args)
	byKey := map[string]int{}
	examples := map[string][]map[string]string{}
	executed := 0
	var samples []interface{}
	for si, sh := range scriptShapes {
		for cons := 1; cons <= 3; cons++ {
			for prod := 1; prod <= 2; prod++ {
				c := &loopx.RunConfig{Shape: sh, Consumers: cons, Producents: prod}
				res, err := loopx.RunScript(c)
				if err != nil {
					return err
				}
				executed++
				desc := fmt.Sprintf("shape %d %v consumers=%d producents=%d", si, sh, cons, prod)
				if len(samples) < 2 {
					samples = append(samples, map[string]interface{}{"script": desc, "result": res})
				}
				add := func(key, what string) {
					byKey[key]++
					if len(examples[key]) < 3 {
						b, _ := json.Marshal(res)
						examples[key] = append(examples[key], map[string]string{"key": key, "op": desc, "backend": "fsloop", "what": what + " " + string(b)})
					}
				}
				if res.Parked < cons || !res.Announced {
					add("infra:script-not-forced", "the schedule could not be forced: "+res.Note)
					continue
				}
				if !res.Returned {
					add("hang", "Wait did not return")
				}
				if len(res.Missing) > 0 && res.Errors == 0 {
					add("lost-item", fmt.Sprintf("Wait returned without error but %v never got a callback", res.Missing))
				}
				if len(res.Repeated) > 0 {
					add("repeated", fmt.Sprintf("%v got more than one callback", res.Repeated))
				}
			}
		}
	}
	out := map[string]interface{}{"executed": executed, "failures_by_key": byKey, "examples": examples, "samples": samples}
	b, _ := json.Marshal(out)
	fmt.Println(string(b))
	return nil
}

func randShape(r *rand.Rand, maxNodes int) loopx.Shape {
	n := r.Intn(maxNodes + 1)
	var sh loopx.Shape
	dirs := []string{""}
	names := []string{"a", "b", "c", "skip", "x.json", "y.txt", "z.json", ".h", "..d"}
	used := map[string]bool{}
	for i := 0; i < n; i++ {
		parent := dirs[r.Intn(len(dirs))]
		name := fmt.Sprintf("%s%d", names[r.Intn(len(names))], i)
		if r.Intn(5) == 0 {
			name = "skip"
		}
		p := name
		if parent != "" {
			p = parent + "/" + name
		}
		if used[p] {
			continue
		}
		used[p] = true
		if name == "skip" || (r.Intn(3) == 0 && len(p) < 60) {
			dirs = append(dirs, p)
			sh = append(sh, p+"/")
		} else {
			if r.Intn(2) == 0 {
				p += ".json"
			}
			sh = append(sh, p)
		}
	}
	return sh
}

// looptrace: free-running loops over random trees and configurations, with schedule
// noise at the hook sites; events for Trace_FsLoop
func cmdLoopTrace(args []string) error {
	fl := flag.NewFlagSet("looptrace", flag.ExitOnError)
	out := fl.String("out", "", "ndjson output")
	n := fl.Int("n", 100, "runs")
	seed := fl.Int64("seed", 1, "seed")
	maxNodes := fl.Int("maxnodes", 60, "max nodes per tree")
	wide := fl.Int("wide", 0, "every 10th run: a directory with this many files (> channel capacity)")
	fl.Parse(args)
	f, err := os.Create(*out)
	if err != nil {
		return err
	}
	bw := bufio.NewWriterSize(f, 1<<20)
	r := rand.New(rand.NewSource(*seed))
	noise := rand.New(rand.NewSource(*seed + 7))
	fsloop.VerifHook = func(site string) {
		// schedule noise; racy use of the generator is harmless
		switch noise.Intn(6) {
		case 0:
			runtime.Gosched()
		case 1:
			time.Sleep(time.Duration(noise.Intn(50)) * time.Microsecond)
		}
	}
	defer func() { fsloop.VerifHook = nil }()
	procs := []int{1, 2, 4, runtime.NumCPU()}
	for i := 0; i < *n; i++ {
		runtime.GOMAXPROCS(procs[i%len(procs)])
		c := &loopx.RunConfig{Shape: randShape(r, *maxNodes), Consumers: r.Intn(runtime.NumCPU() + 1), Producents: r.Intn(runtime.NumCPU() + 1)}
		if *wide > 0 && i%10 == 9 {
			c.Shape = nil
			for k := 0; k < *wide; k++ {
				c.Shape = append(c.Shape, fmt.Sprintf("wide/f%d", k))
			}
		}
		// every eighth run: FEW consumers, more producers, callbacks that take a while, many nodes queued at once,
		// all CPUs -- the setting in which a consumer pool of the wrong size shows as too many callbacks at once
		if i%8 == 5 {
			runtime.GOMAXPROCS(runtime.NumCPU())
			c.Consumers, c.Producents, c.Work = 1+(i/8)%2, 4+(i/8)%3, 400*time.Microsecond
			c.Shape = nil
			for k := 0; k < 30; k++ {
				c.Shape = append(c.Shape, fmt.Sprintf("d%d/f%d", k%3, k))
			}
		}
		if r.Intn(3) == 0 {
			c.DirReject = "skip"
		}
		if r.Intn(3) == 0 {
			c.FileReject = ".json"
		}
		if r.Intn(4) == 0 {
			c.Work = 200 * time.Microsecond
		}
		if r.Intn(6) == 0 {
			sel := loopx.Selected(c)
			if len(sel) > 0 {
				s := sel[r.Intn(len(sel))]
				c.FailPath = s[len("file:"):]
				if s[:4] == "dir:" {
					c.FailPath = s[4:]
				}
			}
		}
		if c.FailPath == "" && r.Intn(6) == 0 {
			// a listing error: ReadDir of one selected directory fails (with few producers the walk recurses inline)
			var dirs []string
			for _, s := range loopx.Selected(c) {
				if s[:4] == "dir:" {
					dirs = append(dirs, s[4:])
				}
			}
			if len(dirs) > 0 {
				c.FailList = dirs[r.Intn(len(dirs))]
				if r.Intn(2) == 0 {
					c.Producents = 1
				}
			}
		}
		if err := loopx.RunFree(c, r, true, bw); err != nil {
			return err
		}
	}
	runtime.GOMAXPROCS(runtime.NumCPU())
	bw.Flush()
	f.Close()
	b, _ := json.Marshal(map[string]interface{}{"runs": *n})
	fmt.Println(string(b))
	return nil
}
