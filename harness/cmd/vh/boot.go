package main

import (
	"bufio"
	"encoding/json"
	"errors"
	"flag"
	"fmt"
	"os"
	"runtime"
	"strings"
	"sync"

	"github.com/goatcms/goatcore/app"
	"github.com/goatcms/goatcore/app/bootstrap"
	"github.com/goatcms/goatcore/app/goatapp"
)

func init() {
	commands["bootcases"] = cmdBootCases
	commands["bootwitness"] = cmdBootWitness
}

type bootMod struct {
	name string
	fail bool
	gate chan struct{}
	wg   *sync.WaitGroup
	log  *[]string
	mu   *sync.Mutex
}

func (m *bootMod) note(s string) {
	if m.log != nil {
		m.mu.Lock()
		*m.log = append(*m.log, s+":"+m.name)
		m.mu.Unlock()
	}
}
func (m *bootMod) RegisterDependencies(a app.App) error { m.note("reg"); return nil }
func (m *bootMod) InitDependencies(a app.App) error     { m.note("init"); return nil }
func (m *bootMod) Run(a app.App) error {
	if m.wg != nil {
		m.wg.Done()
		<-m.gate
	}
	m.note("run")
	if m.fail {
		return errors.New("module " + m.name + " fails")
	}
	return nil
}

// bootcases: every lifecycle history of Bootstrap.tla (Register / Init / Run in any order, repeated) on a real
// Bootstrap: refused exactly where the model refuses, Run's result an error iff a module fails, and the
// callbacks in the specified order (all RegisterDependencies in registration order, then all InitDependencies).
func cmdBootCases(args []string) error {
	fl := flag.NewFlagSet("bootcases", flag.ExitOnError)
	in := fl.String("in", "", "TLC output")
	fl.Parse(args)
	f, err := os.Open(*in)
	if err != nil {
		return err
	}
	defer f.Close()
	byKey := map[string]int{}
	examples := map[string][]map[string]string{}
	executed := 0
	seen := map[string]bool{}
	var samples []string
	fail := func(key, op, what string) {
		byKey[key]++
		if len(examples[key]) < 3 {
			examples[key] = append(examples[key], map[string]string{"key": key, "op": op, "backend": "bootstrap", "what": what})
		}
	}
	sc := bufio.NewScanner(f)
	sc.Buffer(make([]byte, 1<<20), 1<<24)
	for sc.Scan() {
		line := sc.Text()
		if !strings.Contains(line, "\\\"k\\\":\\\"boot\\\"") {
			continue
		}
		var inner string
		if err := json.Unmarshal([]byte(line), &inner); err != nil {
			return err
		}
		if seen[inner] {
			continue
		}
		seen[inner] = true
		var c struct {
			Calls  [][]string `json:"calls"`
			Mods   []string   `json:"mods"`
			Fails  []string   `json:"fails"`
			Result string     `json:"result"`
		}
		if err := json.Unmarshal([]byte(inner), &c); err != nil {
			return fmt.Errorf("parse %s: %v", inner, err)
		}
		executed++
		if len(samples) < 2 {
			samples = append(samples, inner)
		}
		mapp, err := goatapp.NewMockupApp(goatapp.Params{})
		if err != nil {
			return err
		}
		b := bootstrap.NewBootstrap(mapp)
		var log []string
		var mu sync.Mutex
		isFail := map[string]bool{}
		for _, n := range c.Fails {
			isFail[n] = true
		}
		var registered []string
		for _, n := range c.Mods {
			if err := b.Register(&bootMod{name: n, fail: isFail[n], log: &log, mu: &mu}); err != nil {
				fail("register", inner, err.Error())
			}
			registered = append(registered, n)
		}
		extra := 0
		for i, call := range c.Calls {
			var got string
			switch call[0] {
			case "register":
				extra++
				n := fmt.Sprintf("x%d", extra)
				if err := b.Register(&bootMod{name: n, log: &log, mu: &mu}); err != nil {
					got = "refused"
				} else {
					got = "ok"
					registered = append(registered, n)
				}
			case "init":
				if err := b.Init(); err != nil {
					got = "refused"
				} else {
					got = "ok"
					// callbacks: all reg in registration order, then all init
					var want []string
					for _, n := range registered {
						want = append(want, "reg:"+n)
					}
					for _, n := range registered {
						want = append(want, "init:"+n)
					}
					if strings.Join(log, " ") != strings.Join(want, " ") {
						fail("init-order", inner, fmt.Sprintf("callbacks %v, specification %v", log, want))
					}
				}
			case "run":
				before := len(log)
				err := b.Run()
				switch {
				case call[1] == "refused":
					got = "started"
					if err != nil && len(log) == before {
						got = "refused"
					}
				default:
					got = "started"
					ran := map[string]int{}
					for _, l := range log[before:] {
						ran[l]++
					}
					for _, n := range registered {
						if ran["run:"+n] != 1 {
							fail("run-each-once", inner, fmt.Sprintf("module %s ran %d times", n, ran["run:"+n]))
						}
					}
					res := "nil"
					if err != nil {
						res = "err"
					}
					if res != c.Result {
						fail("run-result", inner, fmt.Sprintf("Run returned %s, specification %s", res, c.Result))
					}
				}
			}
			if got != call[1] {
				fail("lifecycle:"+call[0], inner, fmt.Sprintf("call %d %s: %s, specification %s", i+1, call[0], got, call[1]))
			}
		}
	}
	out := map[string]interface{}{"executed": executed, "failures_by_key": byKey, "examples": examples, "samples": samples}
	bb, _ := json.Marshal(out)
	fmt.Println(string(bb))
	return nil
}

// bootwitness: the race of the model's "shared" variant on the real code -- K modules released at the same
// moment, some failing; Run must report an error every time.
func cmdBootWitness(args []string) error {
	fl := flag.NewFlagSet("bootwitness", flag.ExitOnError)
	n := fl.Int("n", 20000, "iterations")
	fl.Parse(args)
	runtime.GOMAXPROCS(8)
	lost, executed := 0, 0
	for i := 0; i < *n; i++ {
		mapp, err := goatapp.NewMockupApp(goatapp.Params{})
		if err != nil {
			return err
		}
		b := bootstrap.NewBootstrap(mapp)
		gate := make(chan struct{})
		var wg sync.WaitGroup
		k := 2 + i%4
		nf := 1 + i%2
		wg.Add(k)
		for j := 0; j < k; j++ {
			b.Register(&bootMod{name: fmt.Sprint(j), fail: j < nf, gate: gate, wg: &wg})
		}
		b.Init()
		go func() { wg.Wait(); close(gate) }()
		executed++
		if err := b.Run(); err == nil {
			lost++
		}
	}
	byKey := map[string]int{}
	examples := map[string][]map[string]string{}
	if lost > 0 {
		byKey["lost-module-error"] = lost
		examples["lost-module-error"] = []map[string]string{{"key": "lost-module-error", "op": "Bootstrap.Run with 2-5 modules released together, 1-2 failing", "backend": "bootstrap",
			"what": fmt.Sprintf("Run returned nil although a module failed in %d of %d runs", lost, executed)}}
	}
	bb, _ := json.Marshal(map[string]interface{}{"executed": executed, "failures_by_key": byKey, "examples": examples})
	fmt.Println(string(bb))
	return nil
}
