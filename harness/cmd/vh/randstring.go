package main

import (
	"bufio"
	"encoding/json"
	"flag"
	"fmt"
	"os"
	"strings"
	"sync"
	"time"

	"github.com/goatcms/goatcore/varutil"
)

func init() {
	commands["randcases"] = cmdRandCases
	commands["randwitness"] = cmdRandWitness
}

// wordSource is a math/rand source that hands out a prepared word stream
type wordSource struct {
	words   []int64
	next    int
	overrun int
}

func (w *wordSource) Int63() int64 {
	if w.next < len(w.words) {
		w.next++
		return w.words[w.next-1]
	}
	w.overrun++
	return 0
}
func (w *wordSource) Seed(int64) {}

// the pool of length p: a prefix of StrongBytes (91 distinct characters)
func randPool(p int) string { return varutil.StrongBytes[:p] }

// randcases: every behaviour of layer B of RandString.tla (letter stream -> string) on the real function, the
// package's source replaced through the verif hook; then PoolReachable on the real function: a stream that offers
// every letter value must be able to produce every character of every pool up to StrongBytes.
func cmdRandCases(args []string) error {
	fl := flag.NewFlagSet("randcases", flag.ExitOnError)
	in := fl.String("in", "", "TLC output")
	fl.Parse(args)
	f, err := os.Open(*in)
	if err != nil {
		return err
	}
	defer f.Close()
	byKey := map[string]int{}
	examples := map[string][]map[string]string{}
	executed := 0
	var samples []string
	fail := func(k, op, what string) {
		byKey[k]++
		if len(examples[k]) < 3 {
			examples[k] = append(examples[k], map[string]string{"key": k, "op": op, "backend": "varutil.RandString", "what": what})
		}
	}
	sc := bufio.NewScanner(f)
	sc.Buffer(make([]byte, 1<<20), 1<<24)
	for sc.Scan() {
		line := sc.Text()
		if !strings.Contains(line, "\\\"k\\\":\\\"rand\\\"") {
			continue
		}
		var inner string
		if err := json.Unmarshal([]byte(line), &inner); err != nil {
			return err
		}
		var c struct {
			Pool    int   `json:"pool"`
			N       int   `json:"n"`
			Bits    uint  `json:"bits"`
			Max     int   `json:"max"`
			Letters []int `json:"letters"`
			Out     []int `json:"out"`
		}
		if err := json.Unmarshal([]byte(inner), &c); err != nil {
			return fmt.Errorf("parse %s: %v", inner, err)
		}
		executed++
		if len(samples) < 2 && len(c.Letters) > 12 {
			samples = append(samples, inner)
		}
		// words: consecutive chunks of Max letters, letter j of a word in bits [j*Bits, (j+1)*Bits); the function
		// draws one word before it looks at n, so there is always at least one
		var words []int64
		for at := 0; at < len(c.Letters) || len(words) == 0; at += c.Max {
			var w int64
			for j := 0; j < c.Max && at+j < len(c.Letters); j++ {
				w |= int64(c.Letters[at+j]) << (uint(j) * c.Bits)
			}
			words = append(words, w)
		}
		src := &wordSource{words: words}
		pool := randPool(c.Pool)
		var got string
		var pan interface{}
		func() {
			old := varutil.VerifSetSource(src)
			defer varutil.VerifSetSource(old)
			defer func() { pan = recover() }()
			got = varutil.RandString(c.N, pool)
		}()
		var want strings.Builder
		for _, idx := range c.Out {
			want.WriteByte(pool[idx])
		}
		switch {
		case pan != nil:
			fail("rand-panic", inner, fmt.Sprintf("RandString(%d, pool of %d) panicked: %v", c.N, c.Pool, pan))
		case got != want.String():
			fail("rand-string", inner, fmt.Sprintf("RandString(%d, pool of %d) over letters %v (bits %d) = %q, specification %q", c.N, c.Pool, c.Letters, c.Bits, got, want.String()))
		case src.overrun > 0 || src.next != len(words):
			fail("rand-words", inner, fmt.Sprintf("RandString(%d, pool of %d) drew %d words (+%d beyond the stream), specification %d", c.N, c.Pool, src.next, src.overrun, len(words)))
		}
	}
	// PoolReachable on the real function: a counter as the source's word stream offers every letter value in the
	// lowest letter position; every character of the pool must turn up
	for _, p := range []int{1, 2, 10, 26, 36, 62, 64, 65, 91} {
		pool := randPool(p)
		seen := map[byte]bool{}
		cnt := &counterSource{}
		func() {
			old := varutil.VerifSetSource(cnt)
			defer varutil.VerifSetSource(old)
			defer func() { recover() }()
			for k := 0; k < 4096; k++ {
				s := varutil.RandString(1, pool)
				if len(s) == 1 {
					seen[s[0]] = true
				}
			}
		}()
		var missing []string
		for i := 0; i < p; i++ {
			if !seen[pool[i]] {
				missing = append(missing, string(pool[i]))
			}
		}
		if len(missing) > 0 {
			fail("pool-unreachable", fmt.Sprintf("pool of %d characters", p), fmt.Sprintf("RandString(1, pool of %d characters) fed every letter value never produces %d of them: %s", p, len(missing), strings.Join(missing, "")))
		}
	}
	out := map[string]interface{}{"executed": executed, "failures_by_key": byKey, "examples": examples, "samples": samples}
	b, _ := json.Marshal(out)
	fmt.Println(string(b))
	return nil
}

// counterSource returns 0, 1, 2, ... : the lowest letter of the words runs through every letter value
type counterSource struct{ n int64 }

func (c *counterSource) Int63() int64 { c.n++; return c.n - 1 }
func (c *counterSource) Seed(int64)   {}

// randwitness: layer A on the real code: g goroutines call RandString for a while on the REAL source; a panic in
// any of them (an index of the source out of range) or a malformed result is reported.
func cmdRandWitness(args []string) error {
	fl := flag.NewFlagSet("randwitness", flag.ExitOnError)
	g := fl.Int("g", 16, "goroutines")
	ms := fl.Int("ms", 2000, "duration")
	fl.Parse(args)
	var wg sync.WaitGroup
	var mu sync.Mutex
	panics, malformed, calls := 0, 0, 0
	first := ""
	stop := time.Now().Add(time.Duration(*ms) * time.Millisecond)
	for i := 0; i < *g; i++ {
		wg.Add(1)
		go func() {
			defer wg.Done()
			local := 0
			for time.Now().Before(stop) {
				func() {
					defer func() {
						if r := recover(); r != nil {
							mu.Lock()
							panics++
							if first == "" {
								first = fmt.Sprint(r)
							}
							mu.Unlock()
						}
					}()
					for k := 0; k < 2000; k++ {
						s := varutil.RandString(5, varutil.AlphaNumericBytes)
						local++
						if len(s) != 5 || strings.Trim(s, varutil.AlphaNumericBytes) != "" {
							mu.Lock()
							malformed++
							mu.Unlock()
						}
					}
				}()
			}
			mu.Lock()
			calls += local
			mu.Unlock()
		}()
	}
	wg.Wait()
	b, _ := json.Marshal(map[string]interface{}{"goroutines": *g, "calls": calls, "panics": panics, "malformed": malformed, "first": first})
	fmt.Println(string(b))
	return nil
}
