package main

import (
	"bufio"
	"encoding/json"
	"flag"
	"fmt"
	"os"
	"strings"

	"verifharness/fsx"
)

func init() { commands["fsseq"] = cmdFsSeq }

// fsseq: every call SEQUENCE of MemFSSeq.tla through the API of a fresh backend; after each call the result and
// the whole tree must be the specified ones (the state is reached by the calls, not built by the harness).
func cmdFsSeq(args []string) error {
	fl := flag.NewFlagSet("fsseq", flag.ExitOnError)
	in := fl.String("in", "", "TLC output")
	backends := fl.String("backends", "mem", "comma separated")
	tmp := fl.String("tmp", os.TempDir(), "scratch dir for disk backends")
	fl.Parse(args)
	f, err := os.Open(*in)
	if err != nil {
		return err
	}
	defer f.Close()
	byKey := map[string]int{}
	examples := map[string][]map[string]string{}
	executed := 0
	var samples []string
	fail := func(k, op, backend, what string) {
		byKey[k]++
		if len(examples[k]) < 3 {
			examples[k] = append(examples[k], map[string]string{"key": k, "op": op, "backend": backend, "what": what})
		}
	}
	kinds := strings.Split(*backends, ",")
	sc := bufio.NewScanner(f)
	sc.Buffer(make([]byte, 1<<20), 1<<24)
	idx := 0
	for sc.Scan() {
		line := sc.Text()
		if !strings.Contains(line, "\\\"k\\\":\\\"seq\\\"") {
			continue
		}
		var inner string
		if err := json.Unmarshal([]byte(line), &inner); err != nil {
			return err
		}
		var c struct {
			Hist []struct {
				Op struct {
					Name string   `json:"name"`
					P    []string `json:"p"`
					Q    []string `json:"q"`
					D    string   `json:"d"`
				} `json:"op"`
				Res  [][]string        `json:"res"`
				Tree []json.RawMessage `json:"tree"`
			} `json:"hist"`
		}
		if err := json.Unmarshal([]byte(inner), &c); err != nil {
			return fmt.Errorf("parse %s: %v", inner[:200], err)
		}
		idx++
		kind := kinds[idx%len(kinds)]
		if len(samples) < 2 {
			samples = append(samples, inner)
		}
		executed++
		b, err := fsx.NewBackend(kind, *tmp)
		if err != nil {
			return err
		}
		d := fsx.NewDict()
		var done []string
		// every second sequence with the model's names instantiated as string-prefix-related names
		ren := func(p []string) []string { return p }
		if idx%2 == 0 {
			ren = func(p []string) []string {
				if p == nil {
					return nil
				}
				out := make([]string, len(p))
				for i, x := range p {
					out[i] = x
					if y, ok := fsx.PrefixNames[x]; ok {
						out[i] = y
					}
				}
				return out
			}
		}
		for i, h := range c.Hist {
			op := fsx.Op{Name: h.Op.Name, Sp: ren(h.Op.P), Sq: ren(h.Op.Q), D: h.Op.D}
			done = append(done, op.String())
			res := fsx.Exec(b.FS, op, d, nil)
			if res.Key() != fsx.Res(h.Res).Key() {
				fail("seq-result:"+h.Op.Name, strings.Join(done, " ; "), kind, fmt.Sprintf("step %d answered %v, specification %v", i+1, res, h.Res))
				break
			}
			want, _ := fsx.ParseTreeJSON(h.Tree)
			for wi := range want {
				want[wi].P = ren(want[wi].P)
			}
			fsx.SortTree(want)
			got, err := b.Project(d)
			if err != nil {
				fail("seq-projection", strings.Join(done, " ; "), kind, err.Error())
				break
			}
			if got.Key() != want.Key() {
				fail("seq-tree:"+h.Op.Name, strings.Join(done, " ; "), kind, fmt.Sprintf("after step %d the tree is %s, specification %s", i+1, got.Key(), want.Key()))
				break
			}
		}
		b.Cleanup()
	}
	out := map[string]interface{}{"executed": executed, "failures_by_key": byKey, "examples": examples, "samples": samples}
	bb, _ := json.Marshal(out)
	fmt.Println(string(bb))
	return nil
}
