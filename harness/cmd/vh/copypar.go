package main

import (
	"bytes"
	"encoding/json"
	"flag"
	"fmt"
	"sync"

	"github.com/goatcms/goatcore/filesystem"
	"github.com/goatcms/goatcore/filesystem/filespace/memfs"
	"github.com/goatcms/goatcore/filesystem/fshelper"
	"verifharness/fsx"
)

func init() { commands["copypar"] = cmdCopyPar }

// copypar: the copy helpers used by several goroutines at once on DISTINCT files (after some sequential
// copies, as a long-running process has behind it): every destination must be byte-for-byte its source and
// every call must say so.  Nothing is shared between the copies except what the helpers share themselves.
func cmdCopyPar(args []string) error {
	fl := flag.NewFlagSet("copypar", flag.ExitOnError)
	rounds := fl.Int("rounds", 30, "rounds")
	g := fl.Int("g", 8, "goroutines")
	per := fl.Int("per", 40, "copies per goroutine and round")
	fl.Parse(args)
	byKey := map[string]int{}
	examples := map[string][]map[string]string{}
	executed := 0
	add := func(k, op, what string) {
		byKey[k]++
		if len(examples[k]) < 3 {
			examples[k] = append(examples[k], map[string]string{"key": k, "op": op, "backend": "mem>mem / mem>crypt", "what": what})
		}
	}
	content := func(gi, i int) []byte {
		n := []int{0, 1, 16, 17, 200, 4097}[(gi+i)%6]
		b := make([]byte, n)
		for j := range b {
			b[j] = byte(gi*31 + i*7 + j)
		}
		return b
	}
	var mu sync.Mutex
	for r := 0; r < *rounds; r++ {
		src, _ := memfs.NewFilespace()
		var dst filesystem.Filespace
		if r%2 == 0 {
			dst, _ = memfs.NewFilespace()
		} else {
			b, err := fsx.NewBackend("crypt", "")
			if err != nil {
				return err
			}
			dst = b.FS
		}
		for gi := 0; gi < *g; gi++ {
			for i := 0; i < *per; i++ {
				src.WriteFile(fmt.Sprintf("g%d/f%d", gi, i), content(gi, i), filesystem.DefaultUnixFileMode)
			}
		}
		// a few sequential copies first
		src.WriteFile("warm/w", []byte("warm-up"), filesystem.DefaultUnixFileMode)
		dst.MkdirAll("warm", filesystem.DefaultUnixDirMode)
		for k := 0; k < 3; k++ {
			fshelper.StreamCopy(src, dst, "warm/w")
		}
		var wg sync.WaitGroup
		for gi := 0; gi < *g; gi++ {
			wg.Add(1)
			go func(gi int) {
				defer wg.Done()
				dst.MkdirAll(fmt.Sprintf("g%d", gi), filesystem.DefaultUnixDirMode)
				for i := 0; i < *per; i++ {
					p := fmt.Sprintf("g%d/f%d", gi, i)
					var err error
					if i%2 == 0 {
						err = fshelper.StreamCopy(src, dst, p)
					} else {
						err = fshelper.Copier{SrcFS: src, SrcPath: p, DestFS: dst, DestPath: p}.Do()
					}
					got, rerr := dst.ReadFile(p)
					mu.Lock()
					executed++
					if err == nil && (rerr != nil || !bytes.Equal(got, content(gi, i))) {
						add("parallel-copy-corrupt", p, fmt.Sprintf("the copy reported success but the destination holds %d bytes (read error %v) that differ from the %d source bytes", len(got), rerr, len(content(gi, i))))
					} else if err != nil {
						add("parallel-copy-error", p, err.Error())
					}
					mu.Unlock()
				}
			}(gi)
		}
		wg.Wait()
	}
	out := map[string]interface{}{"executed": executed, "failures_by_key": byKey, "examples": examples}
	b, _ := json.Marshal(out)
	fmt.Println(string(b))
	return nil
}
