package main

import (
	"bufio"
	"bytes"
	"encoding/json"
	"flag"
	"fmt"
	"os"
	"strings"

	"github.com/goatcms/goatcore/app/gio"
)

func init() { commands["repcases"] = cmdRepCases }

const (
	repIn  = "\n<<<<<<<<<<<<<<<<<<<<:\n"
	repOut = "\n>>>>>>>>>>>>>>>>>>>>:\n"
	repErr = "\n!!!!!!!!!!!!!!!!!!!!:\n"
)

// repcases: every operation sequence of Repeater.tla on a real gio.Repeater; the two transcripts must be the
// specified sequence of banners and payloads.
func cmdRepCases(args []string) error {
	fl := flag.NewFlagSet("repcases", flag.ExitOnError)
	in := fl.String("in", "", "TLC output")
	fl.Parse(args)
	f, err := os.Open(*in)
	if err != nil {
		return err
	}
	defer f.Close()
	byKey := map[string]int{}
	examples := map[string][]map[string]string{}
	executed := 0
	var samples []string
	fail := func(k, op, what string) {
		byKey[k]++
		if len(examples[k]) < 3 {
			examples[k] = append(examples[k], map[string]string{"key": k, "op": op, "backend": "repeater", "what": what})
		}
	}
	sc := bufio.NewScanner(f)
	sc.Buffer(make([]byte, 1<<20), 1<<24)
	for sc.Scan() {
		line := sc.Text()
		if !strings.Contains(line, "\\\"k\\\":\\\"rep\\\"") {
			continue
		}
		var inner string
		if err := json.Unmarshal([]byte(line), &inner); err != nil {
			return err
		}
		var c struct {
			Ops []string `json:"ops"`
			Out []string `json:"out"`
			Err []string `json:"err"`
		}
		if err := json.Unmarshal([]byte(inner), &c); err != nil {
			return fmt.Errorf("parse %s: %v", inner, err)
		}
		executed++
		if len(samples) < 2 && len(c.Ops) == 4 {
			samples = append(samples, inner)
		}
		// the input is prepared so that every reading op finds exactly its payload ("" for the *0 ops: end of input)
		var input strings.Builder
		payload := map[int]string{}
		for i, op := range c.Ops {
			switch op {
			case "read":
				payload[i] = fmt.Sprintf("r%d%%;", i)
			case "readword":
				payload[i] = fmt.Sprintf("w%d%%d", i)
			case "readline":
				payload[i] = fmt.Sprintf("l%d%%s", i)
			case "printf", "write", "errprintf", "errwrite":
				payload[i] = fmt.Sprintf("[%s%d 50%%]", op, i)
			}
		}
		// build the input stream: reads consume in order; a *0 op must come when the input is exhausted, so the
		// data ops after the first *0 op get nothing either -- such sequences are skipped
		exhausted, skip := false, false
		// the last op that consumes data needs no separator after it (its word / line ends with the input); a raw
		// read that follows a ReadWord is handed the separator the word left behind, in front of its own payload
		lastData, prevData := -1, ""
		for i, op := range c.Ops {
			if op == "read" || op == "readword" || op == "readline" {
				lastData = i
			}
		}
		lead := map[int]string{}
		for i, op := range c.Ops {
			switch op {
			case "read0", "readword0", "readline0":
				exhausted = true
			case "read", "readword", "readline":
				if exhausted {
					skip = true
				}
				if op == "read" && prevData == "readword" {
					lead[i] = " "
				}
				input.WriteString(payload[i])
				if i != lastData {
					switch op {
					case "readword":
						input.WriteString(" ")
					case "readline":
						input.WriteString("\n")
					}
				}
				prevData = op
			}
		}
		// (sequences mixing the raw Read with ReadWord / ReadLine used to lose input inside gio.Input and were skipped;
		// since fix 1c54d78 the three calls share one cursor: a raw read is given exactly the bytes that follow)
		if skip {
			executed--
			continue
		}
		var outB, errB bytes.Buffer
		rep := gio.NewRepeater(gio.NewOutput(&outB), gio.NewOutput(&errB), gio.NewInput(strings.NewReader(input.String())))
		for i, op := range c.Ops {
			switch op {
			case "read", "read0":
				n := len(payload[i]) + len(lead[i])
				if n == 0 {
					n = 8
				}
				buf := make([]byte, n)
				rep.Read(buf)
			case "readword", "readword0":
				rep.ReadWord()
			case "readline", "readline0":
				rep.ReadLine()
			case "printf":
				rep.Printf("%s", payload[i])
			case "write":
				rep.Write([]byte(payload[i]))
			case "errprintf":
				rep.Err().Printf("%s", payload[i])
			case "errwrite":
				rep.Err().Write([]byte(payload[i]))
			}
		}
		render := func(items []string, ops []string) string {
			var b strings.Builder
			k := 0
			_ = k
			for _, it := range items {
				switch it {
				case "B:in":
					b.WriteString(repIn)
				case "B:out":
					b.WriteString(repOut)
				case "B:err":
					b.WriteString(repErr)
				default:
					// payload of the next op with that name, in order
					name := strings.TrimPrefix(it, "P:")
					for i := range ops {
						if ops[i] == name {
							b.WriteString(lead[i] + strings.TrimRight(payload[i], " \n"))
							ops[i] = "-"
							break
						}
					}
				}
			}
			return b.String()
		}
		opsCopy := append([]string{}, c.Ops...)
		wantOut := render(c.Out, opsCopy)
		wantErr := render(c.Err, opsCopy)
		norm := func(s string) string { return s }
		if norm(outB.String()) != wantOut {
			fail("transcript:out", inner, fmt.Sprintf("ops %v: output transcript %q, specification %q", c.Ops, outB.String(), wantOut))
		}
		if norm(errB.String()) != wantErr {
			fail("transcript:err", inner, fmt.Sprintf("ops %v: error transcript %q, specification %q", c.Ops, errB.String(), wantErr))
		}
	}
	out := map[string]interface{}{"executed": executed, "failures_by_key": byKey, "examples": examples, "samples": samples}
	b, _ := json.Marshal(out)
	fmt.Println(string(b))
	return nil
}
