package main

import (
	"bufio"
	"bytes"
	"encoding/json"
	"flag"
	"fmt"
	"io"
	"os"
	"regexp"
	"sort"
	"strings"
	"sync"
	"time"
	wdog "verifharness/wd"

	"github.com/goatcms/goatcore/app"
	"github.com/goatcms/goatcore/app/gio"
	"github.com/goatcms/goatcore/app/gio/bufferio"
	"github.com/goatcms/goatcore/app/modules/pipelinem/pipcommands/pipc"
	"github.com/goatcms/goatcore/app/modules/pipelinem/pipservices"
	"github.com/goatcms/goatcore/app/modules/pipelinem/pipservices/namespaces"
	"github.com/goatcms/goatcore/app/scope"
	"github.com/goatcms/goatcore/app/scope/contextscope"
	"github.com/goatcms/goatcore/app/terminal"
	"github.com/goatcms/goatcore/filesystem/filespace/memfs"
	"verifharness/pipx"
)

func init() { commands["tasklog"] = cmdTaskLog }

type tlItem struct {
	I   int    `json:"i"`
	K   string `json:"k"`
	Ok  bool   `json:"ok"`
	B   string `json:"b"`
	Cmd *int   `json:"cmd"`
}

type tlFrame struct {
	T    string `json:"t"`
	Item tlItem `json:"item"`
}

type tlAct struct {
	A string `json:"a"`
	T string `json:"t"`
	I int    `json:"i"`
	S string `json:"s"`
	V string `json:"v"`
	K string `json:"k"`
}

type tlStatus struct {
	T    string `json:"t"`
	What string `json:"what"`
}

type tlCase struct {
	Order []tlAct             `json:"order"`
	Ctxo  map[string][]tlItem `json:"ctxo"`
	Ctxe  map[string][]tlItem `json:"ctxe"`
	TO    map[string][]tlItem `json:"tO"`
	TIO   map[string][]tlItem `json:"tIO"`
	MO    []tlFrame           `json:"mO"`
	St    []tlStatus          `json:"st"`
}

func tlPayload(i int, k string) string {
	switch k {
	case "plain":
		return fmt.Sprintf("p%d;", i)
	case "pct":
		return fmt.Sprintf("%d:50%%;", i)
	case "verb":
		return fmt.Sprintf("%d:%%d%%s;", i)
	case "multi":
		return fmt.Sprintf("%da\n%db;", i, i)
	case "blank":
		return " \n"
	}
	return "?"
}

var tlStamp = regexp.MustCompile(`~~~ \[[^\]]*\] `)

const tlWatch = 10 * time.Second

// tasklog: every finished behaviour of TaskLog.tla on a real application: the tasks are submitted, write and end
// in the model's global order (each write is a terminal command of the task's body that waits for its turn);
// then every sink is compared with the model's.
func cmdTaskLog(args []string) error {
	fl := flag.NewFlagSet("tasklog", flag.ExitOnError)
	in := fl.String("in", "", "TLC output")
	show := fl.Bool("show", false, "print the raw sinks of the first case")
	fl.Parse(args)
	f, err := os.Open(*in)
	if err != nil {
		return err
	}
	defer f.Close()
	byKey := map[string]int{}
	examples := map[string][]map[string]string{}
	executed := 0
	var samples []string
	fail := func(k, op, what string) {
		byKey[k]++
		if len(examples[k]) < 3 {
			examples[k] = append(examples[k], map[string]string{"key": k, "op": op, "backend": "pipeline tasks", "what": what})
		}
	}
	sc := bufio.NewScanner(f)
	sc.Buffer(make([]byte, 1<<20), 1<<24)
	for sc.Scan() {
		line := sc.Text()
		if !strings.Contains(line, "\\\"k\\\":\\\"tlog\\\"") {
			continue
		}
		var inner string
		if err := json.Unmarshal([]byte(line), &inner); err != nil {
			return err
		}
		var c tlCase
		if err := json.Unmarshal([]byte(inner), &c); err != nil {
			return fmt.Errorf("parse %s: %v", inner, err)
		}
		executed++
		if len(samples) < 2 && len(c.Order) >= 6 {
			samples = append(samples, inner)
		}
		if err := runTaskLogCase(&c, inner, fail, *show && executed == 1); err != nil {
			return err
		}
	}
	tlAdapters(fail)
	out := map[string]interface{}{"executed": executed, "failures_by_key": byKey, "examples": examples, "samples": samples}
	b, _ := json.Marshal(out)
	fmt.Println(string(b))
	return nil
}

// tlAdapters: Verbatim, adapter by adapter: whatever is written through one of the output adapters of the chain
// -- by Printf with arguments or by Write -- arrives unchanged (the Logger adds its frame around it)
func tlAdapters(fail func(k, op, what string)) {
	const p = "50%;%d%s"
	type mk func(w io.Writer) app.Output
	adapters := map[string]mk{
		"gio.Output":      func(w io.Writer) app.Output { return gio.NewOutput(w) },
		"gio.MultiOutput": func(w io.Writer) app.Output { return gio.NewMultiOutput([]app.Output{gio.NewOutput(w)}) },
		"gio.Logger":      func(w io.Writer) app.Output { return gio.NewLogger(gio.NewOutput(w), "cid") },
		"gio.Repeater": func(w io.Writer) app.Output {
			return gio.NewRepeater(gio.NewOutput(w), gio.NewOutput(io.Discard), gio.NewInput(strings.NewReader("")))
		},
		"gio.Repeater.Err": func(w io.Writer) app.Output {
			return gio.NewRepeater(gio.NewOutput(io.Discard), gio.NewOutput(w), gio.NewInput(strings.NewReader(""))).Err()
		},
		"bufferio.Broadcast":    func(w io.Writer) app.Output { return bufferio.NewBroadcast(nil, []io.Writer{w}) },
		"bufferio.BufferOutput": func(w io.Writer) app.Output { return tlBufOut(w) },
	}
	for name, make := range adapters {
		for _, via := range []string{"printf", "write"} {
			var b lockedBuf
			o := make(&b)
			want := p
			if via == "printf" {
				o.Printf("%s|%d", p, 7)
				want = p + "|7"
			} else {
				o.Write([]byte(p))
			}
			if fl, ok := o.(interface{ flushTo() }); ok {
				fl.flushTo()
			}
			got := tlStamp.ReplaceAllString(b.String(), "~~~ ")
			for _, banner := range []string{tlOut, tlErr} {
				got = strings.TrimPrefix(got, banner)
			}
			if name == "gio.Logger" {
				want = "~~~ cid :\n" + want + "\n"
			}
			if got != want {
				fail("adapter:"+name+":"+via, name+" "+via, fmt.Sprintf("%s: %s of %q arrives as %q, specification %q", name, via, p, got, want))
			}
		}
	}
}

// a BufferOutput whose buffer is copied to w afterwards
type tlBufOutT struct {
	app.Output
	buf *bufferio.Buffer
	w   io.Writer
}

func (t tlBufOutT) flushTo() { t.w.Write(t.buf.Bytes()) }
func tlBufOut(w io.Writer) app.Output {
	buf := bufferio.NewBuffer()
	return tlBufOutT{Output: bufferio.NewBufferOutput(buf), buf: buf, w: w}
}

type lockedBuf struct {
	mu sync.Mutex
	b  bytes.Buffer
}

func (l *lockedBuf) Write(p []byte) (int, error) {
	l.mu.Lock()
	defer l.mu.Unlock()
	return l.b.Write(p)
}
func (l *lockedBuf) String() string {
	l.mu.Lock()
	defer l.mu.Unlock()
	return l.b.String()
}

func runTaskLogCase(c *tlCase, inner string, fail func(k, op, what string), show bool) error {
	wd, err := pipx.NewWorld(io.Discard, "", nil)
	if err != nil {
		return err
	}
	type emitSpec struct {
		act   tlAct
		turn  chan struct{}
		ended chan struct{}
	}
	emits := map[string]*emitSpec{}
	bodies := map[string]*strings.Builder{}
	var tasks []string
	for _, a := range c.Order {
		switch a.A {
		case "start":
			tasks = append(tasks, a.T)
			bodies[a.T] = &strings.Builder{}
		case "emit":
			id := fmt.Sprintf("e%d", a.I)
			emits[id] = &emitSpec{act: a, turn: make(chan struct{}), ended: make(chan struct{})}
			bodies[a.T].WriteString("emit --id=" + id + "\n")
		case "finish":
			id := "fin" + a.T
			emits[id] = &emitSpec{act: a, turn: make(chan struct{}), ended: make(chan struct{})}
			bodies[a.T].WriteString("emit --id=" + id + "\n")
		}
	}
	var hung []string
	var hmu sync.Mutex
	wd.App.Terminal().SetCommand(terminal.NewCommand(terminal.CommandParams{
		Name:      "emit",
		Arguments: terminal.NewArguments(terminal.NewArgument(terminal.ArgumentParams{Name: "id", Type: app.TerminalTextArgument})),
		Callback: func(a app.App, ctx app.IOContext) error {
			var args struct {
				ID string `command:"?id"`
			}
			if err := ctx.Scope().InjectTo(&args); err != nil {
				return err
			}
			e := emits[args.ID]
			if e == nil {
				return fmt.Errorf("unknown emit %s", args.ID)
			}
			select {
			case <-e.turn:
			case <-wdog.After(tlWatch):
				hmu.Lock()
				hung = append(hung, "turn of "+args.ID+" never came")
				hmu.Unlock()
			}
			defer close(e.ended)
			if e.act.A == "finish" {
				return nil
			}
			o := ctx.IO().Out()
			if e.act.S == "err" {
				o = ctx.IO().Err()
			}
			p := tlPayload(e.act.I, e.act.K)
			if e.act.V == "printf" {
				return o.Printf("%s", p)
			}
			_, err := o.Write([]byte(p))
			return err
		},
	}))
	appScope := wd.App.Scopes().App()
	parent := scope.NewChild(appScope, scope.ChildParams{ContextScope: contextscope.NewIsolated(appScope.BaseContextScope()), Name: "tasklog"})
	defer func() {
		defer func() { recover() }()
		parent.Close()
	}()
	manager, err := wd.TasksUnit.FromScope(parent)
	if err != nil {
		return err
	}
	ctxo, ctxe := map[string]*lockedBuf{}, map[string]*lockedBuf{}
	cwd, _ := memfs.NewFilespace()
	for _, a := range c.Order {
		switch a.A {
		case "start":
			ctxo[a.T], ctxe[a.T] = &lockedBuf{}, &lockedBuf{}
			err := wd.Runner.Run(pipservices.Pip{
				Context:    pipservices.PipContext{In: gio.NewInput(strings.NewReader(bodies[a.T].String())), Out: gio.NewOutput(ctxo[a.T]), Err: gio.NewOutput(ctxe[a.T]), CWD: cwd, Scope: parent},
				Name:       a.T,
				Namespaces: namespaces.NewNamespaces(pipservices.NamasepacesParams{}),
				Sandbox:    "self",
			})
			if err != nil {
				fail("submission-refused", inner, fmt.Sprintf("task %s: %v", a.T, err))
				return nil
			}
		case "emit", "finish":
			id := fmt.Sprintf("e%d", a.I)
			if a.A == "finish" {
				id = "fin" + a.T
			}
			close(emits[id].turn)
			select {
			case <-emits[id].ended:
			case <-wdog.After(tlWatch):
				fail("hang", inner, fmt.Sprintf("command %s of task %s did not run within %s", id, a.T, tlWatch))
				return nil
			}
			if a.A == "finish" {
				t, ok := manager.Get(a.T)
				if !ok {
					fail("task-unknown", inner, "the manager does not know task "+a.T)
					return nil
				}
				done := make(chan struct{})
				go func() { t.Wait(); close(done) }()
				select {
				case <-done:
				case <-wdog.After(tlWatch):
					fail("hang", inner, fmt.Sprintf("task %s did not end within %s after its last command", a.T, tlWatch))
					return nil
				}
				// Task.Wait returns as soon as the task is marked done, its final status line is printed just after:
				// the next step of the model's order must not overtake it
				deadline := time.Now().Add(tlWatch)
				for strings.Count(manager.StatusBroadcast().String(), "\n ["+a.T+"]... ") < 2 && time.Now().Before(deadline) {
					time.Sleep(200 * time.Microsecond)
				}
			}
		}
	}
	if len(hung) > 0 {
		fail("hang", inner, strings.Join(hung, "; "))
		return nil
	}
	render := func(items []tlItem) string {
		var b strings.Builder
		for _, it := range items {
			b.WriteString(tlPayload(it.I, it.K))
		}
		return b.String()
	}
	sort.Strings(tasks)
	if show {
		for _, t := range tasks {
			tk, _ := manager.Get(t)
			fmt.Fprintf(os.Stderr, "--- %s ctxo %q ctxe %q\n tO %q\n tIO %q\n", t, ctxo[t].String(), ctxe[t].String(), tk.OBroadcast().String(), tk.IOBroadcast().String())
		}
		fmt.Fprintf(os.Stderr, "--- mO %q\n--- st %q\n", manager.OBroadcast().String(), manager.StatusBroadcast().String())
	}
	for _, t := range tasks {
		tk, _ := manager.Get(t)
		if got, want := ctxo[t].String(), render(c.Ctxo[t]); got != want {
			fail("context-out", inner, fmt.Sprintf("task %s: the output stream of its context holds %q, specification %q", t, got, want))
		}
		if got, want := ctxe[t].String(), render(c.Ctxe[t]); got != want {
			fail("context-err", inner, fmt.Sprintf("task %s: the error stream of its context holds %q, specification %q", t, got, want))
		}
		if got, want := tk.OBroadcast().String(), render(c.TO[t]); got != want {
			fail("task-output-log", inner, fmt.Sprintf("task %s: OBroadcast holds %q, specification %q", t, got, want))
		}
		if got, want := tlSegments(tk.IOBroadcast().String()), tlWantSegments(c.TIO[t]); got != want {
			fail("task-transcript", inner, fmt.Sprintf("task %s: IOBroadcast holds %q = segments %s, specification %s", t, tk.IOBroadcast().String(), got, want))
		}
	}
	// manager log: frames
	var wantMO strings.Builder
	for _, fr := range c.MO {
		wantMO.WriteString(fmt.Sprintf("~~~ %s :\n%s\n", fr.T, strings.Trim(tlPayload(fr.Item.I, fr.Item.K), "\n\t ")))
	}
	gotMO := tlStamp.ReplaceAllString(manager.OBroadcast().String(), "~~~ ")
	if gotMO != wantMO.String() {
		fail("manager-log", inner, fmt.Sprintf("the manager's OBroadcast holds %q, specification %q", gotMO, wantMO.String()))
	}
	var wantSt strings.Builder
	for _, s := range c.St {
		wantSt.WriteString(fmt.Sprintf("\n [%s]... %s", s.T, s.What))
	}
	if got := manager.StatusBroadcast().String(); got != wantSt.String() {
		fail("status-log", inner, fmt.Sprintf("StatusBroadcast holds %q, specification %q", got, wantSt.String()))
	}
	// the printing commands
	var lo, so lockedBuf
	cmdCtx := func(w io.Writer) app.IOContext {
		return gio.NewIOContext(parent, gio.NewIO(gio.IOParams{In: gio.NewInput(strings.NewReader("")), Out: gio.NewOutput(w), Err: gio.NewOutput(io.Discard), CWD: cwd}))
	}
	if err := pipc.Logs(wd.App, cmdCtx(&lo)); err != nil {
		fail("logs-command", inner, fmt.Sprintf("pip:logs failed: %v", err))
	} else if got := tlStamp.ReplaceAllString(lo.String(), "~~~ "); got != wantMO.String() {
		fail("logs-command", inner, fmt.Sprintf("pip:logs printed %q, the log is %q", got, wantMO.String()))
	}
	if err := pipc.Summary(wd.App, cmdCtx(&so)); err != nil {
		fail("summary-command", inner, fmt.Sprintf("pip:summary failed: %v", err))
	} else {
		got := so.String()
		for _, t := range tasks {
			tk, _ := manager.Get(t)
			if !strings.Contains(got, tk.IOBroadcast().String()) {
				fail("summary-command", inner, fmt.Sprintf("pip:summary printed %q, which does not contain the transcript of task %s %q", got, t, tk.IOBroadcast().String()))
			}
		}
	}
	return nil
}

const (
	tlIn  = "\n<<<<<<<<<<<<<<<<<<<<:\n"
	tlOut = "\n>>>>>>>>>>>>>>>>>>>>:\n"
	tlErr = "\n!!!!!!!!!!!!!!!!!!!!:\n"
)

// tlSegments normalises a transcript: "[in]" for an input segment (the echoed command text is the terminal's
// business), "[out:<text>]" / "[err:<text>]" for the others
func tlSegments(s string) string {
	var b strings.Builder
	for len(s) > 0 {
		kind := ""
		for k, banner := range map[string]string{"in": tlIn, "out": tlOut, "err": tlErr} {
			if strings.HasPrefix(s, banner) {
				kind = k
				s = s[len(banner):]
			}
		}
		if kind == "" {
			kind = "nobanner"
		}
		end := len(s)
		for _, banner := range []string{tlIn, tlOut, tlErr} {
			if i := strings.Index(s, banner); i >= 0 && i < end {
				end = i
			}
		}
		if kind == "in" {
			b.WriteString("[in]")
		} else {
			b.WriteString("[" + kind + ":" + s[:end] + "]")
		}
		s = s[end:]
	}
	return b.String()
}

func tlWantSegments(items []tlItem) string {
	var b strings.Builder
	open := ""
	text := ""
	flush := func() {
		if open == "in" {
			b.WriteString("[in]")
		} else if open != "" {
			b.WriteString("[" + open + ":" + text + "]")
		}
		text = ""
	}
	for _, it := range items {
		if it.B != "" {
			flush()
			open = it.B
			continue
		}
		if it.Cmd != nil {
			continue
		}
		text += tlPayload(it.I, it.K)
	}
	flush()
	return b.String()
}
