package main

import (
	"bufio"
	"bytes"
	"encoding/json"
	"flag"
	"fmt"
	"os"
	"reflect"
	"strings"

	"github.com/goatcms/goatcore/varutil/plainmap"
)

func init() { commands["plaincases"] = cmdPlainCases }

type pmNode struct {
	Leaf string          `json:"leaf"`
	Kids json.RawMessage `json:"kids"`
}

type pmFlat struct {
	Leaf string   `json:"leaf"`
	Path []string `json:"path"`
}

var nasty = "v y\n\t\"q\" \\ back / é \u0001   end"

func leafValue(l string, i int) interface{} {
	switch l {
	case "x":
		return "vx"
	case "y":
		return nasty
	case "n1":
		return []interface{}{json.Number("11"), json.Number("-0.5"), json.Number("1.5e3")}[i%3]
	}
	return []interface{}{true, nil, []interface{}{json.Number("1")}}[i%3]
}

func leafString(v interface{}) string {
	switch x := v.(type) {
	case string:
		return x
	case json.Number:
		return string(x)
	}
	return ""
}

// keyNames maps the model's keys to concrete names; in naming 1 one sibling is a string PREFIX of the other
// ("item1" / "item10"), which sorted-key writers must not confuse with a dotted-path prefix
var keyNames = []map[string]string{{"a": "a", "b": "b", "c": "c"}, {"a": "item1", "b": "item10", "c": "item"}}

func buildNested(n pmNode, i *int) (interface{}, error) {
	return buildNestedNamed(n, i, 0)
}

func buildNestedNamed(n pmNode, i *int, naming int) (interface{}, error) {
	if n.Leaf != "" {
		*i++
		return leafValue(n.Leaf, *i), nil
	}
	var kids map[string]pmNode
	if err := json.Unmarshal(n.Kids, &kids); err != nil {
		return nil, err
	}
	out := map[string]interface{}{}
	// deterministic order for the leaf counter
	for _, k := range []string{"a", "b", "c"} {
		if kid, ok := kids[k]; ok {
			v, err := buildNestedNamed(kid, i, naming)
			if err != nil {
				return nil, err
			}
			out[keyNames[naming][k]] = v
		}
	}
	return out, nil
}

func renamed(path []string, naming int) []string {
	out := make([]string, len(path))
	for i, p := range path {
		out[i] = keyNames[naming][p]
	}
	return out
}

func lookup(m map[string]interface{}, path []string) interface{} {
	var cur interface{} = m
	for _, p := range path {
		cur = cur.(map[string]interface{})[p]
	}
	return cur
}

func cmdPlainCases(args []string) error {
	fl := flag.NewFlagSet("plaincases", flag.ExitOnError)
	in := fl.String("in", "", "TLC output")
	fl.Parse(args)
	f, err := os.Open(*in)
	if err != nil {
		return err
	}
	defer f.Close()
	byKey := map[string]int{}
	examples := map[string][]map[string]string{}
	executed := 0
	var samples []string
	fail := func(key, op, what string) {
		byKey[key]++
		if len(examples[key]) < 3 {
			examples[key] = append(examples[key], map[string]string{"key": key, "op": op, "backend": "plainmap", "what": what})
		}
	}
	classText := map[string][]string{"plain": {"a", "Z", " "}, "quote": {"\""}, "bslash": {"\\"}, "ctl": {"\n", "\t", "\x01", "\r", "\x1f"},
		"hi": {"é", " ", "日", "\U0001F600"}, "slash": {"/"}}
	sc := bufio.NewScanner(f)
	sc.Buffer(make([]byte, 1<<20), 1<<24)
	for sc.Scan() {
		line := sc.Text()
		isMap := strings.Contains(line, "\\\"k\\\":\\\"pm\\\"")
		isStr := strings.Contains(line, "\\\"k\\\":\\\"ps\\\"")
		if !isMap && !isStr {
			continue
		}
		var inner string
		if err := json.Unmarshal([]byte(line), &inner); err != nil {
			return err
		}
		executed++
		if isStr {
			var c struct {
				Str []string `json:"str"`
			}
			if err := json.Unmarshal([]byte(inner), &c); err != nil {
				return err
			}
			for variant := 0; variant < 5; variant++ {
				var b strings.Builder
				for i, cl := range c.Str {
					opts := classText[cl]
					b.WriteString(opts[(variant+i)%len(opts)])
				}
				s := b.String()
				// writing: our JSON must be valid and decode (standard decoder) to the same value
				js, err := plainmap.PlainStringMapToJSON(map[string]string{"k.sub": s, "z": s})
				if err != nil {
					fail("write-error", inner, err.Error())
					continue
				}
				var std map[string]interface{}
				if err := json.Unmarshal([]byte(js), &std); err != nil {
					fail("write-invalid-json", fmt.Sprintf("%q", s), fmt.Sprintf("PlainStringMapToJSON produced %s which the standard decoder rejects: %v", js, err))
					continue
				}
				if std["z"] != s || std["k"].(map[string]interface{})["sub"] != s {
					fail("write-changed", fmt.Sprintf("%q", s), fmt.Sprintf("standard decoder reads %q from %s", std["z"], js))
				}
				// reading back with the library
				back, err := plainmap.JSONToPlainStringMap([]byte(js))
				if err != nil || back["z"] != s || back["k.sub"] != s {
					fail("roundtrip", fmt.Sprintf("%q", s), fmt.Sprintf("written %s, read back %q / %q (err %v)", js, back["z"], back["k.sub"], err))
				}
				// reading what a standard ENCODER writes (it escapes differently: <,   ...)
				stdjs, _ := json.Marshal(map[string]interface{}{"z": s, "k": map[string]string{"sub": s}})
				back2, err := plainmap.JSONToPlainStringMap(stdjs)
				if err != nil || back2["z"] != s || back2["k.sub"] != s {
					fail("read-escapes", fmt.Sprintf("%q", s), fmt.Sprintf("standard JSON %s read as %q (err %v)", stdjs, back2["z"], err))
				}
				var fjs string
				if fjs, err = plainmap.PlainStringMapToFormattedJSON(map[string]string{"z": s}); err == nil {
					var std2 map[string]interface{}
					if json.Unmarshal([]byte(fjs), &std2) != nil || std2["z"] != s {
						fail("write-formatted", fmt.Sprintf("%q", s), fjs)
					}
				}
			}
			continue
		}
		var c struct {
			Nested   pmNode   `json:"nested"`
			Flat     []pmFlat `json:"flat"`
			Readable []pmFlat `json:"readable"`
		}
		if err := json.Unmarshal([]byte(inner), &c); err != nil {
			return fmt.Errorf("parse: %v", err)
		}
		if len(samples) < 2 && len(c.Flat) >= 3 {
			samples = append(samples, inner)
		}
	namings:
		for naming := 0; naming < len(keyNames); naming++ {
			cnt := 0
			nv, err := buildNestedNamed(c.Nested, &cnt, naming)
			if err != nil {
				return err
			}
			nested := nv.(map[string]interface{})
			// (i) Flatten / Rebuild
			flat, err := plainmap.RecursiveMapToPlainMap(nested)
			if err != nil {
				fail("flatten-error", inner, err.Error())
				continue namings
			}
			if len(flat) != len(c.Flat) {
				fail("flatten", inner, fmt.Sprintf("flattened to %d keys, specification %d: %v", len(flat), len(c.Flat), flat))
				continue namings
			}
			okFlat := true
			for _, fe := range c.Flat {
				if !reflect.DeepEqual(flat[strings.Join(renamed(fe.Path, naming), ".")], lookup(nested, renamed(fe.Path, naming))) {
					okFlat = false
				}
			}
			if !okFlat {
				fail("flatten", inner, fmt.Sprintf("flattened map %v does not hold the leaves at the specification's dotted keys", flat))
				continue namings
			}
			rebuilt, err := plainmap.ToRecursiveMap(flat)
			if err != nil || !reflect.DeepEqual(rebuilt, nested) {
				fail("rebuild", inner, fmt.Sprintf("ToRecursiveMap(Flatten(m)) = %v (err %v), m = %v", rebuilt, err, nested))
				continue namings
			}
			// (ii) the JSON reader keeps string and number leaves, with the value a standard decoder yields
			js, _ := json.Marshal(nested)
			got, err := plainmap.JSONToPlainStringMap(js)
			if err != nil {
				fail("read-error", inner, err.Error())
				continue namings
			}
			dec := json.NewDecoder(bytes.NewReader(js))
			dec.UseNumber()
			var std map[string]interface{}
			dec.Decode(&std)
			if len(got) != len(c.Readable) {
				fail("read-leaves", inner, fmt.Sprintf("JSON %s read as %d keys %v, specification: %d string/number leaves", js, len(got), got, len(c.Readable)))
				continue namings
			}
			for _, fe := range c.Readable {
				want := leafString(lookup(std, renamed(fe.Path, naming)))
				if got[strings.Join(renamed(fe.Path, naming), ".")] != want {
					fail("read-value", inner, fmt.Sprintf("key %s read as %q, the standard decoder yields %q (JSON %s)", strings.Join(renamed(fe.Path, naming), "."), got[strings.Join(renamed(fe.Path, naming), ".")], want, js))
					break
				}
			}
			// (iii) flat string map -> JSON -> flat string map, and the nested form a standard decoder sees
			js2, err := plainmap.PlainStringMapToJSON(got)
			if err != nil {
				fail("write-error", inner, err.Error())
				continue namings
			}
			back, err := plainmap.JSONToPlainStringMap([]byte(js2))
			if err != nil || !reflect.DeepEqual(back, got) {
				fail("roundtrip-map", inner, fmt.Sprintf("map %v written as %s read back as %v (err %v)", got, js2, back, err))
				continue namings
			}
			sm, err := plainmap.StringMapToRecursiveMap(got)
			var std2 map[string]interface{}
			if err != nil || json.Unmarshal([]byte(js2), &std2) != nil || !reflect.DeepEqual(sm, std2) {
				fail("string-rebuild", inner, fmt.Sprintf("StringMapToRecursiveMap = %v, the standard decoder reads %v from %s", sm, std2, js2))
			}
		}
	}
	out := map[string]interface{}{"executed": executed, "failures_by_key": byKey, "examples": examples, "samples": samples}
	b, _ := json.Marshal(out)
	fmt.Println(string(b))
	return nil
}
