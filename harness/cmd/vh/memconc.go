package main

import (
	"bufio"
	"bytes"
	"encoding/json"
	"flag"
	"fmt"
	"io/ioutil"
	"math/rand"
	"os"
	"runtime"
	"strings"
	"sync"
	"time"
	wdog "verifharness/wd"

	"github.com/goatcms/goatcore/filesystem"
	"github.com/goatcms/goatcore/filesystem/filespace/memfs"
	"verifharness/fsx"
)

func init() {
	commands["memconc"] = cmdMemConc
	commands["memwitness"] = cmdMemWitness
}

func treeJSONLocal(t fsx.Tree) [][]interface{} {
	out := make([][]interface{}, 0, len(t))
	for _, n := range t {
		out = append(out, []interface{}{n.P, n.V})
	}
	return out
}

// memconc: concurrent histories on one in-memory filespace with call/ret events for Trace_MemFSLin
func cmdMemConc(args []string) error {
	fl := flag.NewFlagSet("memconc", flag.ExitOnError)
	out := fl.String("out", "", "ndjson")
	n := fl.Int("n", 100, "histories")
	seed := fl.Int64("seed", 1, "seed")
	fl.Parse(args)
	f, err := os.Create(*out)
	if err != nil {
		return err
	}
	bw := bufio.NewWriterSize(f, 1<<20)
	r := rand.New(rand.NewSource(*seed))
	var mu sync.Mutex
	emit := func(ev map[string]interface{}) {
		b, _ := json.Marshal(ev)
		bw.Write(b)
		bw.WriteByte('\n')
	}
	paths := [][]string{{"d"}, {"e"}, {"d", "x"}, {"d", "y"}, {"e", "x"}, {"top"}, {"d", "sub"}}
	procs := []int{1, 2, 4, runtime.NumCPU()}
	tok := 0
	hung := false
	for i := 0; i < *n && !hung; i++ {
		runtime.GOMAXPROCS(procs[i%len(procs)])
		fs, _ := memfs.NewFilespace()
		d := fsx.NewDict()
		// a static source for copies (never rewritten) and some initial content
		fs.WriteFile("src1", d.Bytes("x"), filesystem.DefaultUnixFileMode)
		if r.Intn(2) == 0 {
			fs.MkdirAll("d", filesystem.DefaultUnixDirMode)
		}
		if r.Intn(2) == 0 {
			fs.WriteFile("e/x", d.Bytes("y"), filesystem.DefaultUnixFileMode)
		}
		t0, _ := fsx.Project(fs, d)
		emit(map[string]interface{}{"ev": "reset", "tree": treeJSONLocal(t0)})
		g := 2 + r.Intn(5)
		ops := 2 + r.Intn(6)
		var wg sync.WaitGroup
		for t := 1; t <= g; t++ {
			lr := rand.New(rand.NewSource(r.Int63()))
			wg.Add(1)
			go func(t int, lr *rand.Rand) {
				defer wg.Done()
				for k := 0; k < ops; k++ {
					p := paths[lr.Intn(len(paths))]
					op := fsx.Op{Sp: p}
					ev := map[string]interface{}{"ev": "call", "t": t, "p": p}
					switch lr.Intn(10) {
					case 0, 1:
						op.Name = "write"
					case 2:
						op.Name = "wstream"
					case 3:
						op.Name = "read"
					case 4:
						op.Name = "mkdir"
						if len(p) == 2 && lr.Intn(2) == 0 {
							op.Sp = p[:1]
							ev["p"] = p[:1]
						}
					case 5:
						op.Name = "remove"
						if lr.Intn(2) == 0 {
							op.Sp = p[:1]
							ev["p"] = p[:1]
						}
					case 6:
						op.Name = "removeall"
					case 7:
						op.Name = "readdir"
						op.Sp = p[:1]
						ev["p"] = p[:1]
					case 8:
						op.Name = "copyfile"
						op.Sq = p
						op.Sp = []string{"src1"}
						if lr.Intn(2) == 0 {
							// a source that other goroutines write, stream-write and remove at the same time
							if src := paths[lr.Intn(len(paths))]; strings.Join(src, "/") != strings.Join(p, "/") {
								op.Sp = src
							}
						}
						ev["p"] = op.Sp
						ev["q"] = op.Sq
					default:
						op.Name = []string{"isexist", "isfile", "isdir"}[lr.Intn(3)]
					}
					if op.Name == "write" || op.Name == "wstream" {
						mu.Lock()
						tok++
						op.D = fmt.Sprintf("c%d", tok)
						d.Add(op.D, []byte(fmt.Sprintf("content-%d-%s", tok, strings.Repeat("z", lr.Intn(3000)))))
						mu.Unlock()
						ev["d"] = op.D
						op.Chunk = 700
						op.Yield = true
					}
					ev["name"] = op.Name
					mu.Lock()
					emit(ev)
					mu.Unlock()
					res := fsx.Exec(fs, op, d, nil)
					mu.Lock()
					emit(map[string]interface{}{"ev": "ret", "t": t, "name": op.Name, "res": res})
					mu.Unlock()
					if lr.Intn(3) == 0 {
						runtime.Gosched()
					}
				}
			}(t, lr)
		}
		done := make(chan struct{})
		go func() { wg.Wait(); close(done) }()
		select {
		case <-done:
		case <-wdog.After(20 * time.Second):
			buf := make([]byte, 1<<16)
			k := runtime.Stack(buf, true)
			mu.Lock()
			emit(map[string]interface{}{"ev": "hang", "goroutines": string(buf[:k])})
			mu.Unlock()
			hung = true
			continue
		}
		tf, err := fsx.Project(fs, d)
		if err != nil {
			emit(map[string]interface{}{"ev": "inconsistent", "what": err.Error()})
		} else {
			emit(map[string]interface{}{"ev": "final", "tree": treeJSONLocal(tf)})
		}
	}
	runtime.GOMAXPROCS(runtime.NumCPU())
	mu.Lock()
	bw.Flush()
	mu.Unlock()
	f.Close()
	b, _ := json.Marshal(map[string]interface{}{"histories": *n, "hung": hung})
	fmt.Println(string(b))
	return nil
}

// memwitness: the two schedules of MemFSConc.tla on the real code.
//
//	sc_sc : Reader(f) held + Writer(g)  against  Writer(f) in one directory (deadlock before the fix)
//	wf_rm : Remove(d) parked after its emptiness test, WriteFile(d/x) completes, Remove continues
//	sc_rd : Writer(d/n) on a new file (parked before it locks the node, where the code still has such a point) against ReadFile(d/n)
func cmdMemWitness(args []string) error {
	byKey := map[string]int{}
	examples := map[string][]map[string]string{}
	known := map[string]int{}
	knownEx := map[string]string{}
	executed := 0
	add := func(key, op, what string) {
		byKey[key]++
		if len(examples[key]) < 2 {
			examples[key] = append(examples[key], map[string]string{"key": key, "op": op, "backend": "memfs", "what": what})
		}
	}
	// ---- sc_sc
	for round := 0; round < 5; round++ {
		executed++
		fs, _ := memfs.NewFilespace()
		fs.WriteFile("dir/f", []byte("F"), filesystem.DefaultUnixFileMode)
		fs.WriteFile("dir/h", []byte("H"), filesystem.DefaultUnixFileMode)
		done := make(chan string, 2)
		step := make(chan struct{})
		go func() { // copy f -> g : reader on f held while asking for a writer on g
			r, err := fs.Reader("dir/f")
			if err != nil {
				done <- "reader: " + err.Error()
				return
			}
			close(step)
			time.Sleep(2 * time.Millisecond) // let the other goroutine ask for the writer on f first
			w, err := fs.Writer("dir/g")
			if err != nil {
				r.Close()
				done <- "writer g: " + err.Error()
				return
			}
			b, _ := ioutil.ReadAll(r)
			w.Write(b)
			w.Close()
			r.Close()
			done <- ""
		}()
		go func() { // copy h -> f : needs a writer on f (blocks until the reader is closed -- that is fine)
			<-step
			r, _ := fs.Reader("dir/h")
			w, err := fs.Writer("dir/f")
			if err != nil {
				r.Close()
				done <- "writer f: " + err.Error()
				return
			}
			b, _ := ioutil.ReadAll(r)
			w.Write(b)
			w.Close()
			r.Close()
			done <- ""
		}()
		finished := 0
		timeout := wdog.After(5 * time.Second)
	wait:
		for finished < 2 {
			select {
			case msg := <-done:
				finished++
				if msg != "" {
					add("witness:error", "sc_sc", msg)
				}
			case <-timeout:
				buf := make([]byte, 1<<15)
				k := runtime.Stack(buf, true)
				add("deadlock:stream-copies", "Reader(f)+Writer(g) against Writer(f) in one directory", "two stream copies did not finish within 5 s\n"+string(buf[:k]))
				break wait
			}
		}
		if finished < 2 {
			break
		}
		g, _ := fs.ReadFile("dir/g")
		ff, _ := fs.ReadFile("dir/f")
		if string(g) != "F" || string(ff) != "H" {
			add("witness:content", "sc_sc", fmt.Sprintf("g=%q f=%q", g, ff))
		}
	}
	// ---- wf_rm (D_RemoveVsCreate)
	for _, creator := range []string{"write", "mkdir"} {
		executed++
		fs, _ := memfs.NewFilespace()
		fs.MkdirAll("d", filesystem.DefaultUnixDirMode)
		parked := make(chan struct{})
		release := make(chan struct{})
		var once sync.Once
		memfs.VerifHook = func(site, path string) {
			if site == "remove.checked" {
				once.Do(func() { close(parked); <-release })
			}
		}
		rmDone := make(chan error, 1)
		go func() { rmDone <- fs.Remove("d") }()
		var werr error
		select {
		case <-parked:
		case <-wdog.After(3 * time.Second):
			memfs.VerifHook = nil
			add("infra:hook-not-reached", "wf_rm", "Remove did not reach the remove.checked hook")
			continue
		}
		created := make(chan error, 1)
		go func() {
			if creator == "write" {
				created <- fs.WriteFile("d/x", []byte("X"), filesystem.DefaultUnixFileMode)
			} else {
				created <- fs.MkdirAll("d/x", filesystem.DefaultUnixDirMode)
			}
		}()
		released := false
		select {
		case werr = <-created:
		case <-time.After(300 * time.Millisecond):
			// the creation waits for the parked Remove (an implementation may hold a lock across its emptiness test and
			// the removal -- that is no violation): let the Remove go on and see how both end
			close(release)
			released = true
			select {
			case werr = <-created:
			case <-wdog.After(5 * time.Second):
				buf := make([]byte, 1<<15)
				k := runtime.Stack(buf, true)
				add("hang", "wf_rm", creator+"(d/x) did not return within 5 s after Remove(d) was released\n"+string(buf[:k]))
				memfs.VerifHook = nil
				continue
			}
		}
		if !released {
			close(release)
		}
		var rerr error
		select {
		case rerr = <-rmDone:
		case <-wdog.After(5 * time.Second):
			add("hang", "wf_rm", "Remove did not return")
		}
		memfs.VerifHook = nil
		exists := fs.IsExist("d/x")
		what := fmt.Sprintf("Remove(d) parked after its emptiness test; %s(d/x) = %v; Remove = %v; afterwards IsExist(d/x) = %v", creator, werr, rerr, exists)
		if werr == nil && rerr == nil && !exists {
			known["D_RemoveVsCreate"]++
			knownEx["D_RemoveVsCreate"] = what
		} else if werr == nil && !exists {
			add("lost-write", "wf_rm", what)
		}
	}
	// ---- sc_rd: a stream writer creating a NEW file against ReadFile of that file
	for round := 0; round < 3; round++ {
		executed++
		fs, _ := memfs.NewFilespace()
		fs.MkdirAll("d", filesystem.DefaultUnixDirMode)
		parked := make(chan struct{})
		release := make(chan struct{})
		var once sync.Once
		memfs.VerifHook = func(site, path string) {
			if site == "writer.filelock" {
				once.Do(func() { close(parked); <-release })
			}
		}
		opened := make(chan filesystem.Writer, 1)
		go func() {
			w, err := fs.Writer("d/n")
			if err != nil {
				opened <- nil
				return
			}
			opened <- w
		}()
		type rd struct {
			data []byte
			err  error
		}
		read := func() chan rd {
			c := make(chan rd, 1)
			go func() {
				b, err := fs.ReadFile("d/n")
				c <- rd{b, err}
			}()
			return c
		}
		var w filesystem.Writer
		select {
		case <-parked: // the writer stands between making the node visible and locking it
			select {
			case r := <-read():
				if r.err == nil && string(r.data) != "FULL" {
					add("torn:new-file-visible-empty", "Writer(d/n) parked before taking the data lock of the file it created; ReadFile(d/n)",
						fmt.Sprintf("ReadFile returned %q, nil while the only writer had not written yet", r.data))
				}
			case <-time.After(150 * time.Millisecond): // blocked: fine
			}
			close(release)
			w = <-opened
		case w = <-opened:
			close(release)
		case <-wdog.After(3 * time.Second):
			add("hang", "sc_rd", "Writer did not return")
			memfs.VerifHook = nil
			continue
		}
		memfs.VerifHook = nil
		if w == nil {
			add("witness:error", "sc_rd", "Writer(d/n) failed")
			continue
		}
		// the handle is open and nothing is written yet: a read must wait for Close or fail, never return early
		c := read()
		select {
		case r := <-c:
			if r.err == nil {
				add("torn:read-during-open-writer", "Writer(d/n) open, nothing written; ReadFile(d/n)", fmt.Sprintf("ReadFile returned %q before the writer closed", r.data))
			}
			w.Write([]byte("FULL"))
			w.Close()
		case <-time.After(100 * time.Millisecond):
			w.Write([]byte("FU"))
			w.Write([]byte("LL"))
			w.Close()
			select {
			case r := <-c:
				if r.err != nil || string(r.data) != "FULL" {
					add("torn:read-after-close", "sc_rd", fmt.Sprintf("ReadFile returned %q, %v after the writer closed", r.data, r.err))
				}
			case <-wdog.After(5 * time.Second):
				add("hang", "sc_rd", "ReadFile did not return after the writer closed")
			}
		}
	}
	// ---- rm_cp_wf: Remove(p/c) parked after its emptiness test, then WriteFile(p/c/x) and Copy(p, q) started, then the
	// Remove released: whatever locks an implementation holds at that point, all three calls must return (lock order)
	for round := 0; round < 3; round++ {
		executed++
		fs, _ := memfs.NewFilespace()
		fs.MkdirAll("p/c", filesystem.DefaultUnixDirMode)
		fs.WriteFile("p/a", bytes.Repeat([]byte("A"), 1<<20), filesystem.DefaultUnixFileMode)
		parked := make(chan struct{})
		release := make(chan struct{})
		var once sync.Once
		memfs.VerifHook = func(site, path string) {
			if site == "remove.checked" {
				once.Do(func() { close(parked); <-release })
			}
		}
		done := make(chan string, 3)
		go func() { fs.Remove("p/c"); done <- "remove" }()
		select {
		case <-parked:
		case <-wdog.After(3 * time.Second):
			memfs.VerifHook = nil
			add("infra:hook-not-reached", "rm_cp_wf", "Remove did not reach the remove.checked hook")
			continue
		}
		go func() {
			fs.WriteFile("p/c/x", []byte("X"), filesystem.DefaultUnixFileMode)
			done <- "writefile"
		}()
		time.Sleep(20 * time.Millisecond)
		go func() { fs.Copy("p", fmt.Sprintf("q%d", round)); done <- "copy" }()
		time.Sleep(20 * time.Millisecond)
		close(release)
		finished := map[string]bool{}
		timeout := wdog.After(5 * time.Second)
	waitAll:
		for len(finished) < 3 {
			select {
			case who := <-done:
				finished[who] = true
			case <-timeout:
				buf := make([]byte, 1<<15)
				k := runtime.Stack(buf, true)
				add("deadlock:remove-copy-create", "Remove(p/c) between its emptiness test and the removal, WriteFile(p/c/x) and Copy(p, q) waiting, Remove released",
					fmt.Sprintf("only %v returned within 5 s\n%s", finished, buf[:k]))
				break waitAll
			}
		}
		memfs.VerifHook = nil
		if len(finished) < 3 {
			break // parked goroutines remain
		}
	}
	// ---- sw_cp: a copy (of the file, of its directory) while a stream writer holds the file open with part of
	// the new value written: the copy must wait for Close (or fail); it must never contain the partial value
	for _, how := range []string{"copyfile", "copy", "copydir-parent"} {
		executed++
		fs, _ := memfs.NewFilespace()
		fs.WriteFile("d/f", []byte("OLD-COMPLETE"), filesystem.DefaultUnixFileMode)
		w, err := fs.Writer("d/f")
		if err != nil {
			add("witness:error", "sw_cp", err.Error())
			continue
		}
		w.Write([]byte("NEW-"))
		cp := make(chan error, 1)
		go func() {
			switch how {
			case "copyfile":
				cp <- fs.CopyFile("d/f", "d/g")
			case "copy":
				cp <- fs.Copy("d/f", "d/g")
			default:
				cp <- fs.CopyDirectory("d", "e")
			}
		}()
		dest := map[string]string{"copyfile": "d/g", "copy": "d/g", "copydir-parent": "e/f"}[how]
		returnedEarly := false
		select {
		case <-cp:
			returnedEarly = true
		case <-time.After(80 * time.Millisecond):
		}
		w.Write([]byte("COMPLETE"))
		w.Close()
		if !returnedEarly {
			select {
			case <-cp:
			case <-wdog.After(5 * time.Second):
				add("hang", "sw_cp:"+how, "the copy did not return after the writer was closed")
				continue
			}
		}
		if data, err := fs.ReadFile(dest); err == nil {
			if v := string(data); v != "NEW-COMPLETE" && v != "OLD-COMPLETE" {
				add("torn:copy-of-open-writer", how+" while a stream writer has written part of the new value", fmt.Sprintf("the copy holds %q, a value nobody wrote (complete values: OLD-COMPLETE, NEW-COMPLETE)", v))
			}
		}
	}
	// ---- cd_rm: a directory copy racing with removals of the directory's children (MemCopyDir.tla): the copy must
	// hold the children of ONE instant -- all children minus the first k removed ones, each name once, right content
	rounds := 80
	for round := 0; round < rounds; round++ {
		executed++
		fs, _ := memfs.NewFilespace()
		const nchild = 40
		content := func(i int) []byte {
			b := make([]byte, 24*1024)
			for j := range b {
				b[j] = byte(i*7 + j)
			}
			return b
		}
		for i := 0; i < nchild; i++ {
			fs.WriteFile(fmt.Sprintf("sd/c%02d", i), content(i), filesystem.DefaultUnixFileMode)
		}
		// removal order: never the last child first (the shift must move something)
		order := []int{3, 0, 11, 7, 20, 1, 30, 15, 2, 25}
		start := make(chan struct{})
		var wg sync.WaitGroup
		var cerr error
		wg.Add(2)
		go func() {
			defer wg.Done()
			<-start
			if round%2 == 0 {
				cerr = fs.Copy("sd", "dst")
			} else {
				cerr = fs.CopyDirectory("sd", "dst")
			}
		}()
		go func() {
			defer wg.Done()
			<-start
			for _, i := range order {
				fs.Remove(fmt.Sprintf("sd/c%02d", i))
				if round%3 == 0 {
					runtime.Gosched()
				}
			}
		}()
		close(start)
		waitDone := make(chan struct{})
		go func() { wg.Wait(); close(waitDone) }()
		select {
		case <-waitDone:
		case <-wdog.After(10 * time.Second):
			add("hang", "cd_rm", "Copy(dir) against Remove(children) did not finish")
			continue
		}
		if cerr != nil {
			add("witness:error", "cd_rm", "Copy failed: "+cerr.Error())
			continue
		}
		infos, err := fs.ReadDir("dst")
		if err != nil {
			add("witness:error", "cd_rm", "ReadDir(dst): "+err.Error())
			continue
		}
		seen := map[string]int{}
		for _, inf := range infos {
			seen[inf.Name()]++
		}
		what := ""
		for n, c := range seen {
			if c > 1 {
				what = fmt.Sprintf("the copy lists %s %d times", n, c)
			}
		}
		if what == "" {
			// prefix property over the removal order
			k := 0
			for k < len(order) && seen[fmt.Sprintf("c%02d", order[k])] == 0 {
				k++
			}
			removedPrefix := map[int]bool{}
			for _, i := range order[:k] {
				removedPrefix[i] = true
			}
			for i := 0; i < nchild && what == ""; i++ {
				name := fmt.Sprintf("c%02d", i)
				if removedPrefix[i] {
					continue
				}
				if seen[name] == 0 {
					what = fmt.Sprintf("the copy lacks %s although children removed LATER (%v after the first %d removals) are in it", name, order[k:], k)
				} else if data, err := fs.ReadFile("dst/" + name); err != nil || !bytes.Equal(data, content(i)) {
					what = fmt.Sprintf("dst/%s does not hold the source's content (err %v, %d bytes)", name, err, len(data))
				}
			}
			if what == "" && len(infos) != nchild-k {
				what = fmt.Sprintf("the copy has %d entries, the children of one instant would be %d", len(infos), nchild-k)
			}
		}
		if what != "" {
			add("torn:copydir-snapshot", "Copy(sd, dst) racing with Remove(sd/c..) in the order "+fmt.Sprint(order), what)
		}
	}
	out := map[string]interface{}{"executed": executed, "failures_by_key": byKey, "examples": examples, "known": known, "known_examples": knownEx}
	b, _ := json.Marshal(out)
	fmt.Println(string(b))
	return nil
}
