package main

import (
	"bufio"
	"encoding/json"
	"flag"
	"fmt"
	"os"
	"sort"
	"strings"

	"github.com/goatcms/goatcore/app/scope"
	"github.com/goatcms/goatcore/app/scope/scopedefer"
	"github.com/goatcms/goatcore/filesystem/filespace/memfs"
	"github.com/goatcms/goatcore/filesystem/fsstandalone"
)

func init() {
	commands["sdcases"] = cmdSDCases
}

// sdcases: every complete history of ScopeDefer.tla on a real scope, an in-memory filespace and standalone files:
// RemoveOn registers, "vanish" removes a file behind the scope's back, Trigger fires the event.  After every call
// the set of files left must be the model's, and Trigger must fail exactly when the model says so.
func cmdSDCases(args []string) error {
	fl := flag.NewFlagSet("sdcases", flag.ExitOnError)
	in := fl.String("in", "", "TLC output")
	fl.Parse(args)
	f, err := os.Open(*in)
	if err != nil {
		return err
	}
	defer f.Close()
	byKey := map[string]int{}
	examples := map[string][]map[string]string{}
	executed := 0
	seen := map[string]bool{}
	var samples []string
	fail := func(key, op, what string) {
		byKey[key]++
		if len(examples[key]) < 3 {
			examples[key] = append(examples[key], map[string]string{"key": key, "op": op, "backend": "scopedefer", "what": what})
		}
	}
	sc := bufio.NewScanner(f)
	sc.Buffer(make([]byte, 1<<20), 1<<24)
	for sc.Scan() {
		line := sc.Text()
		if !strings.Contains(line, "\\\"k\\\":\\\"sd\\\"") {
			continue
		}
		var inner string
		if err := json.Unmarshal([]byte(line), &inner); err != nil {
			return err
		}
		if seen[inner] {
			continue
		}
		seen[inner] = true
		var c struct {
			Files []string `json:"files"`
			Hist  []struct {
				Op   string   `json:"op"`
				E    int      `json:"e"`
				F    string   `json:"f"`
				Err  bool     `json:"err"`
				Left []string `json:"left"`
			} `json:"hist"`
		}
		if err := json.Unmarshal([]byte(inner), &c); err != nil {
			return fmt.Errorf("parse %s: %v", inner, err)
		}
		executed++
		if len(samples) < 2 {
			samples = append(samples, inner)
		}
		fs, err := memfs.NewFilespace()
		if err != nil {
			return err
		}
		for _, n := range c.Files {
			if err := fs.WriteFile("dir/"+n, []byte(n), 0644); err != nil {
				return err
			}
		}
		// an unrelated file must never be touched
		if err := fs.WriteFile("dir/keep", []byte("k"), 0644); err != nil {
			return err
		}
		scp := scope.New(scope.Params{})
		for i, h := range c.Hist {
			var gotErr bool
			switch h.Op {
			case "removeon":
				file, err := fsstandalone.NewStandaloneFile(fs, "dir/"+h.F, "text/plain")
				if err != nil {
					return err
				}
				if err := scopedefer.RemoveOn(scp, 7000+h.E, file); err != nil {
					gotErr = true
				}
			case "vanish":
				if err := fs.Remove("dir/" + h.F); err != nil {
					return fmt.Errorf("harness: cannot remove %s: %v", h.F, err)
				}
			case "trigger":
				if err := scp.Trigger(7000+h.E, nil); err != nil {
					gotErr = true
				}
			}
			var left []string
			for _, n := range c.Files {
				if fs.IsFile("dir/" + n) {
					left = append(left, n)
				}
			}
			want := append([]string(nil), h.Left...)
			sort.Strings(want)
			sort.Strings(left)
			if strings.Join(left, ",") != strings.Join(want, ",") {
				fail("files-left:"+h.Op, inner, fmt.Sprintf("after call %d (%s event %d file %q) the files left are %v, specification %v", i+1, h.Op, h.E, h.F, left, want))
				break
			}
			if gotErr != h.Err {
				fail("result:"+h.Op, inner, fmt.Sprintf("call %d (%s event %d file %q): failed=%v, specification failed=%v", i+1, h.Op, h.E, h.F, gotErr, h.Err))
				break
			}
			if !fs.IsFile("dir/keep") {
				fail("unrelated-file", inner, fmt.Sprintf("after call %d (%s) the unrelated file is gone", i+1, h.Op))
				break
			}
		}
	}
	out := map[string]interface{}{"executed": executed, "failures_by_key": byKey, "examples": examples, "samples": samples}
	bb, _ := json.Marshal(out)
	fmt.Println(string(bb))
	return nil
}
