package main

import (
	"bufio"
	"bytes"
	"encoding/json"
	"flag"
	"fmt"
	"io"
	"math/rand"
	"os"
	"runtime"
	"strings"
	"sync"
	"time"
	wdog "verifharness/wd"

	"github.com/goatcms/goatcore/app/terminal/termexec"
	"verifharness/pipx"
)

func init() { commands["piptrace"] = cmdPipTrace }

// piptrace: random task graphs submitted through the real runner; probe begin/end events,
// manager wait, final task states -- for Trace_Pipeline
func cmdPipTrace(args []string) error {
	fl := flag.NewFlagSet("piptrace", flag.ExitOnError)
	out := fl.String("out", "", "ndjson")
	n := fl.Int("n", 30, "graphs")
	seed := fl.Int64("seed", 1, "seed")
	fl.Parse(args)
	f, err := os.Create(*out)
	if err != nil {
		return err
	}
	bw := bufio.NewWriterSize(f, 1<<20)
	r := rand.New(rand.NewSource(*seed))
	hung := false
	for g := 0; g < *n && !hung; g++ {
		wd, err := pipx.NewWorld(bw, "", nil)
		if err != nil {
			return err
		}
		wd.Log.Emit(map[string]interface{}{"ev": "reset"})
		mgr, err := wd.TasksUnit.FromScope(wd.App.Scopes().App())
		if err != nil {
			return err
		}
		nt := 1 + r.Intn(8)
		var specs []*pipx.TaskSpec
		var accepted []string
		used := map[string]bool{}
		for i := 0; i < nt; i++ {
			t := &pipx.TaskSpec{Name: fmt.Sprintf("t%d", i)}
			if g%2 == 1 {
				// namespaces: few short names, so that tasks in different namespaces carry EQUAL short names
				for {
					t.NS = []string{"", "x", "y", "x:in"}[r.Intn(4)]
					t.Short = []string{"build", "test", "deploy"}[r.Intn(3)]
					t.Name = t.Short
					if t.NS != "" {
						t.Name = t.NS + ":" + t.Short
					}
					if !used[t.Name] {
						break
					}
				}
			}
			used[t.Name] = true
			for _, prev := range accepted {
				if r.Intn(3) == 0 {
					t.Wait = append(t.Wait, prev)
					if r.Intn(6) == 0 {
						t.Wait = append(t.Wait, prev) // a name may be listed twice
					}
				}
			}
			if r.Intn(8) == 0 {
				t.Wait = append(t.Wait, "ghost") // unknown name: must be rejected
			}
			if r.Intn(12) == 0 {
				t.Wait = append(t.Wait, t.Name) // waits for itself: must be rejected
			}
			for c := 0; c < 1+r.Intn(3); c++ {
				id := fmt.Sprintf("%s_c%d", strings.Replace(t.Name, ":", "-", -1), c)
				t.Cmds = append(t.Cmds, id)
				var delay time.Duration
				if r.Intn(2) == 0 {
					delay = time.Duration(r.Intn(400)) * time.Microsecond
				}
				wd.SetProbe(id, r.Intn(7) == 0, delay)
			}
			specs = append(specs, t)
			if wd.Submit(t) == nil {
				accepted = append(accepted, t.Name)
			}
			if r.Intn(3) == 0 {
				runtime.Gosched()
			}
		}
		done := make(chan error, 1)
		go func() { done <- mgr.Wait() }()
		select {
		case err := <-done:
			wd.Log.Emit(map[string]interface{}{"ev": "mwait", "err": err != nil})
		case <-wdog.After(15 * time.Second):
			buf := make([]byte, 1<<16)
			k := runtime.Stack(buf, true)
			wd.Log.Emit(map[string]interface{}{"ev": "hang", "what": "TasksManager.Wait did not return within 15 s", "goroutines": string(buf[:k])})
			hung = true
			continue
		}
		names := mgr.Names()
		if names == nil {
			names = []string{}
		}
		wd.Log.Emit(map[string]interface{}{"ev": "names", "names": names})
		for _, name := range names {
			if t, ok := mgr.Get(name); ok {
				wd.Log.Emit(map[string]interface{}{"ev": "task", "name": name, "failed": len(t.Errors()) > 0, "status": t.Status()})
			}
		}
		wd.CloseScopes(specs)
	}
	bw.Flush()
	f.Close()
	b, _ := json.Marshal(map[string]interface{}{"graphs": *n, "hung": hung})
	fmt.Println(string(b))
	return nil
}

func init() { commands["pipwitness"] = cmdPipWitness }

// pipwitness: D_WaitForAncestor -- a task submitted from INSIDE a body through the runner API
// that names its enclosing task in its wait list is accepted and never finishes.
func cmdPipWitness(args []string) error {
	wd, err := pipx.NewWorld(os.Stdout, "", nil)
	if err != nil {
		return err
	}
	res := pipx.RunAncestorWitness(wd)
	b, _ := json.Marshal(res)
	fmt.Println(string(b))
	return nil
}

func init() { commands["pipnest"] = cmdPipNest }

// nestedScript: a pip:run whose body runs a probe and submits a pip:run whose body ... (depth levels)
func nestedScript(depth int, prefix string) string {
	tag := func(i int) string { return "END" + string(rune('A'+i/26)) + string(rune('A'+i%26)) + "X" }
	body := fmt.Sprintf("probe --id=%s%d\n", prefix, depth-1)
	for level := depth - 2; level >= 0; level-- {
		body = fmt.Sprintf("probe --id=%s%d\npip:run --name=n --body=<<%s\n%s%s\n", prefix, level, tag(level+1), body, tag(level+1))
	}
	return "pip:run --name=" + prefix + " --body=<<" + tag(0) + "\n" + body + tag(0) + "\n"
}

// pipnest: "every accepted submission eventually finishes", for submissions made from INSIDE bodies: (a) a
// pipeline nested `depth` levels deep (every body submits the next one), for depths below and well above the
// number of CPUs; (b) `width` pipelines that run at the same time, each of which submits one nested pipeline.
// All probes must run and the application scope's wait must return (watchdog).
func cmdPipNest(args []string) error {
	fl := flag.NewFlagSet("pipnest", flag.ExitOnError)
	fl.Parse(args)
	byKey := map[string]int{}
	examples := map[string][]map[string]string{}
	fail := func(key, op, what string) {
		byKey[key]++
		if len(examples[key]) < 3 {
			examples[key] = append(examples[key], map[string]string{"key": key, "op": op, "backend": "pipeline", "what": what})
		}
	}
	executed := 0
	run := func(name, script string, probes int) {
		executed++
		buf := &lockedWriter{}
		wd, err := pipx.NewWorld(buf, script, nil)
		if err != nil {
			fail("infra", name, err.Error())
			return
		}
		done := make(chan error, 1)
		go func() {
			if err := wd.Boot.Run(); err != nil {
				done <- err
				return
			}
			done <- wd.App.Scopes().App().Wait()
		}()
		ended := func() int { return strings.Count(buf.String(), `"ev":"end"`) }
		select {
		case err := <-done:
			if err != nil {
				fail("nested-error", name, fmt.Sprintf("the run ended with an error although no command fails: %v", err))
			} else if n := ended(); n != probes {
				fail("nested-skipped", name, fmt.Sprintf("%d of %d bodies ran although everything was accepted and nothing failed", n, probes))
			}
		case <-wdog.After(15 * time.Second):
			fail("nested-never-finishes", name, fmt.Sprintf("the accepted pipelines did not finish within 15 s: %d of %d bodies have run", ended(), probes))
		}
	}
	ncpu := runtime.NumCPU()
	for _, depth := range []int{2, 5, ncpu + 2, 2*ncpu + 3} {
		run(fmt.Sprintf("nesting depth %d", depth), nestedScript(depth, "d"), depth)
	}
	for _, width := range []int{3, ncpu + 2, 2*ncpu + 3} {
		var sc strings.Builder
		for i := 0; i < width; i++ {
			sc.WriteString(nestedScript(2, fmt.Sprintf("w%dx", i)))
		}
		run(fmt.Sprintf("%d pipelines side by side, each submitting one", width), sc.String(), 2*width)
	}
	out := map[string]interface{}{"executed": executed, "failures_by_key": byKey, "examples": examples, "samples": []string{}}
	b, _ := json.Marshal(out)
	fmt.Println(string(b))
	return nil
}

type lockedWriter struct {
	mu sync.Mutex
	b  bytes.Buffer
}

func (l *lockedWriter) Write(p []byte) (int, error) {
	l.mu.Lock()
	defer l.mu.Unlock()
	return l.b.Write(p)
}

func (l *lockedWriter) String() string {
	l.mu.Lock()
	defer l.mu.Unlock()
	return l.b.String()
}

func init() { commands["argentry"] = cmdArgEntry }

// onlyReader hides every optional interface of a reader (ReadByte, WriteTo ...)
type onlyReader struct{ r io.Reader }

func (o onlyReader) Read(p []byte) (int, error) { return o.r.Read(p) }

// argentry: C17's "reading stops exactly at the command's newline so the next call returns the next command",
// through the terminal's entry point that reads ONE command from a caller's reader
// (termexec.RunCommandFromReader): scripts of two or three commands (plain, quoted, with a heredoc argument) are
// handed over as a reader WITHOUT ReadByte that delivers everything it has at once, as a reader that delivers byte by
// byte, and as a strings.Reader; every command must run, in order, with its own arguments, and then eof is reported.
func cmdArgEntry(args []string) error {
	fl := flag.NewFlagSet("argentry", flag.ExitOnError)
	fl.Parse(args)
	byKey := map[string]int{}
	examples := map[string][]map[string]string{}
	fail := func(key, op, what string) {
		byKey[key]++
		if len(examples[key]) < 3 {
			examples[key] = append(examples[key], map[string]string{"key": key, "op": op, "backend": "termexec", "what": what})
		}
	}
	scripts := [][]string{
		{"probe --id=a1", "probe --id=b1"},
		{"probe --id=a2 --x=\"two words\"", "probe --id=b2", "probe --id=c2"},
		{"probe --id=a3 --body=<<EOT\nline one\nprobe --id=NOT-A-COMMAND\nEOT", "probe --id=b3"},
		{"probe   --id=a4   tail", "", "probe --id=b4"},
		{"probe --id=a5 " + strings.Repeat("pad ", 1200), "probe --id=b5"}, // the first command alone is longer than a 4096-byte buffer
	}
	executed := 0
	for si, cmds := range scripts {
		text := strings.Join(cmds, "\n") + "\n"
		var want []string
		for _, c := range cmds {
			if i := strings.Index(c, "--id="); i >= 0 && strings.HasPrefix(c, "probe") {
				id := c[i+5:]
				if j := strings.IndexAny(id, " \n"); j >= 0 {
					id = id[:j]
				}
				want = append(want, id)
			}
		}
		for _, kind := range []string{"plain", "bytewise", "strings"} {
			executed++
			buf := &lockedWriter{}
			wd, err := pipx.NewWorld(buf, "", nil)
			if err != nil {
				return err
			}
			var rd io.Reader
			switch kind {
			case "plain":
				rd = onlyReader{strings.NewReader(text)}
			case "bytewise":
				rd = onlyReader{iotest1{strings.NewReader(text)}}
			default:
				rd = strings.NewReader(text)
			}
			rctx := termexec.NewRunCtx(termexec.RunCtxParams{Application: wd.App, Ctx: wd.App.IOContext(), Commands: wd.App.Terminal()})
			desc := fmt.Sprintf("script %d (%d commands) through a %s reader", si, len(want), kind)
			for call := 0; call < len(cmds)+3; call++ {
				var eof bool
				var rerr error
				func() {
					defer func() {
						if r := recover(); r != nil {
							rerr = fmt.Errorf("panic: %v", r)
						}
					}()
					eof, rerr = termexec.RunCommandFromReader(rctx, rd)
				}()
				if eof {
					break
				}
				_ = rerr // an empty line is "Expected a command": the caller's business
			}
			var got []string
			for _, l := range strings.Split(buf.String(), "\n") {
				var ev struct {
					Ev string `json:"ev"`
					ID string `json:"id"`
				}
				if json.Unmarshal([]byte(l), &ev) == nil && ev.Ev == "begin" {
					got = append(got, ev.ID)
				}
			}
			if strings.Join(got, ",") != strings.Join(want, ",") {
				fail("entry-point:next-command", desc, fmt.Sprintf("%s: commands run %v, the script holds %v", desc, got, want))
			}
		}
	}
	out := map[string]interface{}{"executed": executed, "failures_by_key": byKey, "examples": examples, "samples": []string{}}
	b, _ := json.Marshal(out)
	fmt.Println(string(b))
	return nil
}

// iotest1 delivers one byte per Read
type iotest1 struct{ r io.Reader }

func (o iotest1) Read(p []byte) (int, error) {
	if len(p) == 0 {
		return 0, nil
	}
	return o.r.Read(p[:1])
}

func init() { commands["trylocks"] = cmdTryLocks }

// trylocks: a try block whose body and handlers start tasks that take the SAME named resource (pip:run --wlock /
// --rlock).  A task gives its resources back when it ends -- also when one of its commands fails -- so the handlers
// can take them: "finally always, fail iff the body failed, success iff it did not", and the run ends (watchdog).
func cmdTryLocks(args []string) error {
	fl := flag.NewFlagSet("trylocks", flag.ExitOnError)
	fl.Parse(args)
	byKey := map[string]int{}
	examples := map[string][]map[string]string{}
	fail := func(key, op, what string) {
		byKey[key]++
		if len(examples[key]) < 3 {
			examples[key] = append(examples[key], map[string]string{"key": key, "op": op, "backend": "pip:try", "what": what})
		}
	}
	executed := 0
	for _, bodyFails := range []bool{true, false} {
		for _, lock := range []string{"wlock", "rlock"} {
			executed++
			script := "pip:try --name=t --silent=false --body=<<B\npip:run --name=n --" + lock + "=res --silent=false --body=\"probe --id=n1\"\nB --success=<<S\npip:run --name=hs --wlock=res --silent=false --body=\"probe --id=s1\"\nS --fail=<<F\npip:run --name=hf --wlock=res --silent=false --body=\"probe --id=f1\"\nF --finally=<<G\npip:run --name=hg --" + lock + "=res --silent=false --body=\"probe --id=y1\"\nG\n"
			buf := &lockedWriter{}
			wd, err := pipx.NewWorld(buf, script, nil)
			if err != nil {
				return err
			}
			wd.SetProbe("n1", bodyFails, 0)
			done := make(chan struct{})
			go func() {
				wd.Boot.Run()
				wd.App.Scopes().App().Wait()
				close(done)
			}()
			desc := fmt.Sprintf("body task (--%s=res) fails=%v; handlers lock the same resource", lock, bodyFails)
			select {
			case <-done:
			case <-wdog.After(15 * time.Second):
			}
			ended := map[string]bool{}
			for _, l := range strings.Split(buf.String(), "\n") {
				var ev struct {
					Ev string `json:"ev"`
					ID string `json:"id"`
				}
				if json.Unmarshal([]byte(l), &ev) == nil && ev.Ev == "end" {
					ended[ev.ID] = true
				}
			}
			want := map[string]bool{"n1": true, "y1": true, "f1": bodyFails, "s1": !bodyFails}
			for id, w := range want {
				if ended[id] != w {
					fail("try-with-locks", desc, fmt.Sprintf("%s: command %s ran=%v, specification %v (commands that ran: %v)", desc, id, ended[id], w, ended))
					break
				}
			}
		}
	}
	out := map[string]interface{}{"executed": executed, "failures_by_key": byKey, "examples": examples, "samples": []string{}}
	b, _ := json.Marshal(out)
	fmt.Println(string(b))
	return nil
}
