package main

import (
	"bufio"
	"encoding/json"
	"flag"
	"fmt"
	"os"
	"reflect"
	"strings"

	"github.com/goatcms/goatcore/app"
	"github.com/goatcms/goatcore/app/dependency"
	"github.com/goatcms/goatcore/app/injector"
	"github.com/goatcms/goatcore/app/scope/datascope"
)

// injectStruct builds a struct type with one *instance field per edge (tag dep:"X" / dep:"?X") and a string
// field for the extra map injector (tag m:"k"), injects into a fresh value and returns the fields.
func injectStruct(dp app.DependencyProvider, fields []diEdge) ([]*instance, [4]string, error) {
	var sf []reflect.StructField
	for i, f := range fields {
		tag := f.T
		if f.Opt {
			tag = "?" + tag
		}
		sf = append(sf, reflect.StructField{Name: fmt.Sprintf("F%d", i), Type: reflect.TypeOf((*instance)(nil)), Tag: reflect.StructTag(fmt.Sprintf(`dep:"%s"`, tag))})
	}
	// the extra injectors' fields: a map injector (tag m: required k, optional ko) and a data-scope injector
	// (tag d: required dk, optional dko), in this order
	sf = append(sf, reflect.StructField{Name: "M", Type: reflect.TypeOf(""), Tag: `m:"k"`},
		reflect.StructField{Name: "MO", Type: reflect.TypeOf(""), Tag: `m:"?ko"`},
		reflect.StructField{Name: "D", Type: reflect.TypeOf(""), Tag: `d:"dk"`},
		reflect.StructField{Name: "DO", Type: reflect.TypeOf(""), Tag: `d:"?dko"`})
	v := reflect.New(reflect.StructOf(sf))
	err := dp.InjectTo(v.Interface())
	out := make([]*instance, len(fields))
	for i := range fields {
		out[i], _ = v.Elem().Field(i).Interface().(*instance)
	}
	var extra [4]string
	for j := 0; j < 4; j++ {
		extra[j] = v.Elem().Field(len(fields) + j).String()
	}
	return out, extra, err
}

func init() { commands["dicases"] = cmdDICases }

type diEdge struct {
	T   string `json:"t"`
	Opt bool   `json:"opt"`
}

type diCall struct {
	Call  string          `json:"call"`
	N     string          `json:"n"`
	Res   string          `json:"res"`
	Tag   string          `json:"tag"`
	Calls map[string]int  `json:"-"`
	RawC  json.RawMessage `json:"calls"`
	// struct injection: the fields in order and what the Get of each processed field gave
	Fields []diEdge `json:"fields"`
	Got    []struct {
		Res string `json:"res"`
		Tag string `json:"tag"`
	} `json:"got"`
}

type diCase struct {
	Deps []struct {
		N string   `json:"n"`
		D []diEdge `json:"d"`
	} `json:"deps"`
	Fails []string `json:"fails"`
	Hist  []diCall `json:"hist"`
}

type instance struct {
	Tag  string
	Name string
	Seq  int
}

// fields for InjectTo: one required and one optional field per name
type injA struct {
	F *instance `dep:"A"`
}
type injAopt struct {
	F *instance `dep:"?A"`
}
type injB struct {
	F *instance `dep:"B"`
}
type injBopt struct {
	F *instance `dep:"?B"`
}
type injC struct {
	F *instance `dep:"C"`
}
type injCopt struct {
	F *instance `dep:"?C"`
}

func injectGet(dp app.DependencyProvider, name string, optional bool) (*instance, error) {
	switch {
	case name == "A" && !optional:
		o := &injA{}
		err := dp.InjectTo(o)
		return o.F, err
	case name == "A":
		o := &injAopt{}
		err := dp.InjectTo(o)
		return o.F, err
	case name == "B" && !optional:
		o := &injB{}
		err := dp.InjectTo(o)
		return o.F, err
	case name == "B":
		o := &injBopt{}
		err := dp.InjectTo(o)
		return o.F, err
	case name == "C" && !optional:
		o := &injC{}
		err := dp.InjectTo(o)
		return o.F, err
	case name == "C":
		o := &injCopt{}
		err := dp.InjectTo(o)
		return o.F, err
	default:
		// any other name (the long chains): a one-field struct built by reflection
		tag := name
		if optional {
			tag = "?" + tag
		}
		v := reflect.New(reflect.StructOf([]reflect.StructField{{Name: "F", Type: reflect.TypeOf((*instance)(nil)), Tag: reflect.StructTag(fmt.Sprintf(`dep:"%s"`, tag))}}))
		err := dp.InjectTo(v.Interface())
		ins, _ := v.Elem().Field(0).Interface().(*instance)
		return ins, err
	}
}

// dicases: replay the API histories printed by DI.tla on a real Provider with generated factories
func cmdDICases(args []string) error {
	fl := flag.NewFlagSet("dicases", flag.ExitOnError)
	in := fl.String("in", "", "TLC output")
	fl.Parse(args)
	f, err := os.Open(*in)
	if err != nil {
		return err
	}
	defer f.Close()
	byKey := map[string]int{}
	examples := map[string][]map[string]string{}
	executed := 0
	var samples []string
	fail := func(key, inner, what string) {
		byKey[key]++
		if len(examples[key]) < 3 {
			examples[key] = append(examples[key], map[string]string{"key": key, "op": inner, "backend": "provider", "what": what})
		}
	}
	sc := bufio.NewScanner(f)
	sc.Buffer(make([]byte, 1<<20), 1<<24)
	for sc.Scan() {
		line := sc.Text()
		if !strings.Contains(line, "\\\"k\\\":\\\"di\\\"") {
			continue
		}
		var inner string
		if err := json.Unmarshal([]byte(line), &inner); err != nil {
			return err
		}
		var c diCase
		if err := json.Unmarshal([]byte(inner), &c); err != nil {
			return fmt.Errorf("parse %v: %s", err, inner[:200])
		}
		executed++
		if len(samples) < 3 && len(c.Hist) >= 4 {
			samples = append(samples, inner)
		}
		deps := map[string][]diEdge{}
		for _, d := range c.Deps {
			deps[d.N] = d.D
		}
		fails := map[string]bool{}
		for _, n := range c.Fails {
			fails[n] = true
		}
		calls := map[string]int{}
		seq := 0
		mkFactory := func(name, tag string) app.Factory {
			return func(dp app.DependencyProvider) (interface{}, error) {
				calls[name]++
				if calls[name] > 25 {
					// NoRecursion of the model: a factory is entered at most once per request chain
					panic(fmt.Sprintf("runaway recursion: the factory of %s has been entered %d times", name, calls[name]))
				}
				for _, e := range deps[name] {
					_, err := dp.Get(e.T)
					if err != nil && !e.Opt {
						return nil, fmt.Errorf("factory %s: required %s failed: %v", name, e.T, err)
					}
				}
				if fails[name] {
					return nil, fmt.Errorf("factory %s fails", name)
				}
				seq++
				return &instance{Tag: tag, Name: name, Seq: seq}, nil
			}
		}
		hasInject := false
		for _, h := range c.Hist {
			if h.Call == "inject" {
				hasInject = true
			}
		}
		// the extra injectors' keys: bit 0 = the map injector's required key, bit 1 = both optional keys,
		// bit 2 = the data-scope injector's required key
		variants := []int{7}
		if hasInject {
			variants = []int{7, 6, 5, 3, 1, 0}
		}
		for _, variant := range variants {
			mapHas, optHas, dsHas := variant&1 != 0, variant&2 != 0, variant&4 != 0
			for n := range calls {
				delete(calls, n)
			}
			seq = 0
			dp := dependency.NewProvider("dep")
			mdata := map[string]interface{}{}
			if mapHas {
				mdata["k"] = "v"
			}
			ddata := map[interface{}]interface{}{}
			if optHas {
				mdata["ko"] = "vo"
				ddata["dko"] = "dvo"
			}
			if dsHas {
				ddata["dk"] = "dv"
			}
			dp.AddInjectors([]app.Injector{injector.NewMultiInjector([]app.Injector{injector.NewMapInjector("m", mdata), datascope.NewInjector("d", datascope.New(ddata))})})
			got := map[string]*instance{} // first instance handed out per name
			ok := true
			for i, h := range c.Hist {
				var mc map[string]int
				// calls is printed as a record (object) or, for 1..n domains, not applicable here
				json.Unmarshal(h.RawC, &mc)
				var err error
				var ins *instance
				func() {
					defer func() {
						if r := recover(); r != nil {
							err = fmt.Errorf("panic: %v", r)
							fail("panic:"+h.Call, inner, fmt.Sprint(r))
							ok = false
						}
					}()
					switch h.Call {
					case "set":
						err = dp.Set(h.N, &instance{Tag: "set", Name: h.N})
					case "setdefault":
						err = dp.SetDefault(h.N, &instance{Tag: "def", Name: h.N})
					case "addfactory":
						err = dp.AddFactory(h.N, mkFactory(h.N, "fac"))
					case "adddefaultfactory":
						err = dp.AddDefaultFactory(h.N, mkFactory(h.N, "dfac"))
					case "inject":
						var vals []*instance
						var extra [4]string
						vals, extra, err = injectStruct(dp, h.Fields)
						// the model's verdict is about the dependency fields; the extra injector then decides
						fieldsOk := h.Res == "ok"
						wantErr := !fieldsOk || !mapHas || !dsHas
						if (err != nil) != wantErr {
							fail("inject-result", inner, fmt.Sprintf("step %d InjectTo(%v) returned %v (extra injectors: map key %v, optional keys %v, data-scope key %v), specification: fields %s", i, h.Fields, err, mapHas, optHas, dsHas, h.Res))
							ok = false
							return
						}
						// extra injectors run after the fields, in their order; each stops at its first missing required key
						yes := func(b bool, v string) string {
							if b {
								return v
							}
							return ""
						}
						wantExtra := [4]string{yes(fieldsOk && mapHas, "v"), yes(fieldsOk && mapHas && optHas, "vo"),
							yes(fieldsOk && mapHas && dsHas, "dv"), yes(fieldsOk && mapHas && dsHas && optHas, "dvo")}
						if extra != wantExtra {
							fail("inject-extra", inner, fmt.Sprintf("step %d the extra injectors' fields [m:k m:?ko d:dk d:?dko] are %q, specification %q (fields %s; map key %v, optional keys %v, data-scope key %v)", i, extra, wantExtra, h.Res, mapHas, optHas, dsHas))
							ok = false
							return
						}
						for j := range h.Fields {
							var want *struct{ Res, Tag string }
							if j < len(h.Got) {
								want = &struct{ Res, Tag string }{h.Got[j].Res, h.Got[j].Tag}
							}
							switch {
							case want == nil || want.Res != "ok":
								if vals[j] != nil {
									fail("inject-field", inner, fmt.Sprintf("step %d field %d (%v) was set to %+v although its resolution %s", i, j, h.Fields[j], vals[j], map[bool]string{true: "never happened", false: "failed"}[want == nil]))
									ok = false
								}
							case !fieldsOk && vals[j] == nil:
								// the request as a whole failed: the statement fixes what a request YIELDS, not what a failed
								// InjectTo leaves in the object -- a field resolved before the failure may be stored or not
							default:
								if vals[j] == nil || vals[j].Tag != want.Tag || vals[j].Name != h.Fields[j].T {
									fail("inject-field", inner, fmt.Sprintf("step %d field %d (%v) holds %+v, specification: instance from %q", i, j, h.Fields[j], vals[j], want.Tag))
									ok = false
								} else if prev, seen := got[h.Fields[j].T]; seen && prev != vals[j] {
									fail("not-singleton", inner, fmt.Sprintf("step %d field %d (%v) holds a different instance than an earlier request", i, j, h.Fields[j]))
									ok = false
								} else {
									got[h.Fields[j].T] = vals[j]
								}
							}
						}
						err = nil
						if !fieldsOk {
							err = fmt.Errorf("fields aborted")
						}
					case "get":
						switch i % 3 {
						case 0:
							var v interface{}
							v, err = dp.Get(h.N)
							if err == nil {
								ins, _ = v.(*instance)
							}
						case 1:
							ins, err = injectGet(dp, h.N, false)
						default:
							ins, err = injectGet(dp, h.N, true) // optional field: never an error, field set iff resolvable
							if err != nil {
								fail("optional-inject-error", inner, fmt.Sprintf("step %d: InjectTo with an optional field returned %v", i, err))
								ok = false
							} else if ins == nil {
								err = fmt.Errorf("unresolved")
							}
						}
					}
				}()
				if !ok {
					break
				}
				res := "ok"
				if err != nil {
					res = "err"
				}
				if res != h.Res {
					fail("result:"+h.Call, inner, fmt.Sprintf("step %d %s(%s) = %s (%v), specification: %s", i, h.Call, h.N, res, err, h.Res))
					break
				}
				if h.Call == "get" && res == "ok" {
					if ins == nil || ins.Tag != h.Tag || ins.Name != h.N {
						fail("precedence", inner, fmt.Sprintf("step %d get(%s) returned %+v, specification: instance from %q", i, h.N, ins, h.Tag))
						break
					}
					if prev, seen := got[h.N]; seen && prev != ins {
						fail("not-singleton", inner, fmt.Sprintf("step %d get(%s) returned a different instance than before", i, h.N))
						break
					}
					got[h.N] = ins
				}
				same := true
				for n, k := range mc {
					if calls[n] != k {
						same = false
					}
				}
				if !same {
					fail("factory-invocations:"+h.Call, inner, fmt.Sprintf("step %d after %s(%s): factories were entered %v times, specification %v", i, h.Call, h.N, calls, mc))
					break
				}
			}
		}
	}
	out := map[string]interface{}{"executed": executed, "failures_by_key": byKey, "examples": examples, "samples": samples}
	b, _ := json.Marshal(out)
	fmt.Println(string(b))
	return nil
}
