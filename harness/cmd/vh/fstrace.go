package main

import (
	"bufio"
	"encoding/json"
	"flag"
	"fmt"
	"math/rand"
	"os"
	"strings"

	"verifharness/fsx"
)

func init() { commands["fstrace"] = cmdFsTrace }

// fstrace: record random histories of real filespaces as ndjson for Trace_MemFS.
func cmdFsTrace(args []string) error {
	fl := flag.NewFlagSet("fstrace", flag.ExitOnError)
	out := fl.String("out", "", "ndjson output")
	n := fl.Int("n", 50, "histories")
	steps := fl.Int("steps", 60, "steps per history")
	backends := fl.String("backends", "mem,memview", "backends to rotate through")
	tmp := fl.String("tmp", "", "scratch dir")
	seed := fl.Int64("seed", 1, "seed")
	names := fl.Int("names", 6, "size of the name pool")
	depth := fl.Int("depth", 4, "max depth")
	climb := fl.Bool("climb", true, "include climbing spellings")
	diskpre := fl.Bool("diskpre", false, "C02 mode")
	fl.Parse(args)
	f, err := os.Create(*out)
	if err != nil {
		return err
	}
	bw := bufio.NewWriterSize(f, 1<<20)
	tw := fsx.NewTraceWriter(bw)
	r := rand.New(rand.NewSource(*seed))
	d := fsx.NewDict()
	pool := []string{"a", "b", "c", "d", "e", "f", "g", "h", "i", "j", "k", "l"}[:*names]
	kinds := strings.Split(*backends, ",")
	tok := 0
	for i := 0; i < *n; i++ {
		cfg := &fsx.HistoryConfig{Names: pool, MaxDepth: *depth, Steps: *steps, Backend: kinds[i%len(kinds)], Tmp: *tmp, Climb: *climb, DiskPre: *diskpre}
		// every fifth history is a WIDE one: a directory of 9..12 children that is drained again
		if i%5 == 4 {
			cfg.Wide = true
			cfg.Names = []string{"a", "b", "c", "d", "e", "f", "g", "h", "i", "j", "k", "l"}
			if cfg.Steps < 40 {
				cfg.Steps = 40
			}
		}
		if err := fsx.RunHistory(r, cfg, d, tw, &tok); err != nil {
			return err
		}
	}
	bw.Flush()
	f.Close()
	b, _ := json.Marshal(map[string]interface{}{"histories": *n, "events": tw.Events})
	fmt.Println(string(b))
	return nil
}
