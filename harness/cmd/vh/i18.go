package main

import (
	"encoding/json"
	"flag"
	"fmt"
	"math/rand"
	"runtime"
	"strings"

	"github.com/goatcms/goatcore/filesystem"
	"github.com/goatcms/goatcore/filesystem/filespace/memfs"
	"github.com/goatcms/goatcore/i18n/fsi18loader"
	"github.com/goatcms/goatcore/i18n/i18mem"
	"verifharness/loopx"
)

func init() { commands["i18load"] = cmdI18Load }

// i18load: directory layouts of translation files; every key of every *.json file must be
// translatable to its value after Load, free-running and under the forced fsloop schedule.
func cmdI18Load(args []string) error {
	fl := flag.NewFlagSet("i18load", flag.ExitOnError)
	n := fl.Int("n", 60, "layouts")
	seed := fl.Int64("seed", 1, "seed")
	fl.Parse(args)
	r := rand.New(rand.NewSource(*seed))
	byKey := map[string]int{}
	examples := map[string][]map[string]string{}
	executed := 0
	var samples []interface{}
	add := func(key, op, what string) {
		byKey[key]++
		if len(examples[key]) < 3 {
			examples[key] = append(examples[key], map[string]string{"key": key, "op": op, "backend": "fsi18loader", "what": what})
		}
	}
	values := []string{"plain", "with \"quotes\"", "line\nbreak", "back\\slash", "ünï cödé 日本", "tab\there", "slash/ and 'single'"}
	for i := 0; i < *n; i++ {
		executed++
		fs, _ := memfs.NewFilespace()
		want := map[string]string{}
		nfiles := r.Intn(7)
		if i%7 == 0 {
			nfiles = 30 + r.Intn(40)
		}
		if i%5 == 2 && nfiles < 6 {
			nfiles = 6 + r.Intn(10)
		}
		var layout []string
		for f := 0; f < nfiles; f++ {
			// "every directory layout": names that begin with a dot are names like any other
			dir := []string{"", "en/", "en/sub/", "pl/", "a/b/c/", ".local/", "en/..data/", "en.d/"}[r.Intn(8)]
			obj := map[string]interface{}{}
			inner := map[string]interface{}{}
			nkeys := 1 + r.Intn(3)
			if i%5 == 2 {
				nkeys = []int{63, 64, 65, 130, 300}[r.Intn(5)] // large files: a store that treats big batches differently
			}
			for k := 0; k < nkeys; k++ {
				key := fmt.Sprintf("f%d_k%d", f, k)
				v := values[r.Intn(len(values))]
				if k%2 == 0 {
					obj[key] = v
					want[key] = v
				} else {
					inner[key] = v
					want["group."+key] = v
				}
			}
			if len(inner) > 0 {
				obj["group"] = inner
			}
			b, _ := json.Marshal(obj)
			name := fmt.Sprintf("%stranslations%d.json", dir, f)
			if f%6 == 5 {
				name = fmt.Sprintf("%s.t%d.json", dir, f)
			}
			fs.WriteFile("lang/"+name, b, filesystem.DefaultUnixFileMode)
			layout = append(layout, name)
		}
		// files the filter must skip
		fs.WriteFile("lang/readme.txt", []byte("not json"), filesystem.DefaultUnixFileMode)
		fs.WriteFile("lang/en/broken.json.bak", []byte("{"), filesystem.DefaultUnixFileMode)
		fs.MkdirAll("lang/empty", filesystem.DefaultUnixDirMode)
		i18 := i18mem.NewI18Mem()
		var err error
		forced := i%2 == 1
		desc := fmt.Sprintf("%d files %v forced=%v", nfiles, layout, forced)
		if forced {
			gate := loopx.NewGatedFS(fs)
			parked, announced := loopx.WithForcedSchedule(runtime.NumCPU(), gate, func() { err = fsi18loader.Load(gate, "lang/", i18, nil) })
			if !announced {
				add("infra:script-not-forced", desc, fmt.Sprintf("parked=%d announced=%v", parked, announced))
				continue
			}
		} else {
			err = fsi18loader.Load(fs, "lang/", i18, nil)
		}
		if len(samples) < 2 {
			samples = append(samples, map[string]interface{}{"layout": layout, "forced": forced, "keys": len(want)})
		}
		if err != nil {
			add("load-error", desc, err.Error())
			continue
		}
		for k, v := range want {
			got, terr := i18.Translate(k)
			if terr != nil {
				add("key-missing", desc, fmt.Sprintf("key %q of a loaded file is not translatable: %v", k, terr))
				break
			}
			if got != v && !strings.Contains(v, "%") {
				add("value-changed", desc, fmt.Sprintf("key %q translates to %q, the file says %q", k, got, v))
				break
			}
		}
	}
	out := map[string]interface{}{"executed": executed, "failures_by_key": byKey, "examples": examples, "samples": samples}
	b, _ := json.Marshal(out)
	fmt.Println(string(b))
	return nil
}
