package main

import (
	"bufio"
	"encoding/json"
	"flag"
	"fmt"
	"math/rand"
	"os"
	"strings"

	"github.com/goatcms/goatcore/filesystem"
	"verifharness/viewsx"
)

func init() { commands["viewtrace"] = cmdViewTrace }

// viewtrace: random view stacks and spellings well beyond the exhaustive
// bound; for each one a unique token is written through the top of the stack
// and the place where it landed in the root (or nothing) is recorded, for
// validation against Views.tla (Trace_Views).
func cmdViewTrace(args []string) error {
	fl := flag.NewFlagSet("viewtrace", flag.ExitOnError)
	out := fl.String("out", "", "ndjson output")
	n := fl.Int("n", 300, "events")
	tmp := fl.String("tmp", "", "scratch")
	seed := fl.Int64("seed", 1, "seed")
	maxStack := fl.Int("maxstack", 5, "max layers above the root")
	maxSp := fl.Int("maxsp", 8, "max spelling length")
	fl.Parse(args)
	f, err := os.Create(*out)
	if err != nil {
		return err
	}
	bw := bufio.NewWriter(f)
	r := rand.New(rand.NewSource(*seed))
	segs := []string{"a", "f", "v", "x", ".", "..", "", "..", "a", "v"}
	emitted := 0
	for emitted < *n {
		root := []string{"mem", "disk"}[r.Intn(2)]
		if r.Intn(4) != 0 {
			root = "mem"
		}
		stack := []viewsx.Layer{{K: root}}
		depth := 1 + r.Intn(*maxStack)
		for i := 0; i < depth; i++ {
			below := stack[len(stack)-1].K
			var opts []viewsx.Layer
			if below == "mem" || below == "memwrap" {
				opts = append(opts, viewsx.Layer{K: "memwrap", Base: []string{"v"}})
			}
			if below == "disk" || below == "disksub" {
				opts = append(opts, viewsx.Layer{K: "disksub", Base: []string{"v"}})
			}
			opts = append(opts, viewsx.Layer{K: "subfs", Base: []string{"v"}})
			for _, k := range []string{"crypt", "cache"} {
				if below != k {
					opts = append(opts, viewsx.Layer{K: k})
				}
			}
			stack = append(stack, opts[r.Intn(len(opts))])
		}
		nb := 0
		for _, l := range stack {
			nb += len(l.Base)
		}
		if nb > 3 {
			continue // the populated tree has three levels of "v"
		}
		sp := make([]string, r.Intn(*maxSp+1))
		for i := range sp {
			sp[i] = segs[r.Intn(len(segs))]
		}
		w, err := viewsx.Build(stack, *tmp)
		if err != nil {
			return err
		}
		before, err := w.Snapshot()
		if err != nil {
			w.Close()
			return err
		}
		token := fmt.Sprintf("TOKEN-%d", emitted)
		panicked := ""
		func() {
			defer func() {
				if rec := recover(); rec != nil {
					panicked = fmt.Sprint(rec)
				}
			}()
			w.Top.WriteFile(strings.Join(sp, "/"), []byte(token), filesystem.DefaultUnixFileMode)
		}()
		w.Commit()
		after, err := w.Snapshot()
		if err != nil {
			w.Close()
			return err
		}
		var base []string
		hasCrypt := false
		for _, l := range stack {
			base = append(base, l.Base...)
			hasCrypt = hasCrypt || l.K == "crypt"
		}
		landed := []string{"<err>"}
		for p, v := range after {
			if bv, ok := before[p]; (!ok || bv != v) && v != "D" && (v == token || hasCrypt) {
				landed = strings.Split(p, "/")
			}
		}
		ev := map[string]interface{}{"ev": "write", "stack": stack, "sp": sp, "landed": landed,
			"escaped": viewsx.OutsideDiff(before, after, base) != "", "panicked": panicked != ""}
		if len(sp) == 0 {
			ev["sp"] = []string{}
		}
		b, _ := json.Marshal(ev)
		bw.Write(b)
		bw.WriteByte('\n')
		emitted++
		w.Close()
	}
	bw.Flush()
	f.Close()
	b, _ := json.Marshal(map[string]interface{}{"events": emitted})
	fmt.Println(string(b))
	return nil
}
