package main

import (
	"bufio"
	"encoding/json"
	"flag"
	"fmt"
	"io"
	"os"
	"sort"
	"strings"

	"github.com/goatcms/goatcore/app"
	"github.com/goatcms/goatcore/app/gio"
	"github.com/goatcms/goatcore/app/gio/bufferio"
)

func init() { commands["inpcases"] = cmdInpCases }

// chunkReader delivers a byte stream in prepared chunks (one chunk per Read, cut further if p is short)
type chunkReader struct {
	chunks [][]byte
	reads  int
}

func (c *chunkReader) Read(p []byte) (int, error) {
	c.reads++
	if c.reads > 10000 {
		panic("verif: reader polled 10000 times")
	}
	for len(c.chunks) > 0 && len(c.chunks[0]) == 0 {
		c.chunks = c.chunks[1:]
	}
	if len(c.chunks) == 0 {
		return 0, io.EOF
	}
	n := copy(p, c.chunks[0])
	c.chunks[0] = c.chunks[0][n:]
	return n, nil
}

func cutAt(stream string, cuts []int) [][]byte {
	var out [][]byte
	prev := 1
	sort.Ints(cuts)
	for _, c := range cuts {
		if c-1 > len(stream) {
			c = len(stream) + 1
		}
		if c > prev {
			out = append(out, []byte(stream[prev-1:c-1]))
			prev = c
		}
	}
	return out
}

type inpStep struct {
	Op  string   `json:"op"`
	Res []string `json:"res"`
	EOF bool     `json:"eof"`
}

// inpcases: every case of Input.tla (token stream, chunking, call sequence, expected results) on a real gio.Input
// over a reader that delivers exactly the model's chunks -- and, ChunkFree, over three more chunkings of the same
// stream (all at once, byte by byte, two bytes at a time); buffer sizes 16 (the minimum) and 64.
func cmdInpCases(args []string) error {
	fl := flag.NewFlagSet("inpcases", flag.ExitOnError)
	in := fl.String("in", "", "TLC output")
	fl.Parse(args)
	f, err := os.Open(*in)
	if err != nil {
		return err
	}
	defer f.Close()
	byKey := map[string]int{}
	examples := map[string][]map[string]string{}
	executed, runs := 0, 0
	var samples []string
	fail := func(k, op, what string) {
		byKey[k]++
		if len(examples[k]) < 3 {
			examples[k] = append(examples[k], map[string]string{"key": k, "op": op, "backend": "gio.Input", "what": what})
		}
	}
	sc := bufio.NewScanner(f)
	sc.Buffer(make([]byte, 1<<20), 1<<24)
	for sc.Scan() {
		line := sc.Text()
		if !strings.Contains(line, "\\\"k\\\":\\\"inp\\\"") {
			continue
		}
		var inner string
		if err := json.Unmarshal([]byte(line), &inner); err != nil {
			return err
		}
		var c struct {
			Stream []string  `json:"stream"`
			Chunks []int     `json:"chunks"`
			Hist   []inpStep `json:"hist"`
		}
		if err := json.Unmarshal([]byte(inner), &c); err != nil {
			return fmt.Errorf("parse %s: %v", inner, err)
		}
		executed++
		stream := strings.Join(c.Stream, "")
		if len(samples) < 2 && len(stream) > 16 {
			samples = append(samples, inner)
		}
		// the longest run a single call has to hold in the buffer: a line (or the white space before a word)
		longest := 0
		for _, part := range strings.FieldsFunc(stream, func(r rune) bool { return r == '\n' || r == '\r' }) {
			if len(part) > longest {
				longest = len(part)
			}
		}
		chunkings := map[string][][]byte{"model": cutAt(stream, c.Chunks), "whole": {[]byte(stream)}}
		var one, two [][]byte
		for i := 0; i < len(stream); i++ {
			one = append(one, []byte{stream[i]})
		}
		for i := 0; i < len(stream); i += 2 {
			e := i + 2
			if e > len(stream) {
				e = len(stream)
			}
			two = append(two, []byte(stream[i:e]))
		}
		chunkings["bytewise"], chunkings["pairs"] = one, two
		for _, size := range []int{16, 64} {
			if longest >= size-1 {
				continue // a run longer than the buffer is refused by design (errBufforFull)
			}
			for _, cname := range []string{"model", "whole", "bytewise", "pairs"} {
				src := chunkings[cname]
				cp := make([][]byte, len(src))
				for i := range src {
					cp[i] = append([]byte{}, src[i]...)
				}
				runs++
				var inp app.Input = gio.NewInputSize(&chunkReader{chunks: cp}, size)
				// Tee (Input.tla): every second run reads through a bufferio.BufferInput, which must return what its
				// parent returns and keep exactly that in its buffer
				var tee *bufferio.Buffer
				if (executed+runs)%2 == 0 {
					tee = bufferio.NewBuffer()
					inp = bufferio.NewBufferInput(inp, tee)
				}
				delivered := ""
				for i, st := range c.Hist {
					var got string
					var gerr error
					var pan interface{}
					func() {
						defer func() { pan = recover() }()
						switch st.Op {
						case "word":
							got, gerr = inp.ReadWord()
						case "line":
							got, gerr = inp.ReadLine()
						default:
							b := make([]byte, 1)
							var n int
							n, gerr = inp.Read(b)
							got = string(b[:n])
							if n == 1 && gerr == io.EOF {
								gerr = nil // (1, EOF) is a legal way to deliver the last byte
							}
						}
					}()
					want := strings.Join(st.Res, "")
					ctxs := fmt.Sprintf("stream %q, chunking %s %q, buffer %d, calls %s, call %d (%s)", stream, cname, chunksOf(src), size, opsOf(c.Hist), i, st.Op)
					if pan != nil {
						fail("panic:"+st.Op, inner, fmt.Sprintf("%s panicked: %v", ctxs, pan))
						break
					}
					// a word / line that ends at the end of the stream may be reported with EOF now or with nil now and
					// EOF on the next call: both say the same; what must agree is the text, and that an EMPTY result at the
					// end of the stream carries EOF
					if got != want {
						key := "result:" + st.Op
						if cname != "whole" {
							key = "chunk-dependent:" + st.Op
						}
						fail(key, inner, fmt.Sprintf("%s returned %q (err %v), specification %q (EOF %v)", ctxs, got, gerr, want, st.EOF))
						break
					}
					if gerr != nil && gerr != io.EOF {
						fail("error:"+st.Op, inner, fmt.Sprintf("%s returned error %v", ctxs, gerr))
						break
					}
					if (gerr == io.EOF) != st.EOF {
						fail("eof:"+st.Op, inner, fmt.Sprintf("%s returned %q with err %v, specification EOF=%v", ctxs, got, gerr, st.EOF))
						break
					}
					delivered += got
					if tee != nil && tee.String() != delivered {
						fail("tee:"+st.Op, inner, fmt.Sprintf("%s through a BufferInput: the buffer holds %q, the calls returned %q", ctxs, tee.String(), delivered))
						break
					}
				}
			}
		}
	}
	out := map[string]interface{}{"executed": executed, "calls": runs, "failures_by_key": byKey, "examples": examples, "samples": samples}
	b, _ := json.Marshal(out)
	fmt.Println(string(b))
	return nil
}

func chunksOf(c [][]byte) string {
	var parts []string
	for _, x := range c {
		parts = append(parts, string(x))
	}
	return strings.Join(parts, "|")
}

func opsOf(h []inpStep) string {
	var parts []string
	for _, x := range h {
		parts = append(parts, x.Op)
	}
	return strings.Join(parts, ",")
}
