package main

import (
	"bufio"
	"encoding/json"
	"flag"
	"fmt"
	"os"
	"strings"
	"sync"
	"sync/atomic"

	"verifharness/fsx"
)

func init() { commands["fscases"] = cmdFsCases }

// fscases: replay TLC-emitted conformance cases (one per model transition)
// on real filespaces.
func cmdFsCases(args []string) error {
	fl := flag.NewFlagSet("fscases", flag.ExitOnError)
	in := fl.String("in", "", "TLC output file with case lines")
	backends := fl.String("backends", "mem", "comma separated backend kinds")
	tmp := fl.String("tmp", "", "scratch dir for disk backends")
	every := fl.Int("every", 1, "take every n-th case")
	offset := fl.Int("offset", 0, "offset for sampling")
	skipPre := fl.Bool("diskpre", false, "C02 mode: outside the preconditions only clean failure is required; cases outside the check's assumption are skipped")
	workers := fl.Int("workers", 8, "parallel workers")
	fl.Parse(args)
	f, err := os.Open(*in)
	if err != nil {
		return err
	}
	defer f.Close()
	kinds := strings.Split(*backends, ",")
	var mu sync.Mutex
	byKey := map[string]int{}
	examples := map[string][]*fsx.Failure{}
	total, executed, skipped, cleanRuns := 0, 0, 0, 0
	opsSeen := map[string]int{}
	var samples []string
	current := sync.Map{}
	pool := fsx.NewPool(*workers, func(_ string, dump string) {
		mu.Lock()
		defer mu.Unlock()
		byKey["hang"]++
		var running []string
		current.Range(func(k, v interface{}) bool { running = append(running, v.(string)); return true })
		if len(examples["hang"]) < 2 {
			examples["hang"] = append(examples["hang"], &fsx.Failure{Key: "hang", What: "a call did not return within the watchdog; running cases: " + strings.Join(running, " ; ") + "\n" + dump})
		}
	})
	dicts := sync.Pool{New: func() interface{} { return fsx.NewDict() }}
	var caseNo int64
	run := func(line string) {
		d := dicts.Get().(*fsx.Dict)
		defer dicts.Put(d)
		c, err := fsx.ParseCase(line)
		if err != nil {
			mu.Lock()
			byKey["infra:parse"]++
			mu.Unlock()
			return
		}
		// every second case runs with the model's names instantiated as string-prefix-related names
		n := atomic.AddInt64(&caseNo, 1)
		if n%2 == 0 {
			c = c.Renamed(fsx.PrefixNames)
		}
		// every fifth case spells its paths with a long neutral prefix
		if n%5 == 0 {
			c = c.Inflated()
		}
		for _, k := range kinds {
			if *skipPre && !c.Assumed {
				mu.Lock()
				skipped++
				mu.Unlock()
				continue
			}
			id := k + " " + c.Op.String() + " on " + c.Prev.Key()
			current.Store(id, id)
			var fl *fsx.Failure
			if *skipPre && !c.Pre {
				fl = fsx.RunCaseClean(c, k, *tmp, d)
				mu.Lock()
				cleanRuns++
				mu.Unlock()
			} else {
				fl = fsx.RunCase(c, k, *tmp, d)
			}
			current.Delete(id)
			mu.Lock()
			executed++
			opsSeen[c.Op.Name]++
			if len(samples) < 3 && len(c.Prev) > 1 {
				samples = append(samples, c.Raw)
			}
			if fl != nil {
				byKey[fl.Key]++
				if len(examples[fl.Key]) < 3 {
					examples[fl.Key] = append(examples[fl.Key], fl)
				}
			}
			mu.Unlock()
		}
	}
	sc := bufio.NewScanner(f)
	sc.Buffer(make([]byte, 1<<20), 1<<26)
	for sc.Scan() {
		line := sc.Text()
		if !strings.HasPrefix(line, "\"{\\\"k\\\":\\\"case\\\"") && !strings.Contains(line, "\\\"k\\\":\\\"case\\\"") {
			continue
		}
		if total%*every == *offset%*every {
			l := line
			pool.Jobs <- func() { run(l) }
		}
		total++
	}
	pool.Close()
	out := map[string]interface{}{
		"cases_total": total, "clean_runs": cleanRuns, "hangs": pool.Hangs(), "executed": executed, "skipped_pre": skipped,
		"failures_by_key": byKey, "examples": examples, "ops": opsSeen, "samples": samples,
	}
	b, _ := json.Marshal(out)
	fmt.Println(string(b))
	return nil
}
