package main

import (
	"bufio"
	"encoding/json"
	"flag"
	"fmt"
	"math/rand"
	"os"
	"runtime"
	"sort"
	"strings"
	"sync"
	"time"
	wdog "verifharness/wd"

	"github.com/goatcms/goatcore/app/modules/commonm/commservices"
	"github.com/goatcms/goatcore/app/modules/commonm/commservices/mutex"
	"verifharness/pipx"
)

func init() {
	commands["lockscript"] = cmdLockScript
	commands["locktrace"] = cmdLockTrace
}

type lockEnt struct {
	Name  string `json:"name"`
	Write bool   `json:"write"`
}

func mapJSON(m commservices.LockMap) []lockEnt {
	var out []lockEnt
	for n, w := range m {
		out = append(out, lockEnt{n, w})
	}
	sort.Slice(out, func(i, j int) bool { return out[i].Name < out[j].Name })
	return out
}

// lockscript: (a) the deadlock schedule of the unsorted variant: every holder is held
// after its FIRST acquisition until all holders have made (or are blocked in) theirs;
// (b) independence: a compatible holder must get inside while another stays inside.
func cmdLockScript(args []string) error {
	fl := flag.NewFlagSet("lockscript", flag.ExitOnError)
	rounds := fl.Int("rounds", 24, "repetitions of the deadlock schedule (map order is random)")
	fl.Parse(args)
	byKey := map[string]int{}
	examples := map[string][]map[string]string{}
	executed := 0
	var samples []interface{}
	add := func(key, op, what string) {
		byKey[key]++
		if len(examples[key]) < 3 {
			examples[key] = append(examples[key], map[string]string{"key": key, "op": op, "backend": "sharedmutex", "what": what})
		}
	}
	maps := [][]commservices.LockMap{
		{{"x": true, "y": true}, {"x": true, "y": true}},
		{{"a": true, "b": true, "c": true}, {"c": true, "b": true, "a": true}, {"b": true, "a": false}},
		{{"x": false, "y": true}, {"y": false, "x": true}},
		{{"p": true, "q": true, "r": true, "s": true}, {"s": true, "r": true, "q": true, "p": true}},
	}
	for r := 0; r < *rounds; r++ {
		for mi, hs := range maps {
			executed++
			sm := mutex.NewSharedMutex()
			var mu sync.Mutex
			release := make(chan struct{})
			var once sync.Once
			done := make(chan int, len(hs))
			// after N = len(hs) "lock.got" events in total, every holder that could acquire a first name has one
			total := 0
			mutex.VerifHook = func(site, name string, write bool) {
				if site != "lock.got" {
					return
				}
				mu.Lock()
				total++
				if total >= len(hs) {
					once.Do(func() { close(release) })
				}
				mu.Unlock()
				select {
				case <-release:
				case <-time.After(100 * time.Millisecond): // holders blocked on their first name never report: do not wait for them
					once.Do(func() { close(release) })
				}
			}
			for i, m := range hs {
				go func(i int, m commservices.LockMap) {
					h := sm.Lock(m)
					time.Sleep(50 * time.Microsecond)
					h.Unlock()
					done <- i
				}(i, m)
			}
			finished := 0
			timeout := wdog.After(5 * time.Second)
		wait:
			for finished < len(hs) {
				select {
				case <-done:
					finished++
				case <-timeout:
					break wait
				}
			}
			mutex.VerifHook = nil
			desc := fmt.Sprintf("maps %d %v round %d", mi, hs, r)
			if len(samples) < 2 {
				samples = append(samples, map[string]interface{}{"script": desc, "finished": finished})
			}
			if finished < len(hs) {
				buf := make([]byte, 1<<15)
				n := runtime.Stack(buf, true)
				add("deadlock", desc, fmt.Sprintf("only %d of %d holders got their turn within 5 s\n%s", finished, len(hs), buf[:n]))
				return finish(executed, byKey, examples, samples) // parked goroutines remain; stop here
			}
		}
	}
	// ---- independence
	pairs := [][2]commservices.LockMap{
		{{"x": true}, {"y": true}},
		{{"x": false}, {"x": false}},
		{{"x": true, "y": false}, {"y": false, "z": true}},
	}
	for pi, pr := range pairs {
		executed++
		sm := mutex.NewSharedMutex()
		a := sm.Lock(pr[0])
		in := make(chan struct{})
		go func() {
			b := sm.Lock(pr[1])
			close(in)
			b.Unlock()
		}()
		select {
		case <-in:
		case <-wdog.After(5 * time.Second):
			add("serialised", fmt.Sprintf("pair %d %v", pi, pr), "a holder with a compatible lock map did not get inside within 5 s while the other stayed inside")
		}
		a.Unlock()
	}
	// ---- independence while a third party is blocked: H1 is inside; H2 asks for a map that conflicts with H1 and
	// waits; H3, compatible with everything that is HELD, must get inside although H2 is still waiting
	triples := [][3]commservices.LockMap{
		{{"x": true}, {"x": true, "y": true}, {"y": true, "z": true}},
		{{"x": true}, {"x": true, "y": true}, {"p": true, "q": true}},
		{{"m": false, "x": true}, {"a": true, "x": false}, {"m": false, "p": true, "q": false}},
	}
	for ti, tr := range triples {
		executed++
		sm := mutex.NewSharedMutex()
		h1 := sm.Lock(tr[0])
		waiting := make(chan struct{})
		var once sync.Once
		mutex.VerifHook = func(site, name string, write bool) {
			if site == "lock.next" && name == "x" {
				once.Do(func() { close(waiting) })
			}
		}
		h2in := make(chan struct{})
		go func() {
			b := sm.Lock(tr[1])
			close(h2in)
			b.Unlock()
		}()
		select {
		case <-waiting:
			time.Sleep(3 * time.Millisecond) // H2 is now parked on x (or about to be)
		case <-wdog.After(2 * time.Second):
			mutex.VerifHook = nil
			add("infra:hook-not-reached", fmt.Sprintf("triple %d", ti), "H2 never reached lock.next for x")
			h1.Unlock()
			continue
		}
		mutex.VerifHook = nil
		h3in := make(chan struct{})
		go func() {
			c := sm.Lock(tr[2])
			close(h3in)
			c.Unlock()
		}()
		select {
		case <-h3in:
		case <-wdog.After(5 * time.Second):
			add("serialised", fmt.Sprintf("triple %d %v", ti, tr), "a holder compatible with everything held did not get inside within 5 s while another request was waiting for a busy name")
		}
		h1.Unlock()
		select {
		case <-h2in:
		case <-wdog.After(5 * time.Second):
			add("deadlock", fmt.Sprintf("triple %d %v", ti, tr), "the waiting holder never got its turn after the first one left")
			return finish(executed, byKey, examples, samples)
		}
	}
	// ---- LARGE lock maps and large name populations (the model's names are abstract: nothing may depend on how
	// many there are or on what they are called): (a) one holder with several hundred names gets them all;
	// (b) holders whose maps are DISJOINT never wait for each other, however many names they hold;
	// (c) two holders sharing one name out of many still exclude each other on it and both finish.
	mutex.VerifHook = nil
	for round := 0; round < 6; round++ {
		executed++
		sm := mutex.NewSharedMutex()
		mk := func(prefix string, n int, write func(i int) bool) commservices.LockMap {
			m := commservices.LockMap{}
			for i := 0; i < n; i++ {
				m[fmt.Sprintf("%s-%d-%d", prefix, round, i)] = write(i)
			}
			return m
		}
		n := []int{40, 120, 300, 300, 600, 1000}[round]
		a := mk("alpha", n, func(i int) bool { return i%3 != 0 })
		b := mk("beta", n, func(i int) bool { return i%2 == 0 })
		got := make(chan commservices.UnlockHandler, 1)
		go func() { got <- sm.Lock(a) }()
		var ha commservices.UnlockHandler
		select {
		case ha = <-got:
		case <-wdog.After(5 * time.Second):
			add("deadlock", fmt.Sprintf("one holder, %d names", n), fmt.Sprintf("a single request for %d distinct names (nobody else holds anything) did not return within 5 s", n))
			continue
		}
		gotB := make(chan commservices.UnlockHandler, 1)
		go func() { gotB <- sm.Lock(b) }()
		select {
		case hb := <-gotB:
			hb.Unlock()
		case <-wdog.After(5 * time.Second):
			add("serialised", fmt.Sprintf("two disjoint maps of %d names", n), fmt.Sprintf("a request for %d names none of which is held did not get inside within 5 s while another holder held %d OTHER names", n, n))
			ha.Unlock()
			continue
		}
		// (c) one shared name, written by both
		shared := fmt.Sprintf("alpha-%d-%d", round, n/2)
		c := mk("gamma", n, func(i int) bool { return true })
		c[shared] = true
		gotC := make(chan commservices.UnlockHandler, 1)
		go func() { gotC <- sm.Lock(c) }()
		select {
		case hc := <-gotC:
			add("exclusion", fmt.Sprintf("shared name among %d", n), "two holders were inside with the same name, one of them writing")
			hc.Unlock()
			ha.Unlock()
		case <-time.After(150 * time.Millisecond): // blocked on the shared name: as it must be
			ha.Unlock()
			select {
			case hc := <-gotC:
				hc.Unlock()
			case <-wdog.After(5 * time.Second):
				add("deadlock", fmt.Sprintf("shared name among %d", n), "the waiting holder never got its turn after the first one left")
			}
		}
	}
	return finish(executed, byKey, examples, samples)
}

func finish(executed int, byKey map[string]int, examples map[string][]map[string]string, samples []interface{}) error {
	out := map[string]interface{}{"executed": executed, "failures_by_key": byKey, "examples": examples, "samples": samples}
	b, _ := json.Marshal(out)
	fmt.Println(string(b))
	return nil
}

// locktrace: free-running holders with random lock maps; want / inside / leaving events
func cmdLockTrace(args []string) error {
	fl := flag.NewFlagSet("locktrace", flag.ExitOnError)
	out := fl.String("out", "", "ndjson")
	n := fl.Int("n", 50, "rounds")
	seed := fl.Int64("seed", 1, "seed")
	fl.Parse(args)
	f, err := os.Create(*out)
	if err != nil {
		return err
	}
	bw := bufio.NewWriterSize(f, 1<<20)
	r := rand.New(rand.NewSource(*seed))
	var mu sync.Mutex
	emit := func(ev map[string]interface{}) {
		b, _ := json.Marshal(ev)
		bw.Write(b)
		bw.WriteByte('\n')
	}
	names := []string{"a", "b", "c", "d", "e", "f"}
	hung := false
	for i := 0; i < *n && !hung; i++ {
		sm := mutex.NewSharedMutex()
		holders := 4 + r.Intn(13)
		emit(map[string]interface{}{"ev": "reset", "holders": holders})
		var wg sync.WaitGroup
		for h := 0; h < holders; h++ {
			m := commservices.LockMap{}
			for k := 0; k < 1+r.Intn(4); k++ {
				m[names[r.Intn(len(names))]] = r.Intn(2) == 0
			}
			hold := time.Duration(r.Intn(200)) * time.Microsecond
			wg.Add(1)
			go func(h int, m commservices.LockMap) {
				defer wg.Done()
				mu.Lock()
				emit(map[string]interface{}{"ev": "want", "h": h, "map": mapJSON(m)})
				mu.Unlock()
				u := sm.Lock(m)
				mu.Lock()
				emit(map[string]interface{}{"ev": "inside", "h": h})
				mu.Unlock()
				time.Sleep(hold)
				mu.Lock()
				emit(map[string]interface{}{"ev": "leaving", "h": h})
				mu.Unlock()
				u.Unlock()
			}(h, m)
		}
		done := make(chan struct{})
		go func() { wg.Wait(); close(done) }()
		select {
		case <-done:
		case <-wdog.After(20 * time.Second):
			mu.Lock()
			emit(map[string]interface{}{"ev": "hang"})
			mu.Unlock()
			hung = true
		}
	}
	mu.Lock()
	bw.Flush()
	mu.Unlock()
	f.Close()
	b, _ := json.Marshal(map[string]interface{}{"rounds": *n, "hung": hung})
	fmt.Println(string(b))
	return nil
}

func init() { commands["locklists"] = cmdLockLists }

// locklists: every pair of --rlock / --wlock lists of LockLists.tla given to a real `pip:run` (one application per
// case, through its terminal); the locks the runner takes around the body (observed at the lock.got hook of the
// shared mutex) must be exactly the specified ones: each name once, ascending, for writing iff it is in the write list.
func cmdLockLists(args []string) error {
	fl := flag.NewFlagSet("locklists", flag.ExitOnError)
	in := fl.String("in", "", "TLC output")
	fl.Parse(args)
	f, err := os.Open(*in)
	if err != nil {
		return err
	}
	defer f.Close()
	byKey := map[string]int{}
	examples := map[string][]map[string]string{}
	executed := 0
	var samples []interface{}
	add := func(k, op, what string) {
		byKey[k]++
		if len(examples[k]) < 3 {
			examples[k] = append(examples[k], map[string]string{"key": k, "op": op, "backend": "pip:run", "what": what})
		}
	}
	sc := bufio.NewScanner(f)
	sc.Buffer(make([]byte, 1<<20), 1<<24)
	for sc.Scan() {
		line := sc.Text()
		if !strings.Contains(line, "\\\"k\\\":\\\"locklist\\\"") {
			continue
		}
		var inner string
		if err := json.Unmarshal([]byte(line), &inner); err != nil {
			return err
		}
		var c struct {
			RL       []string `json:"rl"`
			WL       []string `json:"wl"`
			Expected []struct {
				Name string `json:"name"`
				Mode string `json:"mode"`
			} `json:"expected"`
		}
		if err := json.Unmarshal([]byte(inner), &c); err != nil {
			return fmt.Errorf("parse %s: %v", inner, err)
		}
		executed++
		script := "pip:run --name=t --silent=false"
		if len(c.RL) > 0 {
			script += " --rlock=" + strings.Join(c.RL, ",")
		}
		if len(c.WL) > 0 {
			script += " --wlock=" + strings.Join(c.WL, ",")
		}
		script += " --body=\"probe --id=p1\"\n"
		var log strings.Builder
		wd, err := pipx.NewWorld(&log, script, []string{"appname", "terminal", "--strict=true", "--silent=true"})
		if err != nil {
			return err
		}
		var mu sync.Mutex
		var got []string
		mutex.VerifHook = func(site, name string, write bool) {
			if site == "lock.got" {
				mu.Lock()
				m := "R"
				if write {
					m = "W"
				}
				// the names carry the task's lock namespace as a prefix: keep the last segment
				if i := strings.LastIndex(name, ":"); i >= 0 {
					name = name[i+1:]
				}
				got = append(got, name+":"+m)
				mu.Unlock()
			}
		}
		done := make(chan error, 1)
		go func() { done <- wd.Boot.Run() }()
		select {
		case err := <-done:
			if err != nil {
				add("run-error", script, err.Error())
			}
		case <-wdog.After(10 * time.Second):
			mutex.VerifHook = nil
			add("hang", script, "pip:run did not finish")
			continue
		}
		mutex.VerifHook = nil
		var want []string
		for _, e := range c.Expected {
			want = append(want, e.Name+":"+e.Mode)
		}
		sort.Strings(want)
		if len(samples) < 2 && len(want) >= 2 {
			samples = append(samples, map[string]interface{}{"script": strings.TrimSpace(script), "locks": got})
		}
		if strings.Join(got, " ") != strings.Join(want, " ") {
			add("lock-map", strings.TrimSpace(script), fmt.Sprintf("the runner took %v around the body, specification %v (ascending, each name once, W iff in the write list)", got, want))
		}
		if !strings.Contains(log.String(), "\"id\":\"p1\"") {
			add("body-not-run", strings.TrimSpace(script), "the body did not run")
		}
	}
	return finish(executed, byKey, examples, samples)
}
