package main

import (
	"bufio"
	"encoding/json"
	"flag"
	"fmt"
	"os"
	"strings"

	"github.com/goatcms/goatcore/filesystem/fshelper"
	"verifharness/fsx"
)

func init() {
	commands["streams"] = cmdStreams
	commands["copies"] = cmdCopies
}

var storeKinds = []string{"mem", "disk", "crypt", "cryptx", "cache"}

func cmdStreams(args []string) error {
	fl := flag.NewFlagSet("streams", flag.ExitOnError)
	in := fl.String("in", "", "TLC output with stream scenarios")
	tmp := fl.String("tmp", "", "scratch")
	kinds := fl.String("stores", strings.Join(storeKinds, ","), "stores")
	fl.Parse(args)
	f, err := os.Open(*in)
	if err != nil {
		return err
	}
	defer f.Close()
	byKey := map[string]int{}
	examples := map[string][]map[string]string{}
	executed := 0
	var samples []string
	sc := bufio.NewScanner(f)
	sc.Buffer(make([]byte, 1<<20), 1<<24)
	for sc.Scan() {
		line := sc.Text()
		if !strings.Contains(line, "\\\"k\\\":\\\"stream\\\"") {
			continue
		}
		var inner string
		if err := json.Unmarshal([]byte(line), &inner); err != nil {
			return err
		}
		var s fsx.StreamScenario
		if err := json.Unmarshal([]byte(inner), &s); err != nil {
			return err
		}
		if len(samples) < 2 && len(s.Chunks) == 3 {
			samples = append(samples, inner)
		}
		for _, k := range strings.Split(*kinds, ",") {
			executed++
			if msg := fsx.RunStream(&s, k, *tmp); msg != "" {
				key := "stream:" + k
				if strings.HasPrefix(msg, "infra:") {
					key = "infra"
				} else if strings.HasPrefix(msg, "panic") {
					key = "panic:stream:" + k
				}
				byKey[key]++
				if len(examples[key]) < 3 {
					examples[key] = append(examples[key], map[string]string{"key": key, "op": "stream " + inner, "backend": k, "what": msg})
				}
			}
		}
	}
	out := map[string]interface{}{"executed": executed, "failures_by_key": byKey, "examples": examples, "samples": samples}
	b, _ := json.Marshal(out)
	fmt.Println(string(b))
	return nil
}

type rawCopy struct {
	Src    []json.RawMessage `json:"src"`
	Pre    []json.RawMessage `json:"pre"`
	Dpre   string            `json:"dpre"`
	Helper string            `json:"helper"`
	Work   [][]string        `json:"work"`
}

func cmdCopies(args []string) error {
	fl := flag.NewFlagSet("copies", flag.ExitOnError)
	in := fl.String("in", "", "TLC output with copy scenarios")
	tmp := fl.String("tmp", "", "scratch")
	pairs := fl.String("pairs", "", "comma separated src>dst pairs; empty = rotate through all 25")
	maxFaults := fl.Int("maxfaults", 0, "cap on fault positions per scenario (0 = all)")
	fl.Parse(args)
	f, err := os.Open(*in)
	if err != nil {
		return err
	}
	defer f.Close()
	fns := fsx.CopyFns{
		Copy: func(s, d fsx.FS) error { return fshelper.Copy(s, d, nil) },
		Copier: func(s fsx.FS, sp string, d fsx.FS, dp string) error {
			return fshelper.Copier{SrcFS: s, SrcPath: sp, DestFS: d, DestPath: dp}.Do()
		},
		StreamCopy: func(s, d fsx.FS, p string) error { return fshelper.StreamCopy(s, d, p) },
	}
	var allPairs [][2]string
	if *pairs != "" {
		for _, p := range strings.Split(*pairs, ",") {
			sd := strings.Split(p, ">")
			allPairs = append(allPairs, [2]string{sd[0], sd[1]})
		}
	} else {
		for _, s := range storeKinds {
			for _, d := range storeKinds {
				allPairs = append(allPairs, [2]string{s, d})
			}
		}
	}
	byKey := map[string]int{}
	examples := map[string][]map[string]string{}
	executed, runs := 0, 0
	pairsUsed := map[string]int{}
	var samples []string
	sc := bufio.NewScanner(f)
	sc.Buffer(make([]byte, 1<<20), 1<<24)
	idx := 0
	for sc.Scan() {
		line := sc.Text()
		if !strings.Contains(line, "\\\"k\\\":\\\"copy\\\"") {
			continue
		}
		var inner string
		if err := json.Unmarshal([]byte(line), &inner); err != nil {
			return err
		}
		var rc rawCopy
		if err := json.Unmarshal([]byte(inner), &rc); err != nil {
			return err
		}
		s := &fsx.CopyScenario{Dpre: rc.Dpre, Helper: rc.Helper, Work: rc.Work, Raw: inner}
		if s.Src, err = fsx.ParseTreeJSON(rc.Src); err != nil {
			return err
		}
		if s.Pre, err = fsx.ParseTreeJSON(rc.Pre); err != nil {
			return err
		}
		pr := allPairs[idx%len(allPairs)]
		idx++
		if len(samples) < 2 && len(s.Src) >= 3 {
			samples = append(samples, inner)
		}
		executed++
		pairsUsed[pr[0]+">"+pr[1]]++
		n, fails := fsx.RunCopy(s, pr[0], pr[1], *tmp, fns, *maxFaults)
		runs += n
		for _, fl := range fails {
			byKey[fl.Key]++
			if len(examples[fl.Key]) < 3 {
				examples[fl.Key] = append(examples[fl.Key], map[string]string{"key": fl.Key, "op": rc.Helper + " " + inner, "backend": pr[0] + ">" + pr[1], "what": fl.What})
			}
		}
	}
	out := map[string]interface{}{"executed": executed, "calls": runs, "failures_by_key": byKey, "examples": examples, "samples": samples, "pairs": pairsUsed}
	b, _ := json.Marshal(out)
	fmt.Println(string(b))
	return nil
}
