package main

import (
	"bufio"
	"encoding/json"
	"flag"
	"fmt"
	"os"
	"strings"
	"time"
	wdog "verifharness/wd"

	"github.com/goatcms/goatcore/workers/jobsync"
)

func init() { commands["jobsync"] = cmdJobSync }

// jobsync: replay the call sequences printed by JobSync.tla on the real Pool and Lifecycle
func cmdJobSync(args []string) error {
	fl := flag.NewFlagSet("jobsync", flag.ExitOnError)
	in := fl.String("in", "", "TLC output")
	fl.Parse(args)
	f, err := os.Open(*in)
	if err != nil {
		return err
	}
	defer f.Close()
	byKey := map[string]int{}
	examples := map[string][]map[string]string{}
	executed := 0
	var samples []string
	sc := bufio.NewScanner(f)
	sc.Buffer(make([]byte, 1<<20), 1<<24)
	for sc.Scan() {
		line := sc.Text()
		if !strings.Contains(line, "\\\"k\\\":\\\"jobsync\\\"") {
			continue
		}
		var inner string
		if err := json.Unmarshal([]byte(line), &inner); err != nil {
			return err
		}
		var c struct {
			Max    int  `json:"max"`
			Strict bool `json:"strict"`
			Hist   []struct {
				Call string `json:"call"`
				Arg  int    `json:"arg"`
				Ret  int    `json:"ret"`
			} `json:"hist"`
		}
		if err := json.Unmarshal([]byte(inner), &c); err != nil {
			return err
		}
		executed++
		if len(samples) < 2 && executed%5000 == 17 {
			samples = append(samples, inner)
		}
		pool := jobsync.NewPool(c.Max)
		lc := jobsync.NewLifecycle(time.Minute, c.Strict)
		for i, h := range c.Hist {
			got := 0
			msg := ""
			func() {
				defer func() {
					if r := recover(); r != nil {
						msg = fmt.Sprintf("panic: %v", r)
					}
				}()
				switch h.Call {
				case "add":
					got = pool.Add(h.Arg)
				case "done":
					pool.Done()
				case "wait":
					done := make(chan struct{})
					go func() { pool.Wait(); close(done) }()
					select {
					case <-done:
					case <-wdog.After(2 * time.Second):
						msg = "Wait blocks although nothing is reserved"
					}
				case "error":
					lc.Error(fmt.Errorf("e%d", i))
				case "kill":
					lc.Kill()
				case "iskilled":
					if lc.IsKilled() {
						got = 1
					}
				case "errors":
					got = len(lc.Errors())
				case "nextstep":
					lc.NextStep(h.Arg)
				case "step":
					got = lc.Step()
				}
			}()
			if msg == "" && got != h.Ret {
				msg = fmt.Sprintf("returned %d, specification %d", got, h.Ret)
			}
			if msg != "" {
				key := "jobsync:" + h.Call
				byKey[key]++
				if len(examples[key]) < 3 {
					examples[key] = append(examples[key], map[string]string{"key": key, "op": inner, "backend": "jobsync", "what": fmt.Sprintf("step %d %s(%d): %s", i, h.Call, h.Arg, msg)})
				}
				break
			}
		}
		lc.Kill() // release the context's timer
	}
	out := map[string]interface{}{"executed": executed, "failures_by_key": byKey, "examples": examples, "samples": samples}
	b, _ := json.Marshal(out)
	fmt.Println(string(b))
	return nil
}
