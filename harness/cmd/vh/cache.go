package main

import (
	"bufio"
	"encoding/json"
	"flag"
	"fmt"
	"os"
	"sort"
	"strings"

	"github.com/goatcms/goatcore/filesystem/filespace/memfs"
	"github.com/goatcms/goatcore/filesystem/fscache"
	"verifharness/fsx"
)

func init() { commands["cachecases"] = cmdCacheCases }

type histOp struct {
	Name string     `json:"name"`
	P    []string   `json:"p"`
	Q    []string   `json:"q"`
	D    string     `json:"d"`
	K    int        `json:"k"`
	Res  [][]string `json:"res"`
	// After: for a commit, the remote tree of the run the model chose (Go's map order chooses for the code)
	After []json.RawMessage `json:"after"`
}

type viewVals struct {
	Exist bool       `json:"exist"`
	File  bool       `json:"file"`
	Dir   bool       `json:"dir"`
	Read  [][]string `json:"read"`
	Lstat [][]string `json:"lstat"`
	List  [][]string `json:"list"`
	// Stream: what a Reader returns (the model has one read value for ReadFile and Reader)
	Stream [][]string `json:"-"`
}

func (v viewVals) key() string {
	return fmt.Sprintf("%v|%v|%v|%s|%s|%s", v.Exist, v.File, v.Dir, fsx.Res(v.Read).Key(), fsx.Res(v.Lstat).Key(), fsx.Res(v.List).Key())
}

type cacheCase struct {
	Remote0 []json.RawMessage `json:"remote0"`
	Hist    []histOp          `json:"hist"`
	Commit  bool              `json:"commit"`
	Remote  []json.RawMessage `json:"remote"`
	Buffer  []json.RawMessage `json:"buffer"`
	Rm      [][]string        `json:"rm"`
	RmAll   [][]string        `json:"rmAll"`
	Mk      [][]string        `json:"mk"`
	Wr      [][]string        `json:"wr"`
	Ideal   []json.RawMessage `json:"ideal"`
	Dev     []string          `json:"dev"`
	View    []struct {
		P     []string `json:"p"`
		Impl  viewVals `json:"impl"`
		Ideal viewVals `json:"ideal"`
	} `json:"view"`
	Runs []struct {
		R  []json.RawMessage `json:"r"`
		Ok bool              `json:"ok"`
	} `json:"runs"`
}

type cacheWorld struct {
	closeFaults bool
	fired       bool
	remote      fsx.FS
	plan        *fsx.FaultPlan
	cache       *fscache.Cache
	d           *fsx.Dict
}

func newCacheWorld(remote0 fsx.Tree) (*cacheWorld, error) {
	w := &cacheWorld{d: fsx.NewDict(), plan: fsx.NewFaultPlan("", 0)}
	var err error
	if w.remote, err = memfs.NewFilespace(); err != nil {
		return nil, err
	}
	if err = fsx.Build(w.remote, remote0, w.d); err != nil {
		return nil, err
	}
	if w.cache, err = fscache.NewMemCache(&fsx.FaultFS{FS: w.remote, Plan: w.plan}); err != nil {
		return nil, err
	}
	return w, nil
}

func (w *cacheWorld) do(op histOp) (res fsx.Res) {
	defer func() {
		if r := recover(); r != nil {
			res = fsx.Res{{"panic", fmt.Sprint(r)}}
		}
	}()
	if op.Name == "commit" {
		// the injected failure of a stream sits alternately at its open and at its close (flush)
		if w.closeFaults {
			w.plan.Arm("*mutclose", op.K)
		} else {
			w.plan.Arm("*mut", op.K)
		}
		err := w.cache.Commit()
		w.fired = w.plan.Fired
		w.plan.Arm("", 0)
		if err != nil {
			return fsx.Res{{"err"}}
		}
		return fsx.Res{{"ok"}}
	}
	return fsx.Exec(w.cache, fsx.Op{Name: op.Name, Sp: op.P, Sq: op.Q, D: op.D}, w.d, nil)
}

func (w *cacheWorld) view(p []string) viewVals {
	path := strings.Join(p, "/")
	v := viewVals{Exist: w.cache.IsExist(path), File: w.cache.IsFile(path), Dir: w.cache.IsDir(path)}
	v.Read = fsx.Exec(w.cache, fsx.Op{Name: "read", Sp: p}, w.d, nil)
	v.Stream = fsx.Exec(w.cache, fsx.Op{Name: "rstream", Sp: p, Chunk: 7}, w.d, nil)
	v.Lstat = fsx.Exec(w.cache, fsx.Op{Name: "lstat", Sp: p}, w.d, nil)
	v.List = fsx.Exec(w.cache, fsx.Op{Name: "readdir", Sp: p}, w.d, nil)
	return v
}

// childView answers the same questions about p through a child view of the cache rooted at p's first
// segment ("" when there is no such view); it must agree with the cache's own answers.
func (w *cacheWorld) childView(p []string) (string, bool) {
	if len(p) < 2 {
		return "", false
	}
	sub, err := w.cache.Filespace(p[0])
	if err != nil {
		return "", false
	}
	rel := p[1:]
	path := strings.Join(rel, "/")
	v := viewVals{Exist: sub.IsExist(path), File: sub.IsFile(path), Dir: sub.IsDir(path)}
	v.Read = fsx.Exec(sub, fsx.Op{Name: "read", Sp: rel}, w.d, nil)
	v.Lstat = fsx.Exec(sub, fsx.Op{Name: "lstat", Sp: rel}, w.d, nil)
	v.List = fsx.Exec(sub, fsx.Op{Name: "readdir", Sp: rel}, w.d, nil)
	v.Stream = fsx.Exec(sub, fsx.Op{Name: "rstream", Sp: rel, Chunk: 5}, w.d, nil)
	return v.key() + "|" + fsx.Res(v.Stream).Key(), true
}

func pathSet(ps [][]string) string {
	var s []string
	for _, p := range ps {
		s = append(s, strings.Join(p, "/"))
	}
	sort.Strings(s)
	return strings.Join(s, ",")
}

func strSet(ps []string) string {
	s := append([]string{}, ps...)
	sort.Strings(s)
	return strings.Join(s, ",")
}

func cmdCacheCases(args []string) error {
	fl := flag.NewFlagSet("cachecases", flag.ExitOnError)
	in := fl.String("in", "", "TLC output with cache cases")
	naming := fl.String("naming", "", "\"prefix\": the model's names a, b become sub, sub.old (one a string prefix of the other)")
	fl.Parse(args)
	f, err := os.Open(*in)
	if err != nil {
		return err
	}
	defer f.Close()
	byKey := map[string]int{}
	examples := map[string][]map[string]string{}
	drift := map[string]int{}
	var driftEx []map[string]string
	known := map[string]int{} // deviations observed exactly as documented
	knownEx := map[string]string{}
	executed, cleanCases, devCases, repaired, unreplayable := 0, 0, 0, 0, 0
	var samples []string
	fail := func(key, inner, what string) {
		byKey[key]++
		if len(examples[key]) < 3 {
			examples[key] = append(examples[key], map[string]string{"key": key, "op": inner, "backend": "memcache", "what": what})
		}
	}
	noteDrift := func(kind, inner, what string) {
		drift[kind]++
		if len(driftEx) < 3 {
			driftEx = append(driftEx, map[string]string{"key": "drift:" + kind, "op": inner, "what": what})
		}
	}
	sc := bufio.NewScanner(f)
	sc.Buffer(make([]byte, 1<<20), 1<<26)
	for sc.Scan() {
		line := sc.Text()
		if !strings.Contains(line, "\\\"k\\\":\\\"cache\\\"") {
			continue
		}
		var inner string
		if err := json.Unmarshal([]byte(line), &inner); err != nil {
			return err
		}
		if *naming == "prefix" {
			// names occur in the case only as whole JSON strings (path segments, listing / stat entries)
			inner = strings.ReplaceAll(strings.ReplaceAll(inner, `"b"`, `"sub.old"`), `"a"`, `"sub"`)
		}
		var c cacheCase
		if err := json.Unmarshal([]byte(inner), &c); err != nil {
			return fmt.Errorf("parse: %v", err)
		}
		remote0, _ := fsx.ParseTreeJSON(c.Remote0)
		ideal, _ := fsx.ParseTreeJSON(c.Ideal)
		short := inner
		if len(short) > 1200 {
			short = short[:1200] + "..."
		}
		executed++
		if len(samples) < 3 && len(c.Hist) >= 2 {
			samples = append(samples, short)
		}
		clean := len(c.Dev) == 0
		if clean {
			cleanCases++
		} else {
			devCases++
		}
		// ---- the witness prefix.  A Commit iterates Go maps, so which of the model's runs the code
		// takes is up to the runtime: the prefix is retried until the code has taken the run the
		// model chose (the remote after each prefix Commit is part of the case); otherwise skipped.
		var w *cacheWorld
		okPrefix, committed := false, false
		for attempt := 0; attempt < 24 && !okPrefix; attempt++ {
			var err error
			if w, err = newCacheWorld(remote0); err != nil {
				return err
			}
			okPrefix, committed = true, false
			for _, op := range c.Hist[:len(c.Hist)-1] {
				res := w.do(op)
				if op.Name == "commit" {
					committed = true
					want, _ := fsx.ParseTreeJSON(op.After)
					got, err := fsx.Project(w.remote, w.d)
					if err != nil || got.Key() != want.Key() || res.Key() != fsx.Res(op.Res).Key() {
						okPrefix = false // another legal order; try again
						break
					}
					continue
				}
				if res.Key() != fsx.Res(op.Res).Key() {
					okPrefix = false
					noteDrift("prefix", short, fmt.Sprintf("prefix step %s answered %v, model %v", op.Name, res, op.Res))
					attempt = 1000
					break
				}
			}
		}
		if !okPrefix {
			unreplayable++
			continue
		}
		last := c.Hist[len(c.Hist)-1]
		// every second faulted Commit: the failure of a stream sits at its close (flush), not at its open
		w.closeFaults = last.Name == "commit" && last.K > 0 && executed%2 == 0
		res := w.do(last)
		if len(res) == 1 && res[0][0] == "panic" {
			fail("panic:"+last.Name, short, res[0][1])
			continue
		}
		remoteNow, err := fsx.Project(w.remote, w.d)
		if err != nil {
			fail("remote-inconsistent", short, err.Error())
			continue
		}
		report := func(what string, matchesImpl bool) {
			// inside a trigger region: the documented deviation, or something else
			prop := "C07"
			if last.Name == "commit" {
				prop = "C06"
			}
			if clean {
				fail(prop+":"+last.Name, short, what)
				return
			}
			if matchesImpl {
				for _, dname := range c.Dev {
					dname = prop + ":" + dname
					known[dname]++
					if knownEx[dname] == "" {
						knownEx[dname] = what + " -- " + short
					}
				}
				return
			}
			fail(prop+":third-behaviour:"+last.Name, short, what+" (equals neither the ideal nor the documented deviation)")
		}
		if last.Name == "commit" && last.K > 0 && !w.fired {
			unreplayable++ // in the order the runtime chose, Commit made fewer than K mutating calls
			continue
		}
		if last.Name == "commit" {
			inRuns := false
			for _, r := range c.Runs {
				rt, _ := fsx.ParseTreeJSON(r.R)
				if rt.Key() == remoteNow.Key() && r.Ok == (res[0][0] == "ok") {
					inRuns = true
				}
			}
			if !inRuns && !w.closeFaults { // (a failed close leaves a truncated file: not one of the model's runs, by construction)
				noteDrift("commit", short, fmt.Sprintf("commit gave (%v, %s), not among the %d runs of the model", res, remoteNow.Key(), len(c.Runs)))
			}
			switch {
			case last.K > 0 && res[0][0] == "ok":
				fail("C06:fault-not-reported", short, fmt.Sprintf("the %d-th mutating remote call failed but Commit returned nil", last.K))
			case last.K == 0 && res[0][0] == "ok" && remoteNow.Key() != ideal.Key():
				report(fmt.Sprintf("after a successful Commit the remote is %s, direct application gives %s", remoteNow.Key(), ideal.Key()), inRuns)
			case last.K == 0 && res[0][0] != "ok":
				report("Commit failed without any injected fault", inRuns)
			default:
				if !clean && remoteNow.Key() == ideal.Key() {
					repaired++
				}
			}
			continue
		}
		// ---- a cache operation
		if !committed && remoteNow.Key() != remote0.Key() {
			fail("C06:remote-touched:"+last.Name, short, fmt.Sprintf("the remote changed before Commit: %s -> %s", remote0.Key(), remoteNow.Key()))
			continue
		}
		// binding: buffer and journals
		if bt, err := fsx.Project(w.cache.Buffer(), w.d); err != nil {
			noteDrift("buffer", short, err.Error())
		} else if mb, _ := fsx.ParseTreeJSON(c.Buffer); bt.Key() != mb.Key() {
			noteDrift("buffer", short, fmt.Sprintf("buffer %s, model %s", bt.Key(), mb.Key()))
		}
		jr, jra, jm, jw := w.cache.VerifJournals()
		if strSet(jr) != pathSet(c.Rm) || strSet(jra) != pathSet(c.RmAll) || strSet(jm) != pathSet(c.Mk) || strSet(jw) != pathSet(c.Wr) {
			noteDrift("journals", short, fmt.Sprintf("journals rm=%s rmAll=%s mk=%s wr=%s, model rm=%s rmAll=%s mk=%s wr=%s",
				strSet(jr), strSet(jra), strSet(jm), strSet(jw), pathSet(c.Rm), pathSet(c.RmAll), pathSet(c.Mk), pathSet(c.Wr)))
		}
		// result and view
		implRes := fsx.Res(last.Res)
		resMatchesImpl := res.Key() == implRes.Key()
		allIdeal, allImpl := true, true
		var firstDiff string
		for _, ve := range c.View {
			got := w.view(ve.P)
			if got.key() != ve.Ideal.key() {
				allIdeal = false
				if firstDiff == "" {
					firstDiff = fmt.Sprintf("at %q the cache answers %s, the ideal %s", strings.Join(ve.P, "/"), got.key(), ve.Ideal.key())
				}
			} else if fsx.Res(got.Stream).Key() != fsx.Res(ve.Ideal.Read).Key() {
				allIdeal = false
				if firstDiff == "" {
					firstDiff = fmt.Sprintf("at %q a Reader returns %v, the ideal %v", strings.Join(ve.P, "/"), got.Stream, ve.Ideal.Read)
				}
			}
			if got.key() != ve.Impl.key() || fsx.Res(got.Stream).Key() != fsx.Res(ve.Impl.Read).Key() {
				allImpl = false
			}
			if cv, ok := w.childView(ve.P); ok && cv != got.key()+"|"+fsx.Res(got.Stream).Key() {
				fail("C07:childview", short, fmt.Sprintf("at %q a child view of the cache answers %s, the cache itself %s", strings.Join(ve.P, "/"), cv, got.key()+"|"+fsx.Res(got.Stream).Key()))
			}
		}
		if clean {
			if !resMatchesImpl {
				fail("C07:result:"+last.Name, short, fmt.Sprintf("%s answered %v, direct application answers %v", last.Name, res, last.Res))
			} else if !allIdeal {
				fail("C07:"+last.Name, short, "read-your-writes: "+firstDiff)
			}
			continue
		}
		if allIdeal {
			repaired++
			continue
		}
		report("read-your-writes: "+firstDiff, allImpl && resMatchesImpl)
	}
	out := map[string]interface{}{"executed": executed, "clean_cases": cleanCases, "deviation_cases": devCases, "repaired_like": repaired, "unreplayable_order": unreplayable,
		"failures_by_key": byKey, "examples": examples, "drift": drift, "drift_examples": driftEx, "known": known, "known_examples": knownEx, "samples": samples}
	b, _ := json.Marshal(out)
	fmt.Println(string(b))
	return nil
}
