package main

import (
	"bufio"
	"bytes"
	"encoding/json"
	"flag"
	"fmt"
	"io"
	"math/rand"
	"os"
	"strings"

	"github.com/goatcms/goatcore/app/scope/argscope"
	"github.com/goatcms/goatcore/app/scope/datascope"
	"github.com/goatcms/goatcore/varutil"
)

func init() {
	commands["argcases"] = cmdArgCases
	commands["argrandom"] = cmdArgRandom
}

var symBytes = map[string]byte{"sp": ' ', "tab": '\t', "nl": '\n', "q": '"', "bs": '\\', "eq": '=', "lt": '<', "a": 'a', "E": 'E', "hi": 0xFF, "-": '-', "b": 'b'}

func symsToBytes(s []string) []byte {
	out := make([]byte, len(s))
	for i, x := range s {
		out[i] = symBytes[x]
	}
	return out
}

// countingReader hands out the input one read at a time and knows what is left.
type countingReader struct {
	data []byte
	pos  int
}

func (r *countingReader) Read(p []byte) (int, error) {
	if r.pos >= len(r.data) {
		return 0, io.EOF
	}
	n := copy(p, r.data[r.pos:])
	r.pos += n
	return n, nil
}

type argCase struct {
	Input  []string   `json:"input"`
	Args   [][]string `json:"args"`
	Status string     `json:"status"`
	Rest   []string   `json:"rest"`
}

func runSplit(input []byte) (args []string, eof bool, err error, rest []byte, panicked string) {
	r := &countingReader{data: input}
	defer func() {
		if rec := recover(); rec != nil {
			panicked = fmt.Sprint(rec)
		}
	}()
	args, eof, err = varutil.ReadArguments(r)
	rest = input[r.pos:]
	return
}

func cmdArgCases(args []string) error {
	fl := flag.NewFlagSet("argcases", flag.ExitOnError)
	in := fl.String("in", "", "TLC output")
	fl.Parse(args)
	f, err := os.Open(*in)
	if err != nil {
		return err
	}
	defer f.Close()
	byKey := map[string]int{}
	examples := map[string][]map[string]string{}
	executed := 0
	var samples []string
	fail := func(key, inner, what string) {
		byKey[key]++
		if len(examples[key]) < 3 {
			examples[key] = append(examples[key], map[string]string{"key": key, "op": inner, "backend": "ReadArguments", "what": what})
		}
	}
	sc := bufio.NewScanner(f)
	sc.Buffer(make([]byte, 1<<20), 1<<24)
	for sc.Scan() {
		line := sc.Text()
		isArg := strings.Contains(line, "\\\"k\\\":\\\"arg\\\"")
		isInj := strings.Contains(line, "\\\"k\\\":\\\"inject\\\"")
		if !isArg && !isInj {
			continue
		}
		var inner string
		if err := json.Unmarshal([]byte(line), &inner); err != nil {
			return err
		}
		executed++
		if isInj {
			if msg := runInjectCase(inner); msg != "" {
				fail("inject", inner, msg)
			}
			continue
		}
		var c argCase
		if err := json.Unmarshal([]byte(inner), &c); err != nil {
			return err
		}
		if len(samples) < 3 && len(c.Args) >= 2 {
			samples = append(samples, inner)
		}
		input := symsToBytes(c.Input)
		got, eof, gerr, rest, pan := runSplit(input)
		if pan != "" {
			fail("panic", inner, fmt.Sprintf("input %q: %s", input, pan))
			continue
		}
		status := "nl"
		if gerr != nil {
			status = "err"
		} else if eof {
			status = "eof"
		}
		if status != c.Status {
			fail("status", inner, fmt.Sprintf("input %q: got %s (args %q, err %v), specification %s", input, status, got, gerr, c.Status))
			continue
		}
		if status == "err" {
			continue
		}
		same := len(got) == len(c.Args)
		for i := 0; same && i < len(got); i++ {
			same = bytes.Equal([]byte(got[i]), symsToBytes(c.Args[i]))
		}
		if !same {
			var want []string
			for _, a := range c.Args {
				want = append(want, string(symsToBytes(a)))
			}
			fail("args", inner, fmt.Sprintf("input %q: got %q, specification %q", input, got, want))
			continue
		}
		if status == "nl" && !bytes.Equal(rest, symsToBytes(c.Rest)) {
			fail("rest", inner, fmt.Sprintf("input %q: %d bytes left unread, specification: %d (%q)", input, len(rest), len(c.Rest), symsToBytes(c.Rest)))
		}
	}
	out := map[string]interface{}{"executed": executed, "failures_by_key": byKey, "examples": examples, "samples": samples}
	b, _ := json.Marshal(out)
	fmt.Println(string(b))
	return nil
}

type injectCase struct {
	Args  [][]string `json:"args"`
	Named []struct {
		K []string `json:"k"`
		V []string `json:"v"`
	} `json:"named"`
	Pos  [][]string `json:"pos"`
	Tail [][]string `json:"tail"`
}

func runInjectCase(inner string) string {
	var c injectCase
	if err := json.Unmarshal([]byte(inner), &c); err != nil {
		return "parse: " + err.Error()
	}
	var args []string
	for _, a := range c.Args {
		args = append(args, string(symsToBytes(a)))
	}
	ds := datascope.New(map[interface{}]interface{}{})
	if err := argscope.InjectArgs(ds, args...); err != nil {
		return "InjectArgs failed: " + err.Error()
	}
	for i, p := range c.Pos {
		if v, _ := ds.Value(fmt.Sprintf("$%d", i)).(string); v != string(symsToBytes(p)) {
			return fmt.Sprintf("args %q: $%d = %q, specification %q", args, i, v, symsToBytes(p))
		}
	}
	if ds.Value(fmt.Sprintf("$%d", len(c.Pos))) != nil {
		return fmt.Sprintf("args %q: more positional arguments than the specification's %d", args, len(c.Pos))
	}
	for _, n := range c.Named {
		if v, _ := ds.Value(string(symsToBytes(n.K))).(string); v != string(symsToBytes(n.V)) {
			return fmt.Sprintf("args %q: %q = %q, specification %q", args, symsToBytes(n.K), v, symsToBytes(n.V))
		}
	}
	tail, _ := ds.Value("--").([]string)
	if len(tail) != len(c.Tail) {
		return fmt.Sprintf("args %q: %d arguments after --, specification %d", args, len(tail), len(c.Tail))
	}
	for i := range tail {
		if tail[i] != string(symsToBytes(c.Tail[i])) {
			return fmt.Sprintf("args %q: tail[%d] = %q", args, i, tail[i])
		}
	}
	return ""
}

// argrandom: long random inputs with multi-byte content; consecutive commands read from ONE reader;
// rendered argument lists split again.  Oracle: a Go transcription is NOT used -- the checks are the
// property's own clauses (no panic, termination, round trip of rendered lists, next command readable).
func cmdArgRandom(args []string) error {
	fl := flag.NewFlagSet("argrandom", flag.ExitOnError)
	n := fl.Int("n", 20000, "inputs")
	seed := fl.Int64("seed", 1, "seed")
	fl.Parse(args)
	r := rand.New(rand.NewSource(*seed))
	byKey := map[string]int{}
	examples := map[string][]map[string]string{}
	fail := func(key, op, what string) {
		byKey[key]++
		if len(examples[key]) < 3 {
			examples[key] = append(examples[key], map[string]string{"key": key, "op": op, "backend": "ReadArguments", "what": what})
		}
	}
	alphabet := []byte(" \t\n\"\\=<aE_\xff\xc3\xa9-")
	executed := 0
	for i := 0; i < *n; i++ {
		executed++
		// (1) totality on arbitrary bytes
		buf := make([]byte, r.Intn(40))
		for j := range buf {
			buf[j] = alphabet[r.Intn(len(alphabet))]
		}
		if _, _, _, _, pan := runSplit(buf); pan != "" {
			fail("panic", fmt.Sprintf("%q", buf), pan)
		}
		// (2) two rendered commands on one reader: each comes back exactly, the second after the first
		var cmds [][]string
		var text []byte
		for c := 0; c < 2; c++ {
			var list []string
			for k := 0; k < 1+r.Intn(4); k++ {
				a := make([]byte, r.Intn(12))
				for j := range a {
					pool := []byte(" \t\n\"=<aE_\xff\xc3\xa9-'$")
					a[j] = pool[r.Intn(len(pool))]
				}
				list = append(list, string(a))
				if k > 0 {
					text = append(text, []byte([]string{" ", "\t", "  ", " \\\n "}[r.Intn(4)])...)
				}
				text = append(text, '"')
				text = append(text, bytes.ReplaceAll(a, []byte(`"`), []byte(`\"`))...)
				text = append(text, '"')
			}
			cmds = append(cmds, list)
			text = append(text, '\n')
		}
		rd := &countingReader{data: text}
		for c := 0; c < 2; c++ {
			var got []string
			var eof bool
			var err error
			pan := ""
			func() {
				defer func() {
					if rec := recover(); rec != nil {
						pan = fmt.Sprint(rec)
					}
				}()
				got, eof, err = varutil.ReadArguments(rd)
			}()
			if pan != "" {
				fail("panic", fmt.Sprintf("%q", text), pan)
				break
			}
			if err != nil || eof || strings.Join(got, "\x00") != strings.Join(cmds[c], "\x00") {
				fail("roundtrip", fmt.Sprintf("%q", text), fmt.Sprintf("command %d came back as %q (eof=%v err=%v), rendered from %q", c, got, eof, err, cmds[c]))
				break
			}
		}
	}
	out := map[string]interface{}{"executed": executed, "failures_by_key": byKey, "examples": examples}
	b, _ := json.Marshal(out)
	fmt.Println(string(b))
	return nil
}
