package main

import (
	"bufio"
	"encoding/json"
	"flag"
	"fmt"
	"os"
	"strings"

	"github.com/goatcms/goatcore/filesystem"
	"verifharness/fsx"
	"verifharness/viewsx"
)

func init() { commands["views"] = cmdViews }

type viewFailure struct {
	Key   string `json:"key"`
	Stack string `json:"stack"`
	Op    string `json:"op"`
	Sp    string `json:"sp"`
	What  string `json:"what"`
	Case  string `json:"case"`
}

// views: execute every (stack, spelling) emitted by Views.tla on real view
// stacks: all read-type and mutating calls; verdict = confinement observed on
// real snapshots; binding = the model's resolution agrees with where the call landed.
func cmdViews(args []string) error {
	fl := flag.NewFlagSet("views", flag.ExitOnError)
	in := fl.String("in", "", "TLC output with view case lines")
	tmp := fl.String("tmp", "", "scratch for disk roots")
	roots := fl.String("roots", "mem,disk", "root kinds to run")
	spelling := fl.String("spelling", "", "\"long\": every spelling gets a neutral prefix of more than 32 segments (. and empty segments)")
	naming := fl.String("naming", "", "\"prefix\": instantiate the model's names so that some start with the name of the disk root directory")
	fl.Parse(args)
	if *naming == "prefix" {
		viewsx.SetNaming(map[string]string{"a": "rootx", "f": "rootf", "v": "roo"})
	}
	f, err := os.Open(*in)
	if err != nil {
		return err
	}
	defer f.Close()
	byKey := map[string]int{}
	examples := map[string][]viewFailure{}
	drift := map[string]int{}
	var driftEx []viewFailure
	cases, calls := 0, 0
	var samples []string
	stacksSeen := map[string]bool{}
	fail := func(c *viewsx.Case, key, op, what string) {
		byKey[key]++
		if len(examples[key]) < 3 {
			st, _ := json.Marshal(c.Stack)
			examples[key] = append(examples[key], viewFailure{Key: key, Stack: string(st), Op: op, Sp: strings.Join(c.Sp, "/"), What: what, Case: c.Raw})
		}
	}
	sc := bufio.NewScanner(f)
	sc.Buffer(make([]byte, 1<<20), 1<<24)
	for sc.Scan() {
		line := sc.Text()
		if !strings.Contains(line, "\\\"k\\\":\\\"view\\\"") {
			continue
		}
		c, err := viewsx.ParseCase(line)
		if err != nil {
			return fmt.Errorf("parse: %v", err)
		}
		if !strings.Contains(*roots, c.Stack[0].K) {
			continue
		}
		cases++
		st, _ := json.Marshal(c.Stack)
		stacksSeen[string(st)] = true
		if len(samples) < 3 && c.Climbs && len(c.Stack) > 2 {
			samples = append(samples, c.Raw)
		}
		p := strings.Join(c.Sp, "/")
		if *spelling == "long" {
			// the meaning of a spelling does not depend on its length (a leading slash stays the leading slash)
			if strings.HasPrefix(p, "/") {
				p = "/" + fsx.NeutralPrefix + p[1:]
			} else {
				p = fsx.NeutralPrefix + p
			}
		}
		hasCrypt, hasRO := false, false
		for _, l := range c.Stack {
			hasCrypt = hasCrypt || l.K == "crypt"
			hasRO = hasRO || l.K == "ro"
		}
		// ---- read-type calls: one world serves all of them (they must not change anything)
		w, err := viewsx.Build(c.Stack, *tmp)
		if err != nil {
			return fmt.Errorf("build %s: %v", string(st), err)
		}
		before, err := w.Snapshot()
		if err != nil {
			// (an escape of an EARLIER case can have damaged this world's directory: no verdict here, go on)
			w.Close()
			fail(c, "infra:snapshot", "reads", err.Error())
			continue
		}
		for _, op := range viewsx.ReadOps {
			calls++
			obs, pan := viewsx.DoRead(w.Top, op, p)
			if pan != "" {
				fail(c, "panic:"+op, op, pan)
				continue
			}
			// what a confined view may answer: refusal, or the answer at base∘clamp(sp) (= base∘reduce(sp) when not climbing)
			inside := append(append([]string{}, c.Base...), c.Clamp...)
			want := viewsx.Expected(op, inside)
			ok := obs.Refused || obs == want
			if hasCrypt && (op == "read" || op == "rstream") {
				ok = obs.Refused || !strings.Contains(obs.Val, "C:") // plaintext of a raw file must never come back through a cipher layer... it cannot decrypt
			}
			if !ok {
				fail(c, "leak:"+op, op, fmt.Sprintf("answered %q; a confined view may only refuse or answer %q (node %q inside the view)", obs.Val, want.Val, strings.Join(inside, "/")))
				continue
			}
			// binding: the model's resolution
			var model viewsx.Obs
			if len(c.Rd) == 1 && c.Rd[0] == "<err>" {
				model = viewsx.Obs{Refused: true}
			} else {
				model = viewsx.Expected(op, c.Rd)
			}
			if !(hasCrypt && (op == "read" || op == "rstream")) && obs != model {
				drift[op]++
				if len(driftEx) < 3 {
					driftEx = append(driftEx, viewFailure{Key: "drift", Stack: string(st), Op: op, Sp: p, What: fmt.Sprintf("model resolution %v predicts %q, code answered %q", c.Rd, model.Val, obs.Val)})
				}
			}
		}
		// ---- a child view obtained with this spelling, then READ through: whatever it shows must live under the view's root
		calls++
		func() {
			defer func() {
				if r := recover(); r != nil {
					fail(c, "panic:sub-read", "sub-read", fmt.Sprint(r))
				}
			}()
			sub, err := w.Top.Filespace(p)
			if err != nil || sub == nil || hasCrypt {
				return
			}
			base := strings.Join(c.Base, "/")
			for _, q := range []string{"a", "f", "f/a", "a/f", "v/a", "v/f", "v/a/f", "v/f/a", "../a", "../f", "../f/a", "../a/f", "../../a", "../../f/a"} {
				q = viewsx.RenamePath(q)
				data, err := sub.ReadFile(q)
				if err != nil || !strings.HasPrefix(string(data), "C:") {
					continue
				}
				origin := strings.TrimPrefix(string(data), "C:")
				if base != "" && !strings.HasPrefix(origin, base+"/") {
					fail(c, "leak:sub-read", "sub-read", fmt.Sprintf("Filespace(%q) of the view, then ReadFile(%q), returned the content of %q, which is not under the view's root %q", p, q, origin, base))
					return
				}
			}
		}()
		after, err := w.Snapshot()
		if err != nil {
			fail(c, "snapshot", "reads", err.Error())
		} else if d := viewsx.OutsideDiff(before, after, nil); d != "" {
			fail(c, "read-mutates", "reads", d)
		}
		w.Close()
		// ---- mutating calls: a fresh world each
		for _, op := range viewsx.MutOps {
			calls++
			w, err := viewsx.Build(c.Stack, *tmp)
			if err != nil {
				return err
			}
			// fresh sources for copies INTO sp, created inside the view through the root
			base := strings.Join(c.Base, "/")
			if base != "" {
				base += "/"
			}
			w.Root.WriteFile(base+"srcfile", []byte("SRC-INSIDE"), filesystem.DefaultUnixFileMode)
			w.Root.WriteFile(base+"srcdir/x", []byte("SRC-INSIDE-X"), filesystem.DefaultUnixFileMode)
			before, err := w.Snapshot()
			if err != nil {
				w.Close()
				fail(c, "infra:snapshot", op, err.Error())
				continue
			}
			if pan := viewsx.DoMut(w.Top, op, p); pan != "" {
				fail(c, "panic:"+op, op, pan)
				w.Close()
				continue
			}
			w.Commit()
			after, err := w.Snapshot()
			if err != nil {
				fail(c, "snapshot", op, err.Error())
			} else if d := viewsx.OutsideDiff(before, after, c.Base); d != "" {
				fail(c, "escape:"+op, op, d)
			} else if hasRO {
				if d := viewsx.OutsideDiff(before, after, nil); d != "" {
					fail(c, "ro-mutates:"+op, op, d)
				}
			}
			w.Close()
		}
	}
	out := map[string]interface{}{"executed": cases, "calls": calls, "failures_by_key": byKey, "examples": examples,
		"drift": drift, "drift_examples": driftEx, "stacks": len(stacksSeen), "samples": samples}
	b, _ := json.Marshal(out)
	fmt.Println(string(b))
	return nil
}
