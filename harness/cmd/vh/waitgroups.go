package main

import (
	"bufio"
	"encoding/json"
	"flag"
	"fmt"
	"os"
	"runtime"
	"sort"
	"strings"
	"sync"
	"sync/atomic"
	"time"

	"github.com/goatcms/goatcore/app"
	"github.com/goatcms/goatcore/app/modules/commonm/commservices"
	"github.com/goatcms/goatcore/app/modules/commonm/commservices/waits"
	"github.com/goatcms/goatcore/app/scope"
	wdog "verifharness/wd"
)

func init() {
	commands["wgcases"] = cmdWGCases
	commands["wgwitness"] = cmdWGWitness
}

// wgSafe runs a call of the driver's own goroutine and returns the text of its panic, if any.
func wgSafe(f func()) (msg string) {
	defer func() {
		if r := recover(); r != nil {
			msg = fmt.Sprint(r)
		}
	}()
	f()
	return ""
}

type wgWaiter struct {
	target   string
	returned int32
	panicMsg atomic.Value
	done     chan struct{}
}

// wgcases: every complete history of WaitGroups.tla on a real ScopeWaitManager of a real scope.  Add / Done are
// made by the driver, every Wait (of a named group, or of the scope itself) in a goroutine of its own.  After
// each call the waiters the model has released must return (watchdog: lost wake-up) and the waiters the model
// keeps blocked must not have returned (observed after a short settling pause: an early return that is not
// observed is missed, never invented).
func cmdWGCases(args []string) error {
	fl := flag.NewFlagSet("wgcases", flag.ExitOnError)
	in := fl.String("in", "", "TLC output")
	fl.Parse(args)
	f, err := os.Open(*in)
	if err != nil {
		return err
	}
	defer f.Close()
	byKey := map[string]int{}
	examples := map[string][]map[string]string{}
	executed := 0
	seen := map[string]bool{}
	var samples []string
	fail := func(key, op, what string) {
		byKey[key]++
		if len(examples[key]) < 3 {
			examples[key] = append(examples[key], map[string]string{"key": key, "op": op, "backend": "waits.ScopeWaitManager", "what": what})
		}
	}
	sc := bufio.NewScanner(f)
	sc.Buffer(make([]byte, 1<<20), 1<<24)
	for sc.Scan() {
		line := sc.Text()
		if !strings.Contains(line, "\\\"k\\\":\\\"wg\\\"") {
			continue
		}
		var inner string
		if err := json.Unmarshal([]byte(line), &inner); err != nil {
			return err
		}
		if seen[inner] {
			continue
		}
		seen[inner] = true
		var c struct {
			Hist []struct {
				Op      string `json:"op"`
				Arg     string `json:"arg"`
				D       int    `json:"d"`
				Blocked []int  `json:"blocked"`
			} `json:"hist"`
		}
		if err := json.Unmarshal([]byte(inner), &c); err != nil {
			return fmt.Errorf("parse %s: %v", inner, err)
		}
		executed++
		if len(samples) < 2 {
			samples = append(samples, inner)
		}
		scp := scope.New(scope.Params{})
		wm := waits.NewWaitManager()
		mgr, err := wm.ForScope(scp)
		if err != nil {
			return err
		}
		// the manager of a scope is one object, however often it is asked for
		if again, _ := wm.ForScope(scp); again != mgr {
			fail("manager-identity", inner, "ForScope returned a different manager for the same scope")
		}
		if other, _ := wm.ForScope(scope.New(scope.Params{})); other == mgr {
			fail("manager-identity", inner, "ForScope returned the same manager for two unrelated scopes")
		}
		var ws []*wgWaiter
		cnt := map[string]int{}
		aborted := false
		for i, h := range c.Hist {
			switch h.Op {
			case "add":
				if msg := wgSafe(func() { mgr.Add(h.Arg, h.D) }); msg != "" {
					fail("panic:add", inner, fmt.Sprintf("call %d (add %s %d) panicked: %s", i+1, h.Arg, h.D, msg))
					aborted = true
				}
				cnt[h.Arg] += h.D
			case "done":
				// the model gives back only units that are out: a panic here (negative counter) means the
				// unit was counted somewhere else
				if msg := wgSafe(func() { mgr.Done(h.Arg) }); msg != "" {
					fail("panic:done", inner, fmt.Sprintf("call %d (done %s) panicked although a unit of %q is out: %s", i+1, h.Arg, h.Arg, msg))
					aborted = true
				}
				cnt[h.Arg]--
			case "wait":
				w := &wgWaiter{target: h.Arg, done: make(chan struct{})}
				ws = append(ws, w)
				go func() {
					msg := wgSafe(func() {
						if w.target == "scope" {
							scp.Wait()
						} else {
							mgr.Wait(w.target)
						}
					})
					if msg != "" {
						w.panicMsg.Store(msg)
					} else {
						atomic.StoreInt32(&w.returned, 1)
					}
					close(w.done)
				}()
			}
			if aborted {
				break
			}
			blocked := map[int]bool{}
			for _, b := range h.Blocked {
				blocked[b] = true
			}
			anyBlocked := false
			for j, w := range ws {
				if blocked[j+1] {
					anyBlocked = true
					continue
				}
				select {
				case <-w.done:
				case <-wdog.After(10 * time.Second):
					fail("lost-wakeup", inner, fmt.Sprintf("after call %d (%s %s) the waiter %d on %q has not returned although its count is zero", i+1, h.Op, h.Arg, j+1, w.target))
					aborted = true
				}
			}
			if anyBlocked {
				runtime.Gosched()
				time.Sleep(300 * time.Microsecond)
			}
			for j, w := range ws {
				if msg, _ := w.panicMsg.Load().(string); msg != "" {
					fail("panic:wait", inner, fmt.Sprintf("after call %d (%s %s) the Wait of waiter %d on %q panicked: %s", i+1, h.Op, h.Arg, j+1, w.target, msg))
					aborted = true
				}
			}
			if aborted {
				break
			}
			if anyBlocked {
				for j, w := range ws {
					if blocked[j+1] && atomic.LoadInt32(&w.returned) == 1 {
						fail("early-return", inner, fmt.Sprintf("after call %d (%s %s) the waiter %d on %q has returned although its count is positive", i+1, h.Op, h.Arg, j+1, w.target))
					}
				}
			}
		}
		if aborted {
			continue // the goroutines of this history are left behind
		}
		// wind down: every remaining unit is given back, then everyone returns and the scope can end
		names := make([]string, 0, len(cnt))
		for n := range cnt {
			names = append(names, n)
		}
		sort.Strings(names)
		for _, n := range names {
			for ; cnt[n] > 0; cnt[n]-- {
				if msg := wgSafe(func() { mgr.Done(n) }); msg != "" {
					fail("panic:done", inner, fmt.Sprintf("giving back the remaining units of %q panicked: %s", n, msg))
					aborted = true
					break
				}
			}
			if aborted {
				break
			}
		}
		if aborted {
			continue
		}
		for j, w := range ws {
			select {
			case <-w.done:
			case <-wdog.After(10 * time.Second):
				fail("lost-wakeup", inner, fmt.Sprintf("after every unit was given back the waiter %d on %q has not returned", j+1, w.target))
			}
		}
		ended := make(chan struct{})
		go func() { scp.Wait(); close(ended) }()
		select {
		case <-ended:
		case <-wdog.After(10 * time.Second):
			fail("scope-stuck", inner, "the scope still waits after every unit of every group was given back")
		}
	}
	out := map[string]interface{}{"executed": executed, "failures_by_key": byKey, "examples": examples, "samples": samples}
	bb, _ := json.Marshal(out)
	fmt.Println(string(bb))
	return nil
}

// wgwitness: the race of the "nolock" variant of WaitGroupsGet.tla on the real code.  K goroutines are the FIRST
// users of a name at the same moment (Add), a waiter joins, then every worker gives its unit back.  While a worker
// is busy neither the waiter of the group nor the scope may return; afterwards both must.  Also: K goroutines ask
// for the manager of a fresh scope at the same moment and must all get the same one.
func cmdWGWitness(args []string) error {
	fl := flag.NewFlagSet("wgwitness", flag.ExitOnError)
	n := fl.Int("n", 3000, "iterations")
	fl.Parse(args)
	runtime.GOMAXPROCS(8)
	byKey := map[string]int{}
	examples := map[string][]map[string]string{}
	fail := func(key, what string) {
		byKey[key]++
		if len(examples[key]) < 3 {
			examples[key] = append(examples[key], map[string]string{"key": key, "op": "first users of a name released together", "backend": "waits.ScopeWaitManager", "what": what})
		}
	}
	executed := 0
	for i := 0; i < *n; i++ {
		k := 2 + i%5
		scp := scope.New(scope.Params{})
		wm := waits.NewWaitManager()
		// concurrent ForScope
		mgrs := make([]commservices.ScopeWaitManager, k)
		var g sync.WaitGroup
		gate := make(chan struct{})
		for j := 0; j < k; j++ {
			g.Add(1)
			go func(j int) {
				defer g.Done()
				<-gate
				mgrs[j], _ = wm.ForScope(scp)
			}(j)
		}
		close(gate)
		g.Wait()
		split := false
		for j := 1; j < k; j++ {
			if mgrs[j] != mgrs[0] {
				fail("manager-identity", fmt.Sprintf("%d goroutines asked for the manager of one scope at once and got different managers", k))
				split = true
				break
			}
		}
		if split {
			executed++
			continue // units added through one manager and given back through another would only crash the driver
		}
		mgr := mgrs[0]
		// concurrent first Add
		name := fmt.Sprintf("n%d", i%3)
		gate2 := make(chan struct{})
		var added sync.WaitGroup
		for j := 0; j < k; j++ {
			added.Add(1)
			go func(j int) {
				defer added.Done()
				<-gate2
				mgrs[j].Add(name, 1)
			}(j)
		}
		close(gate2)
		added.Wait()
		executed++
		var gret, sret int32
		gdone, sdone := make(chan struct{}), make(chan struct{})
		go func() { mgr.Wait(name); atomic.StoreInt32(&gret, 1); close(gdone) }()
		go func() { app.Scope(scp).Wait(); atomic.StoreInt32(&sret, 1); close(sdone) }()
		given := 0
		for j := 0; j < k; j++ {
			runtime.Gosched()
			if j == k-1 {
				time.Sleep(200 * time.Microsecond)
			}
			if atomic.LoadInt32(&gret) == 1 {
				fail("early-return", fmt.Sprintf("Wait(%q) returned while %d of %d workers were still busy", name, k-j, k))
				break
			}
			if atomic.LoadInt32(&sret) == 1 {
				fail("early-return", fmt.Sprintf("the scope's Wait returned while %d of %d workers were still busy", k-j, k))
				break
			}
			mgr.Done(name)
			given++
		}
		for ; given < k; given++ {
			mgr.Done(name)
		}
		for _, ch := range []chan struct{}{gdone, sdone} {
			select {
			case <-ch:
			case <-wdog.After(10 * time.Second):
				fail("lost-wakeup", "a waiter has not returned after every worker gave its unit back")
			}
		}
	}
	bb, _ := json.Marshal(map[string]interface{}{"executed": executed, "failures_by_key": byKey, "examples": examples})
	fmt.Println(string(bb))
	return nil
}
