package main

import (
	"bufio"
	"bytes"
	"encoding/json"
	"flag"
	"fmt"
	htmltemplate "html/template"
	"os"
	"sort"
	"strings"
	"sync"
	texttemplate "text/template"
	"text/template/parse"
	"time"

	"github.com/goatcms/goatcore/filesystem"
	"github.com/goatcms/goatcore/filesystem/filespace/memfs"
	"github.com/goatcms/goatcore/goathtml/ghprovider"
	"github.com/goatcms/goatcore/goattext/gtprovider"
	wdog "verifharness/wd"
)

func init() {
	commands["tplcases"] = cmdTplCases
	commands["tplrace"] = cmdTplRace
}

type tplReq struct {
	What string `json:"what"`
	L    string `json:"l"`
	V    string `json:"v"`
}

type tplCase struct {
	Hdef []string            `json:"hdef"`
	Ldef map[string][]string `json:"ldef"`
	Vdef map[string][]string `json:"vdef"`
	Lbad []string            `json:"lbad"` // layouts with a file that does not parse
	Reqs []tplReq            `json:"reqs"`
	Want []map[string]string `json:"want"`
}

func defsFile(layer, who string, names []string) string {
	var b strings.Builder
	sort.Strings(names)
	for _, n := range names {
		b.WriteString(fmt.Sprintf("{{define %q}}%s:%s:%s{{end}}\n", n, layer, who, n))
	}
	return b.String()
}

func writeTemplateFiles(c *tplCase) filesystem.Filespace {
	fs, _ := memfs.NewFilespace()
	if len(c.Hdef) > 0 {
		fs.WriteFile("helpers/h.tmpl", []byte(defsFile("H", "h", c.Hdef)), filesystem.DefaultUnixFileMode)
		fs.WriteFile("helpers/ignored.txt", []byte("{{define \"N1\"}}WRONG{{end}}"), filesystem.DefaultUnixFileMode)
	}
	for l, d := range c.Ldef {
		if len(d) > 0 {
			fs.WriteFile("layouts/"+l+"/main.tmpl", []byte(defsFile("L", l, d)), filesystem.DefaultUnixFileMode)
		}
	}
	for v, d := range c.Vdef {
		if len(d) > 0 {
			fs.WriteFile("views/"+v+"/main.tmpl", []byte(defsFile("V", v, d)), filesystem.DefaultUnixFileMode)
		}
	}
	for _, l := range c.Lbad {
		fs.WriteFile("layouts/"+l+"/zz_broken.tmpl", []byte("{{define \"N1\"}}never closed"), filesystem.DefaultUnixFileMode)
	}
	return fs
}

// inspect returns name -> body of a template object WITHOUT executing it (an executed html template cannot be cloned)
func inspectTree(lookup func(string) *parse.Tree) map[string]string {
	out := map[string]string{}
	for _, n := range []string{"N1", "N2"} {
		t := lookup(n)
		if t == nil || t.Root == nil {
			out[n] = "-"
		} else {
			out[n] = t.Root.String()
		}
	}
	return out
}

type handedTpl struct {
	inspect func() map[string]string
	exec    func(name string) (string, error)
	isView  bool
}

func cmdTplCases(args []string) error {
	fl := flag.NewFlagSet("tplcases", flag.ExitOnError)
	in := fl.String("in", "", "TLC output")
	kind := fl.String("kind", "html", "html|text")
	cached := fl.Bool("cached", true, "caching on")
	fl.Parse(args)
	f, err := os.Open(*in)
	if err != nil {
		return err
	}
	defer f.Close()
	byKey := map[string]int{}
	examples := map[string][]map[string]string{}
	executed := 0
	var samples []string
	fail := func(key, inner, what string) {
		byKey[key]++
		if len(examples[key]) < 3 {
			examples[key] = append(examples[key], map[string]string{"key": key, "op": inner, "backend": fmt.Sprintf("%s cached=%v", *kind, *cached), "what": what})
		}
	}
	sc := bufio.NewScanner(f)
	sc.Buffer(make([]byte, 1<<20), 1<<24)
	hangs := 0
	for sc.Scan() && hangs < 3 { // (every hanging request costs its watchdog: three are evidence enough)
		line := sc.Text()
		if !strings.Contains(line, "\\\"k\\\":\\\"tpl\\\"") {
			continue
		}
		var inner string
		if err := json.Unmarshal([]byte(line), &inner); err != nil {
			return err
		}
		var c tplCase
		if err := json.Unmarshal([]byte(inner), &c); err != nil {
			return fmt.Errorf("parse: %v %s", err, inner[:200])
		}
		executed++
		if len(samples) < 2 && len(c.Reqs) == 3 {
			samples = append(samples, inner)
		}
		fs := writeTemplateFiles(&c)
		var handed []handedTpl
		ok := true
		var hp *ghprovider.Provider
		var tp *gtprovider.Provider
		if *kind == "html" {
			hp = ghprovider.NewProvider(fs, "helpers", "layouts/{name}", "views/{name}", ".tmpl", nil, *cached)
		} else {
			tp = gtprovider.NewProvider(fs, "helpers", "layouts/{name}", "views/{name}", ".tmpl", nil, *cached)
		}
		for i, rq := range c.Reqs {
			var h handedTpl
			var rerr error
			reqDone := make(chan struct{})
			go func() {
				defer close(reqDone)
				defer func() {
					if r := recover(); r != nil {
						rerr = fmt.Errorf("panic: %v", r)
					}
				}()
				if hp != nil {
					var t *htmltemplate.Template
					if rq.What == "layout" {
						t, rerr = hp.Layout(rq.L)
					} else {
						t, rerr = hp.View(rq.L, rq.V)
					}
					if rerr == nil {
						h = handedTpl{isView: rq.What == "view",
							inspect: func() map[string]string {
								return inspectTree(func(n string) *parse.Tree {
									if x := t.Lookup(n); x != nil {
										return x.Tree
									}
									return nil
								})
							},
							exec: func(n string) (string, error) {
								var b bytes.Buffer
								e := t.ExecuteTemplate(&b, n, nil)
								return b.String(), e
							}}
					}
				} else {
					var t *texttemplate.Template
					if rq.What == "layout" {
						t, rerr = tp.Layout(rq.L)
					} else {
						t, rerr = tp.View(rq.L, rq.V)
					}
					if rerr == nil {
						h = handedTpl{isView: rq.What == "view",
							inspect: func() map[string]string {
								return inspectTree(func(n string) *parse.Tree {
									if x := t.Lookup(n); x != nil {
										return x.Tree
									}
									return nil
								})
							},
							exec: func(n string) (string, error) {
								var b bytes.Buffer
								e := t.ExecuteTemplate(&b, n, nil)
								return b.String(), e
							}}
					}
				}
			}()
			select {
			case <-reqDone:
			case <-wdog.After(10 * time.Second):
				// a request that never returns (a lock left behind by an earlier, failing request ...): the goroutine is
				// abandoned, the history ends here
				fail("hang:request", inner, fmt.Sprintf("request %d %+v did not return within 10 s (earlier requests of this history: %+v)", i, rq, c.Reqs[:i]))
				ok = false
				hangs++
			}
			if !ok {
				break
			}
			if c.Want[i]["N1"] == "ERR" {
				// the layout does not load: the request must fail, the first time and every time
				if rerr == nil {
					fail("load-error-not-reported", inner, fmt.Sprintf("request %d %+v went through a layout whose file does not parse and returned no error", i, rq))
					ok = false
					break
				}
				wantErr := c.Want[i]
				handed = append(handed, handedTpl{inspect: func() map[string]string { return wantErr }})
				continue
			}
			if rerr != nil {
				fail("request-error", inner, fmt.Sprintf("request %d %+v failed: %v", i, rq, rerr))
				ok = false
				break
			}
			handed = append(handed, h)
			// after every request EVERY template handed out so far must show exactly its own layering
			for j, hh := range handed {
				got := hh.inspect()
				for n, want := range c.Want[j] {
					if got[n] != want {
						key := "layering"
						if j < i {
							key = "isolation"
						}
						fail(key, inner, fmt.Sprintf("after request %d %+v the template of request %d %+v defines %s as %q, specification %q", i, rq, j, c.Reqs[j], n, got[n], want))
						ok = false
					}
				}
			}
			if !ok {
				break
			}
			// a view is rendered as soon as it has been handed out (normal use); that must not disturb any later
			// request (an html template that has been executed can no longer be cloned: views must be clones)
			if h.isView {
				for n, want := range c.Want[i] {
					if want == "-" {
						continue
					}
					if out, err := h.exec(n); err != nil || out != want {
						fail("render", inner, fmt.Sprintf("view of request %d renders %s as %q (err %v), specification %q", i, n, out, err, want))
						ok = false
					}
				}
			}
			if !ok {
				break
			}
		}
		if !ok {
			continue
		}
		// and once more at the end: every view renders its own layering
		for j, hh := range handed {
			if !hh.isView {
				continue
			}
			for n, want := range c.Want[j] {
				out, err := hh.exec(n)
				if want == "-" {
					if err == nil {
						fail("renders-undefined", inner, fmt.Sprintf("view of request %d renders undefined name %s as %q", j, n, out))
					}
				} else if err != nil || out != want {
					fail("render", inner, fmt.Sprintf("view of request %d renders %s as %q (err %v), specification %q", j, n, out, err, want))
				}
			}
		}
	}
	out := map[string]interface{}{"executed": executed, "failures_by_key": byKey, "examples": examples, "samples": samples}
	b, _ := json.Marshal(out)
	fmt.Println(string(b))
	return nil
}

// tplrace: concurrent FIRST use of cached and uncached providers by many goroutines that ask for views AND, directly,
// for layouts (the three layers have their own locks).  Every template handed out must show exactly its own
// layering: its definitions of N1 / N2, all extra definitions of its own view files and none of another view's.
// Run in a subprocess: a runtime map fault kills the process (exit status 2), which the parent reports.
func cmdTplRace(args []string) error {
	fl := flag.NewFlagSet("tplrace", flag.ExitOnError)
	trials := fl.Int("trials", 300, "trials")
	g := fl.Int("g", 16, "goroutines")
	fl.Parse(args)
	c := &tplCase{Hdef: []string{"N1"}, Ldef: map[string][]string{"L1": {"N1", "N2"}, "L2": {"N2"}}, Vdef: map[string][]string{"V1": {"N2"}, "V2": {"N1", "N2"}}}
	wantN := map[string][2]string{ // layer -> N1, N2
		"L1": {"L:L1:N1", "L:L1:N2"}, "L2": {"H:h:N1", "L:L2:N2"},
		"L1/V1": {"L:L1:N1", "V:V1:N2"}, "L2/V1": {"H:h:N1", "V:V1:N2"}, "L1/V2": {"V:V2:N1", "V:V2:N2"}, "L2/V2": {"V:V2:N1", "V:V2:N2"},
	}
	const extra = 6
	mismatches := 0
	first := ""
	var mu sync.Mutex
	bad := func(what string) {
		mu.Lock()
		mismatches++
		if first == "" {
			first = what
		}
		mu.Unlock()
	}
	for t := 0; t < *trials; t++ {
		fs := writeTemplateFiles(c)
		// several files per view: a build walks them one by one
		for _, v := range []string{"V1", "V2"} {
			for k := 0; k < extra; k++ {
				fs.WriteFile(fmt.Sprintf("views/%s/x%d.tmpl", v, k), []byte(fmt.Sprintf("{{define \"X%s%d\"}}X:%s:%d{{end}}", v, k, v, k)), filesystem.DefaultUnixFileMode)
			}
		}
		cached := t%2 == 0
		hp := ghprovider.NewProvider(fs, "helpers", "layouts/{name}", "views/{name}", ".tmpl", nil, cached)
		tp := gtprovider.NewProvider(fs, "helpers", "layouts/{name}", "views/{name}", ".tmpl", nil, cached)
		start := make(chan struct{})
		var wg sync.WaitGroup
		for i := 0; i < *g; i++ {
			wg.Add(1)
			go func(i int) {
				defer wg.Done()
				<-start
				l := []string{"L1", "L2"}[i%2]
				v := []string{"V1", "V2"}[(i/2)%2]
				html := i%4 < 2
				direct := (i/4)%2 == 1 // asks for the OTHER layout directly, not for a view
				for k := 0; k < 3; k++ {
					var exec func(name string) (string, error)
					var lookup func(name string) bool
					key := l + "/" + v
					var err error
					if direct {
						key = l
					}
					if html {
						var tt *htmltemplate.Template
						if direct {
							tt, err = hp.Layout(l)
						} else {
							tt, err = hp.View(l, v)
						}
						if err == nil {
							exec = func(n string) (string, error) {
								var b bytes.Buffer
								e := tt.ExecuteTemplate(&b, n, nil)
								return b.String(), e
							}
							lookup = func(n string) bool { return tt.Lookup(n) != nil }
						}
					} else {
						var tt *texttemplate.Template
						if direct {
							tt, err = tp.Layout(l)
						} else {
							tt, err = tp.View(l, v)
						}
						if err == nil {
							exec = func(n string) (string, error) {
								var b bytes.Buffer
								e := tt.ExecuteTemplate(&b, n, nil)
								return b.String(), e
							}
							lookup = func(n string) bool { return tt.Lookup(n) != nil }
						}
					}
					if err != nil {
						bad(fmt.Sprintf("request %s failed: %v", key, err))
						continue
					}
					// which definitions it has (looked up BEFORE executing: an executed html layout can no longer be cloned)
					for _, ov := range []string{"V1", "V2"} {
						for x := 0; x < extra; x++ {
							name := fmt.Sprintf("X%s%d", ov, x)
							has := lookup(name)
							should := !direct && ov == v
							if has != should {
								bad(fmt.Sprintf("template %s (html=%v cached=%v): definition %s present=%v, specification %v", key, html, cached, name, has, should))
							}
						}
					}
					if direct {
						continue // layouts are not executed: the provider clones them for views
					}
					for ni, n := range []string{"N1", "N2"} {
						if got, e := exec(n); e != nil || got != wantN[key][ni] {
							bad(fmt.Sprintf("view %s (html=%v cached=%v) renders %s as %q (err %v), specification %q", key, html, cached, n, got, e, wantN[key][ni]))
						}
					}
				}
			}(i)
		}
		close(start)
		allDone := make(chan struct{})
		go func() { wg.Wait(); close(allDone) }()
		select {
		case <-allDone:
		case <-wdog.After(30 * time.Second):
			bad(fmt.Sprintf("trial %d: the %d concurrent callers did not all return within 30 s", t, *g))
			t = *trials // the abandoned goroutines keep the provider: stop here
		}
	}
	b, _ := json.Marshal(map[string]interface{}{"trials": *trials, "goroutines": *g, "mismatches": mismatches, "first": first})
	fmt.Println(string(b))
	return nil
}
