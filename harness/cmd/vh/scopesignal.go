package main

import (
	"bufio"
	"encoding/json"
	"flag"
	"fmt"
	"math/rand"
	"os"
	"runtime"
	"strings"
	"sync"
	"time"

	"verifharness/scopex"
)

func init() {
	commands["signalscript"] = cmdSignalScript
	commands["signaltrace"] = cmdSignalTrace
}

func cmdSignalScript(args []string) error {
	fl := flag.NewFlagSet("signalscript", flag.ExitOnError)
	rounds := fl.Int("rounds", 3, "repetitions of every script")
	fl.Parse(args)
	byKey := map[string]int{}
	examples := map[string][]map[string]string{}
	executed := 0
	var samples []interface{}
	add := func(key, op, what string) {
		byKey[key]++
		if len(examples[key]) < 3 {
			examples[key] = append(examples[key], map[string]string{"key": key, "op": op, "backend": "scope", "what": what})
		}
	}
	mixes := [][]string{{"stop", "stop"}, {"kill", "kill"}, {"append", "append"}, {"append", "kill", "stop"},
		{"stop", "stop", "stop", "stop"}, {"kill", "append", "kill", "append"}, {"append", "append", "append", "append", "append", "append", "append", "append"},
		{"stop", "kill", "append", "stop", "kill", "append", "stop", "kill"}}
	for _, kind := range []string{"ctx", "isolated", "scope", "childshared", "childisolated"} {
		for _, progs := range mixes {
			for r := 0; r < *rounds; r++ {
				res, err := scopex.RunSignalScript(kind, progs)
				if err != nil {
					return err
				}
				executed++
				op := fmt.Sprintf("%s %v", kind, progs)
				if len(samples) < 2 {
					samples = append(samples, map[string]interface{}{"script": op, "result": res})
				}
				b, _ := json.Marshal(res)
				if len(res.Panics) > 0 {
					add("panic:"+kind, op, string(b))
				}
				if res.Errors != res.Expected {
					add("errors-lost:"+kind, op, fmt.Sprintf("%d errors appended, %d reported: %s", res.Expected, res.Errors, b))
				}
				if !res.DoneFired {
					add("done-not-fired:"+kind, op, string(b))
				}
			}
		}
	}
	for _, how := range []string{"kill", "stop", "error"} {
		for _, racers := range []int{0, 0, 2, 8} {
			// racing creators: many repetitions, the parent's end placed at 0 .. 300 microseconds into their activity
			reps := 1
			if racers > 0 {
				reps = 80
			}
			for rep := 0; rep < reps; rep++ {
				executed++
				panics, closed := scopex.RunChildOfDone(how, racers, time.Duration(rep*4)*time.Microsecond)
				op := fmt.Sprintf("child of a parent ended by %s, %d racing creators (repetition %d)", how, racers, rep)
				if len(panics) > 0 {
					add("panic:child-of-done", op, fmt.Sprint(panics))
				}
				if !closed {
					add("hang:parent-close", op, "closing the parent did not return within 10 s")
					break
				}
			}
		}
	}
	// a scope that is ended while registered tasks are still running: Wait / Close cover them
	for _, how := range []string{"kill", "stop", "error"} {
		for _, useClose := range []bool{false, true} {
			for rep := 0; rep < 5; rep++ {
				executed++
				if problems := scopex.RunWaitCoversTasks(how, useClose, 1+rep); len(problems) > 0 {
					name := map[bool]string{false: "Wait", true: "Close"}[useClose]
					add("tasks-of-a-done-scope:"+name, fmt.Sprintf("scope ended by %s with %d running tasks, then %s", how, 1+rep, name), name+" "+strings.Join(problems, "; "))
				}
			}
		}
	}
	out := map[string]interface{}{"executed": executed, "failures_by_key": byKey, "examples": examples, "samples": samples}
	b, _ := json.Marshal(out)
	fmt.Println(string(b))
	return nil
}

// signaltrace: free-running storms; start/end events of every call for Trace_ScopeSignal
func cmdSignalTrace(args []string) error {
	fl := flag.NewFlagSet("signaltrace", flag.ExitOnError)
	out := fl.String("out", "", "ndjson")
	n := fl.Int("n", 50, "storms")
	seed := fl.Int64("seed", 1, "seed")
	fl.Parse(args)
	f, err := os.Create(*out)
	if err != nil {
		return err
	}
	bw := bufio.NewWriterSize(f, 1<<20)
	r := rand.New(rand.NewSource(*seed))
	var mu sync.Mutex
	emit := func(ev map[string]interface{}) {
		b, _ := json.Marshal(ev)
		bw.Write(b)
		bw.WriteByte('\n')
	}
	kinds := []string{"ctx", "isolated", "scope", "childshared", "childisolated"}
	procs := []int{1, 2, 4, runtime.NumCPU()}
	for i := 0; i < *n; i++ {
		runtime.GOMAXPROCS(procs[i%len(procs)])
		kind := kinds[i%len(kinds)]
		t, err := scopex.NewTarget(kind)
		if err != nil {
			return err
		}
		g := []int{2, 3, 4, 8, 16, 64}[r.Intn(6)]
		ops := 1 + r.Intn(6)
		emit(map[string]interface{}{"ev": "reset", "kind": kind, "goroutines": g})
		var wg sync.WaitGroup
		for t0 := 0; t0 < g; t0++ {
			wg.Add(1)
			lr := rand.New(rand.NewSource(r.Int63()))
			go func(id int, lr *rand.Rand) {
				defer wg.Done()
				for k := 0; k < ops; k++ {
					op := []string{"append", "append", "kill", "stop", "isdone", "errors", "errors"}[lr.Intn(7)]
					nerr := 0
					if op == "append" {
						nerr = 1 + lr.Intn(3)
					} else if op == "kill" {
						nerr = 1
					}
					mu.Lock()
					emit(map[string]interface{}{"ev": "start", "t": id, "op": op, "n": nerr})
					mu.Unlock()
					res := 0
					panicked := false
					func() {
						defer func() {
							if rec := recover(); rec != nil {
								panicked = true
							}
						}()
						switch op {
						case "append":
							errs := make([]error, nerr)
							for j := range errs {
								errs[j] = fmt.Errorf("e-%d-%d-%d", id, k, j)
							}
							t.Ctx.AppendError(errs...)
						case "kill":
							t.Ctx.Kill()
						case "stop":
							t.Ctx.Stop()
						case "isdone":
							if t.Ctx.IsDone() {
								res = 1
							}
						case "errors":
							// the list accessor and the cumulative one (Err) report the same errors -- at every moment,
							// also when Err has been asked before
							if k%2 == 0 || t.ErrOf == nil {
								res = len(t.Errors())
							} else {
								res = scopex.LeafCount(t.ErrOf())
							}
						}
					}()
					mu.Lock()
					emit(map[string]interface{}{"ev": "end", "t": id, "op": op, "n": nerr, "res": res, "panic": panicked})
					mu.Unlock()
					if lr.Intn(3) == 0 {
						runtime.Gosched()
					}
				}
			}(t0, lr)
		}
		wg.Wait()
		done := false
		select {
		case <-t.Done():
			done = true
		case <-time.After(time.Millisecond):
		}
		nfinal := len(t.Errors())
		if t.ErrOf != nil {
			if viaErr := scopex.LeafCount(t.ErrOf()); viaErr != nfinal {
				nfinal = viaErr // the trace specification will reject the disagreement with the stored count
			}
		}
		emit(map[string]interface{}{"ev": "final", "errors": nfinal, "done": done})
		if t.Close != nil {
			t.Close()
		}
	}
	runtime.GOMAXPROCS(runtime.NumCPU())
	bw.Flush()
	f.Close()
	b, _ := json.Marshal(map[string]interface{}{"storms": *n})
	fmt.Println(string(b))
	return nil
}
