package main

import (
	"encoding/json"
	"flag"
	"fmt"
	"runtime"
	"sync"
	"time"

	"github.com/goatcms/goatcore/app"
	"github.com/goatcms/goatcore/app/modules/commonm/commservices/envs"
	"github.com/goatcms/goatcore/app/modules/commonm/commservices/waits"
	"github.com/goatcms/goatcore/app/modules/pipelinem/pipservices/tasks"
	"github.com/goatcms/goatcore/app/scope"
)

func init() { commands["getorcreate"] = cmdGetOrCreate }

type yieldScope struct{ app.Scope }

func pause() {
	runtime.Gosched()
	time.Sleep(20 * time.Microsecond)
}
func (y *yieldScope) Value(key interface{}) interface{} {
	v := y.Scope.Value(key)
	pause()
	return v
}
func (y *yieldScope) SetValue(key, v interface{}) {
	y.Scope.SetValue(key, v)
	pause()
}
func (y *yieldScope) LockData() app.DataScopeLocker {
	pause()
	return &yieldLocker{y.Scope.LockData()}
}

type yieldLocker struct{ app.DataScopeLocker }

func (l *yieldLocker) Value(key interface{}) interface{} {
	v := l.DataScopeLocker.Value(key)
	pause()
	return v
}

// getorcreate: the three get-or-create services built on the data lock must hand
// one instance to all concurrent first callers (a lost update = two instances).
func cmdGetOrCreate(args []string) error {
	fl := flag.NewFlagSet("getorcreate", flag.ExitOnError)
	rounds := fl.Int("rounds", 200, "rounds per service")
	fl.Parse(args)
	byKey := map[string]int{}
	examples := map[string][]map[string]string{}
	executed := 0
	services := map[string]func(app.Scope) (interface{}, error){
		"envs.Unit.Envs": func(s app.Scope) (interface{}, error) { return (&envs.Unit{}).Envs(s) },
		"waits.WaitManager.ForScope": func(s app.Scope) (interface{}, error) {
			return waits.NewWaitManager().ForScope(s)
		},
		"tasks.Unit.FromScope": func(s app.Scope) (interface{}, error) { return tasks.NewUnit(tasks.UnitDeps{}).FromScope(s) },
	}
	for name, get := range services {
		for r := 0; r < *rounds; r++ {
			executed++
			root := scope.New(scope.Params{})
			var target app.Scope = root
			if r%2 == 1 {
				target = scope.NewChild(root, scope.ChildParams{})
			}
			if r%3 != 0 {
				// a scope that yields the processor after every data-scope call: it widens every window between
				// a read and the locked section that should contain it (inert for code that reads under the lock)
				target = &yieldScope{Scope: target}
			}
			g := []int{2, 4, 8, 32}[r%4]
			res := make([]interface{}, g)
			start := make(chan struct{})
			var wg sync.WaitGroup
			var pmu sync.Mutex
			panics := 0
			for i := 0; i < g; i++ {
				wg.Add(1)
				go func(i int) {
					defer wg.Done()
					defer func() {
						if recover() != nil {
							pmu.Lock()
							panics++
							pmu.Unlock()
						}
					}()
					<-start
					if i%3 == 0 {
						runtime.Gosched()
					}
					v, _ := get(target)
					res[i] = v
				}(i)
			}
			close(start)
			wg.Wait()
			distinct := map[string]bool{}
			for _, v := range res {
				distinct[fmt.Sprintf("%p", v)] = true
			}
			if panics > 0 || len(distinct) != 1 {
				key := "getorcreate:" + name
				byKey[key]++
				if len(examples[key]) < 2 {
					examples[key] = append(examples[key], map[string]string{"key": key, "op": name, "backend": fmt.Sprintf("%d goroutines", g),
						"what": fmt.Sprintf("%d distinct instances handed out, %d panics", len(distinct), panics)})
				}
			}
		}
	}
	out := map[string]interface{}{"executed": executed, "failures_by_key": byKey, "examples": examples}
	b, _ := json.Marshal(out)
	fmt.Println(string(b))
	return nil
}
