package main

import (
	"bufio"
	"encoding/json"
	"flag"
	"fmt"
	"os"
	"sort"
	"strings"
	"time"
	wdog "verifharness/wd"

	"verifharness/pipx"
)

func init() { commands["termscript"] = cmdTermScript }

type termOutcome struct {
	Executed []int  `json:"executed"`
	Result   string `json:"result"`
	Errlines int    `json:"errlines"`
	AppErr   bool   `json:"apperr"`
}

func (o termOutcome) key(withErrlines bool) string {
	if withErrlines {
		return fmt.Sprintf("%v|%s|%d|%v", o.Executed, o.Result, o.Errlines, o.AppErr)
	}
	return fmt.Sprintf("%v|%s|%v", o.Executed, o.Result, o.AppErr)
}

// termscript: for every (script, mode) of TermLoop.tla the model's finished behaviours give the SET of allowed
// outcomes (commands executed in order, result of the run, error state of the application); a real application
// runs the script through its `terminal` command several times (input with and without a final newline) and
// every observed outcome must be in that set.
func cmdTermScript(args []string) error {
	fl := flag.NewFlagSet("termscript", flag.ExitOnError)
	in := fl.String("in", "", "TLC output")
	reps := fl.Int("reps", 3, "runs per script, mode and input ending")
	fl.Parse(args)
	f, err := os.Open(*in)
	if err != nil {
		return err
	}
	defer f.Close()
	type key struct {
		script string
		strict bool
	}
	allowed := map[key]map[string]bool{}
	scripts := map[key][]string{}
	sc := bufio.NewScanner(f)
	sc.Buffer(make([]byte, 1<<20), 1<<24)
	for sc.Scan() {
		line := sc.Text()
		if !strings.Contains(line, "\\\"k\\\":\\\"term\\\"") {
			continue
		}
		var inner string
		if err := json.Unmarshal([]byte(line), &inner); err != nil {
			return err
		}
		var c struct {
			Script []string `json:"script"`
			Strict bool     `json:"strict"`
			termOutcome
		}
		if err := json.Unmarshal([]byte(inner), &c); err != nil {
			return fmt.Errorf("parse %s: %v", inner, err)
		}
		k := key{strings.Join(c.Script, ","), c.Strict}
		if allowed[k] == nil {
			allowed[k] = map[string]bool{}
			scripts[k] = c.Script
		}
		allowed[k][c.termOutcome.key(false)] = true
	}
	byKey := map[string]int{}
	examples := map[string][]map[string]string{}
	executed := 0
	seenOutcomes := 0
	afterExit := 0
	var samples []string
	fail := func(k, op, what string) {
		byKey[k]++
		if len(examples[k]) < 3 {
			examples[k] = append(examples[k], map[string]string{"key": k, "op": op, "backend": "terminal", "what": what})
		}
	}
	var keys []key
	for k := range allowed {
		keys = append(keys, k)
	}
	sort.Slice(keys, func(i, j int) bool {
		if keys[i].script != keys[j].script {
			return keys[i].script < keys[j].script
		}
		return !keys[i].strict && keys[j].strict
	})
	devnull, _ := os.OpenFile(os.DevNull, os.O_WRONLY, 0)
	for _, k := range keys {
		script := scripts[k]
		observed := map[string]bool{}
		for rep := 0; rep < *reps*2; rep++ {
			var text strings.Builder
			for i, c := range script {
				switch c {
				case "ok", "fail":
					fmt.Fprintf(&text, "probe --id=c%d", i+1)
				case "exit":
					text.WriteString("exit")
				default:
					text.WriteString("nosuchcommand")
				}
				if i < len(script)-1 || rep%2 == 0 {
					text.WriteString("\n")
				}
				if rep%3 == 2 && i < len(script)-1 {
					text.WriteString("\n   \n") // empty lines are skipped
				}
			}
			mode := "--strict=false"
			if k.strict {
				mode = "--strict=true"
			}
			var log strings.Builder
			wd, err := pipx.NewWorld(&log, text.String(), []string{"appname", "terminal", mode, "--silent=true"})
			if err != nil {
				return err
			}
			for i, c := range script {
				if c == "fail" {
					wd.SetProbe(fmt.Sprintf("c%d", i+1), true, 0)
				}
			}
			done := make(chan error, 1)
			go func() { done <- wd.Boot.Run() }()
			var runErr error
			select {
			case runErr = <-done:
			case <-wdog.After(15 * time.Second):
				fail("hang", fmt.Sprintf("%v strict=%v", script, k.strict), "the terminal did not finish the script within 15 s")
				continue
			}
			executed++
			var o termOutcome
			o.Executed = []int{}
			for _, l := range strings.Split(log.String(), "\n") {
				var ev struct {
					Ev string `json:"ev"`
					ID string `json:"id"`
				}
				if json.Unmarshal([]byte(l), &ev) == nil && ev.Ev == "begin" {
					var idx int
					fmt.Sscanf(ev.ID, "c%d", &idx)
					o.Executed = append(o.Executed, idx)
				}
			}
			// commands that are not probes (exit, unknown) leave no event: the model's executed list is projected likewise
			o.Result = "nil"
			if runErr != nil {
				o.Result = "err"
			}
			o.AppErr = len(wd.App.Scopes().App().Errors()) > 0
			got := o.key(false)
			observed[got] = true
			ok := false
			for a := range allowed[k] {
				if projectKey(a, script) == got {
					ok = true
				}
			}
			if !ok {
				var al []string
				for a := range allowed[k] {
					al = append(al, projectKey(a, script))
				}
				sort.Strings(al)
				fail("outcome", fmt.Sprintf("script %v strict=%v", script, k.strict), fmt.Sprintf("observed %s (probes executed|result|application failed), the specification allows %v; input %q", got, al, text.String()))
			}
			// how often the race after `exit` shows
			for i, c := range script {
				if c == "exit" {
					for _, e := range o.Executed {
						if e > i+1 {
							afterExit++
						}
					}
					break
				}
			}
		}
		seenOutcomes += len(observed)
		if len(samples) < 2 && len(script) >= 3 {
			b, _ := json.Marshal(map[string]interface{}{"script": script, "strict": k.strict, "allowed": len(allowed[k]), "observed": len(observed)})
			samples = append(samples, string(b))
		}
	}
	devnull.Close()
	out := map[string]interface{}{"executed": executed, "failures_by_key": byKey, "examples": examples, "samples": samples,
		"scripts_x_modes": len(keys), "distinct_outcomes_observed": seenOutcomes, "commands_run_after_exit": afterExit}
	b, _ := json.Marshal(out)
	fmt.Println(string(b))
	return nil
}

// projectKey drops from the model's executed list the commands that are no probes (exit, unknown command)
func projectKey(k string, script []string) string {
	parts := strings.SplitN(k, "|", 2)
	var idx []int
	for _, f := range strings.Fields(strings.Trim(parts[0], "[]")) {
		var i int
		fmt.Sscanf(f, "%d", &i)
		if i >= 1 && i <= len(script) && (script[i-1] == "ok" || script[i-1] == "fail") {
			idx = append(idx, i)
		}
	}
	if idx == nil {
		idx = []int{}
	}
	return fmt.Sprintf("%v|%s", idx, parts[1])
}
