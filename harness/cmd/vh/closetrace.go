package main

import (
	"bufio"
	"encoding/json"
	"flag"
	"fmt"
	"math/rand"
	"os"
	"runtime"

	"verifharness/scopex"
)

func init() { commands["closetrace"] = cmdCloseTrace }

func cmdCloseTrace(args []string) error {
	fl := flag.NewFlagSet("closetrace", flag.ExitOnError)
	out := fl.String("out", "", "ndjson")
	n := fl.Int("n", 100, "scenarios")
	seed := fl.Int64("seed", 1, "seed")
	fl.Parse(args)
	f, err := os.Create(*out)
	if err != nil {
		return err
	}
	bw := bufio.NewWriterSize(f, 1<<20)
	r := rand.New(rand.NewSource(*seed))
	events := 0
	procs := []int{1, 2, 4, runtime.NumCPU()}
	for i := 0; i < *n; i++ {
		runtime.GOMAXPROCS(procs[i%len(procs)])
		n, hung := scopex.RunCloseScenario(r, bw)
		events += n
		if hung {
			break // goroutines of the hung scenario are still parked; stop here, the validator rejects the "hang" line
		}
	}
	runtime.GOMAXPROCS(runtime.NumCPU())
	bw.Flush()
	f.Close()
	b, _ := json.Marshal(map[string]interface{}{"scenarios": *n, "events": events})
	fmt.Println(string(b))
	return nil
}
