package main

import (
	"bufio"
	"encoding/json"
	"errors"
	"flag"
	"fmt"
	"os"
	"strings"
	"time"
	wdog "verifharness/wd"

	"github.com/goatcms/goatcore/app"
	"github.com/goatcms/goatcore/app/scope"
	"github.com/goatcms/goatcore/app/scope/eventscope"
)

func init() {
	commands["evcases"] = cmdEvCases
	commands["evwitness"] = cmdEvWitness
}

// evwitness: the schedule of EventScopeLock.tla on the real code -- a listener that registers another
// listener on the scope being triggered (bare event scope, child event scope, full scope) must return.
func cmdEvWitness(args []string) error {
	byKey := map[string]int{}
	examples := map[string][]map[string]string{}
	executed := 0
	mk := map[string]func() app.EventScope{
		"eventscope.New":      func() app.EventScope { return eventscope.New() },
		"eventscope.NewChild": func() app.EventScope { return eventscope.NewChild(eventscope.New()) },
		"scope.New":           func() app.EventScope { return scope.New(scope.Params{}) },
		"scope.NewChild":      func() app.EventScope { return scope.NewChild(scope.New(scope.Params{}), scope.ChildParams{}) },
	}
	for name, f := range mk {
		executed++
		es := f()
		second := 0
		es.On(7001, func(interface{}) error {
			es.On(7001, func(interface{}) error { second++; return nil })
			return nil
		})
		done := make(chan error, 1)
		go func() { done <- es.Trigger(7001, nil) }()
		select {
		case <-done:
			// registered during the trigger: runs from the next trigger on
			es.Trigger(7001, nil)
			if second < 1 {
				byKey["reentrant:lost"]++
				examples["reentrant:lost"] = append(examples["reentrant:lost"], map[string]string{"key": "reentrant:lost", "op": name, "backend": "eventscope", "what": "a listener registered from inside a listener is never called"})
			}
		case <-wdog.After(3 * time.Second):
			byKey["deadlock:reentrant-on"]++
			examples["deadlock:reentrant-on"] = append(examples["deadlock:reentrant-on"], map[string]string{"key": "deadlock:reentrant-on", "op": name, "backend": "eventscope",
				"what": "Trigger did not return within 3 s: its listener called On on the same scope"})
		}
	}
	b, _ := json.Marshal(map[string]interface{}{"executed": executed, "failures_by_key": byKey, "examples": examples})
	fmt.Println(string(b))
	return nil
}

// evcases: every (registration state, Trigger) of EventScope.tla on real event scopes -- once on bare
// eventscope objects (New / NewChild) and once on full scopes (scope.New / scope.NewChild, whose default
// event scope is a child of the parent's): the listeners called, their order and the result must be the
// specified ones.
func cmdEvCases(args []string) error {
	fl := flag.NewFlagSet("evcases", flag.ExitOnError)
	in := fl.String("in", "", "TLC output")
	fl.Parse(args)
	f, err := os.Open(*in)
	if err != nil {
		return err
	}
	defer f.Close()
	byKey := map[string]int{}
	examples := map[string][]map[string]string{}
	executed := 0
	var samples []string
	fail := func(k, op, what string) {
		byKey[k]++
		if len(examples[k]) < 3 {
			examples[k] = append(examples[k], map[string]string{"key": k, "op": op, "backend": "eventscope", "what": what})
		}
	}
	evID := map[string]int{"e": 9001, "f": 9002}
	sc := bufio.NewScanner(f)
	sc.Buffer(make([]byte, 1<<20), 1<<24)
	seen := map[string]bool{}
	for sc.Scan() {
		line := sc.Text()
		if !strings.Contains(line, "\\\"k\\\":\\\"ev\\\"") {
			continue
		}
		var inner string
		if err := json.Unmarshal([]byte(line), &inner); err != nil {
			return err
		}
		if seen[inner] {
			continue
		}
		seen[inner] = true
		var c struct {
			Reg   []map[string][]int `json:"reg"`
			Fails []int              `json:"fails"`
			Scope int                `json:"scope"`
			Event string             `json:"event"`
			Calls []int              `json:"calls"`
			Err   bool               `json:"err"`
		}
		if err := json.Unmarshal([]byte(inner), &c); err != nil {
			return fmt.Errorf("parse %s: %v", inner, err)
		}
		if len(samples) < 2 && len(c.Calls) >= 2 {
			samples = append(samples, inner)
		}
		isFail := map[int]bool{}
		for _, x := range c.Fails {
			isFail[x] = true
		}
		for _, kind := range []string{"eventscope", "scope"} {
			executed++
			var called []int
			mk := func(id int) app.EventCallback {
				return func(interface{}) error {
					called = append(called, id)
					if isFail[id] {
						return errors.New("listener fails")
					}
					return nil
				}
			}
			var targets []app.EventScope
			if kind == "eventscope" {
				r := eventscope.New()
				ch := eventscope.NewChild(r)
				g := eventscope.NewChild(ch)
				targets = []app.EventScope{r, ch, g}
			} else {
				r := scope.New(scope.Params{})
				ch := scope.NewChild(r, scope.ChildParams{})
				g := scope.NewChild(ch, scope.ChildParams{})
				targets = []app.EventScope{r, ch, g}
			}
			// registration in id order reproduces every per-list order of the model
			type regEntry struct {
				scope int
				ev    string
			}
			byID := map[int]regEntry{}
			maxID := 0
			for i, m := range c.Reg {
				for ev, ids := range m {
					for _, id := range ids {
						byID[id] = regEntry{i, ev}
						if id > maxID {
							maxID = id
						}
					}
				}
			}
			for id := 1; id <= maxID; id++ {
				if e, ok := byID[id]; ok {
					targets[e.scope].On(evID[e.ev], mk(id))
				}
			}
			err := targets[c.Scope-1].Trigger(evID[c.Event], nil)
			if fmt.Sprint(called) != fmt.Sprint(c.Calls) && !(len(called) == 0 && len(c.Calls) == 0) {
				fail("calls:"+kind, inner, fmt.Sprintf("listeners called %v, specification %v", called, c.Calls))
			}
			if (err != nil) != c.Err {
				fail("result:"+kind, inner, fmt.Sprintf("Trigger returned %v, specification error=%v", err, c.Err))
			}
		}
	}
	out := map[string]interface{}{"executed": executed, "failures_by_key": byKey, "examples": examples, "samples": samples}
	b, _ := json.Marshal(out)
	fmt.Println(string(b))
	return nil
}
