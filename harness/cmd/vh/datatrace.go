package main

import (
	"bufio"
	"encoding/json"
	"flag"
	"fmt"
	"math/rand"
	"os"
	"runtime"

	"verifharness/scopex"
)

func init() { commands["datatrace"] = cmdDataTrace }

func cmdDataTrace(args []string) error {
	fl := flag.NewFlagSet("datatrace", flag.ExitOnError)
	out := fl.String("out", "", "ndjson")
	n := fl.Int("n", 100, "scenarios")
	seed := fl.Int64("seed", 1, "seed")
	fl.Parse(args)
	f, err := os.Create(*out)
	if err != nil {
		return err
	}
	bw := bufio.NewWriterSize(f, 1<<20)
	r := rand.New(rand.NewSource(*seed))
	events, seq := 0, 0
	procs := []int{1, 2, 4, runtime.NumCPU()}
	for i := 0; i < *n; i++ {
		runtime.GOMAXPROCS(procs[i%len(procs)])
		events += scopex.RunDataScenario(r, bw, &seq)
	}
	runtime.GOMAXPROCS(runtime.NumCPU())
	bw.Flush()
	f.Close()
	b, _ := json.Marshal(map[string]interface{}{"scenarios": *n, "events": events})
	fmt.Println(string(b))
	return nil
}
