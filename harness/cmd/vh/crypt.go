package main

import (
	"bufio"
	"bytes"
	"encoding/json"
	"flag"
	"fmt"
	"io/ioutil"
	"os"
	"strings"
	"sync"

	"github.com/goatcms/goatcore/filesystem"
	"github.com/goatcms/goatcore/filesystem/filespace/diskfs"
	"github.com/goatcms/goatcore/filesystem/filespace/encryptfs"
	"github.com/goatcms/goatcore/filesystem/filespace/encryptfs/cipherfs"
	"github.com/goatcms/goatcore/filesystem/filespace/encryptfs/cipherfs/aesgcm256cfs"
	"github.com/goatcms/goatcore/filesystem/filespace/encryptfs/cipherfs/extcfs"
	"github.com/goatcms/goatcore/filesystem/filespace/memfs"
)

func init() { commands["crypt"] = cmdCrypt }

type cryptCfg struct {
	Cipher string `json:"cipher"`
	Secret string `json:"secret"`
	Salt   string `json:"salt"`
	Host   bool   `json:"host"`
}

type cryptScenario struct {
	W      cryptCfg `json:"w"`
	R      cryptCfg `json:"r"`
	Wpath  string   `json:"wpath"`
	Rpath  string   `json:"rpath"`
	Tamper string   `json:"tamper"`
	Plain  string   `json:"plain"`
	Expect string   `json:"expect"`
}

func plainBytes(tok string) []byte {
	n := map[string]int{"empty": 0, "one": 1, "b15": 15, "b16": 16, "b17": 17, "big": 4096}[tok]
	b := make([]byte, n)
	for i := range b {
		b[i] = byte('A' + (i*31+n)%57)
	}
	return b
}

func cipherOf(name string) cipherfs.Cipher {
	if name == "tagged" {
		return extcfs.NewDefaultCipher()
	}
	if name == "tagged2" {
		// the general constructor with another default tag (not a palindrome in either byte order), reading both
		raw := aesgcm256cfs.NewCipher()
		c, err := extcfs.NewCipher(extcfs.CipherKey(0x01020304), extcfs.CipherMap{extcfs.CipherKey(0x01020304): raw, extcfs.AESGCM256CFS: raw})
		if err != nil {
			panic("verif: " + err.Error())
		}
		return c
	}
	return aesgcm256cfs.NewCipher()
}

// The caller keeps ONE slice per secret / salt name and hands it to every filespace it builds (slices with spare
// capacity, as a caller reading settings into a reusable buffer has); what it passed in must stay what it was.
var (
	cryptBufMu sync.Mutex
	cryptBufs  = map[string][]byte{}
)

func sharedBytes(s string) []byte {
	cryptBufMu.Lock()
	defer cryptBufMu.Unlock()
	b, ok := cryptBufs[s]
	if !ok {
		b = make([]byte, len(s), len(s)+64)
		copy(b, s)
		for i := len(s); i < cap(b); i++ {
			b[:cap(b)][i] = 0xAA
		}
		cryptBufs[s] = b
	}
	return b
}

// sharedBytesIntact reports whether any handed-in slice was written to (within its length or its spare capacity)
func sharedBytesIntact() string {
	cryptBufMu.Lock()
	defer cryptBufMu.Unlock()
	for s, b := range cryptBufs {
		if string(b) != s {
			return fmt.Sprintf("the caller's slice %q now reads %q", s, b)
		}
		for i := len(s); i < cap(b); i++ {
			if b[:cap(b)][i] != 0xAA {
				return fmt.Sprintf("the spare capacity of the caller's slice %q was written to (%q)", s, b[:cap(b)][len(s):i+1])
			}
		}
	}
	return ""
}

// cryptLongKeys: the second instantiation of the model's secret names -- long pass phrases that agree in their first
// 48 bytes and differ only at the end (key material that differs only beyond its 32nd byte is still other key material)
var cryptLongKeys bool

func newCryptFS(base filesystem.Filespace, c cryptCfg) (filesystem.Filespace, error) {
	secret := "secret-" + c.Secret
	if cryptLongKeys {
		secret = "a-long-pass-phrase-shared-by-every-configuration-" + c.Secret
	}
	return encryptfs.NewEncryptFS(base, encryptfs.Settings{Secret: sharedBytes(secret), Salt: sharedBytes("salt-" + c.Salt), HostOnly: c.Host, Cipher: cipherOf(c.Cipher)})
}

func cryptWrite(fs filesystem.Filespace, how, path string, data []byte) error {
	if how == "whole" {
		return fs.WriteFile(path, data, filesystem.DefaultUnixFileMode)
	}
	w, err := fs.Writer(path)
	if err != nil {
		return err
	}
	// the caller streams through ONE reused buffer and overwrites it as soon as Write has returned
	// (io.Writer: implementations must not retain p); a one-chunk stream is overwritten before Close as well
	buf := make([]byte, 1000)
	for off := 0; off < len(data); off += 1000 {
		end := off + 1000
		if end > len(data) {
			end = len(data)
		}
		n := copy(buf, data[off:end])
		if _, err := w.Write(buf[:n]); err != nil {
			w.Close()
			return err
		}
		for i := range buf[:n] {
			buf[i] = 0xEE
		}
	}
	return w.Close()
}

// cryptRead returns (data, "" ) or (nil, "err") or (nil, "panic: ...")
func cryptRead(fs filesystem.Filespace, how, path string) (data []byte, outcome string) {
	defer func() {
		if r := recover(); r != nil {
			data, outcome = nil, fmt.Sprintf("panic: %v", r)
		}
	}()
	if how == "whole" {
		d, err := fs.ReadFile(path)
		if err != nil {
			return nil, "err"
		}
		return d, "data"
	}
	r, err := fs.Reader(path)
	if err != nil {
		return nil, "err"
	}
	d, err := ioutil.ReadAll(r)
	cerr := r.Close()
	if err != nil || cerr != nil {
		return nil, "err"
	}
	return d, "data"
}

func positions(n int, all bool) []int {
	var out []int
	for i := 0; i < n; i++ {
		if all || n <= 160 || i < 64 || i >= n-64 || i%251 == 0 {
			out = append(out, i)
		}
	}
	return out
}

func cmdCrypt(args []string) error {
	fl := flag.NewFlagSet("crypt", flag.ExitOnError)
	in := fl.String("in", "", "TLC output with crypt scenarios")
	tmp := fl.String("tmp", "", "scratch")
	all := fl.Bool("all", false, "every truncation length and byte position also for large files")
	fl.Parse(args)
	f, err := os.Open(*in)
	if err != nil {
		return err
	}
	defer f.Close()
	byKey := map[string]int{}
	examples := map[string][]map[string]string{}
	executed, reads := 0, 0
	var samples []string
	fail := func(key, inner, base, what string) {
		byKey[key]++
		if len(examples[key]) < 3 {
			examples[key] = append(examples[key], map[string]string{"key": key, "op": inner, "backend": base, "what": what})
		}
	}
	sc := bufio.NewScanner(f)
	sc.Buffer(make([]byte, 1<<20), 1<<24)
	idx := 0
	for sc.Scan() {
		line := sc.Text()
		if !strings.Contains(line, "\\\"k\\\":\\\"crypt\\\"") {
			continue
		}
		var inner string
		if err := json.Unmarshal([]byte(line), &inner); err != nil {
			return err
		}
		var s cryptScenario
		if err := json.Unmarshal([]byte(inner), &s); err != nil {
			return err
		}
		idx++
		baseKind := []string{"mem", "disk"}[idx%2]
		var base filesystem.Filespace
		cleanup := func() {}
		if baseKind == "mem" {
			base, _ = memfs.NewFilespace()
		} else {
			dir, err := ioutil.TempDir(*tmp, "cr")
			if err != nil {
				return err
			}
			base, _ = diskfs.NewFilespace(dir)
			cleanup = func() { os.RemoveAll(dir) }
		}
		if len(samples) < 3 && s.Tamper == "flip" && s.Plain == "b17" {
			samples = append(samples, inner)
		}
		executed++
		cryptLongKeys = executed%2 == 0
		wfs, err1 := newCryptFS(base, s.W)
		rfs, err2 := newCryptFS(base, s.R)
		if err1 != nil || err2 != nil {
			cleanup()
			return fmt.Errorf("NewEncryptFS: %v %v", err1, err2)
		}
		if what := sharedBytesIntact(); what != "" {
			fail("settings-mutated", inner, baseKind, "NewEncryptFS changed the bytes it was handed: "+what)
			cryptBufMu.Lock()
			cryptBufs = map[string][]byte{}
			cryptBufMu.Unlock()
		}
		plain := plainBytes(s.Plain)
		const path = "d/secret.bin"
		base.MkdirAll("d", filesystem.DefaultUnixDirMode)
		if err := cryptWrite(wfs, s.Wpath, path, plain); err != nil {
			fail("write-failed", inner, baseKind, err.Error())
			cleanup()
			continue
		}
		stored, err := base.ReadFile(path)
		if err != nil {
			fail("write-failed", inner, baseKind, "nothing stored: "+err.Error())
			cleanup()
			continue
		}
		if len(plain) >= 8 && bytes.Contains(stored, plain[:8]) {
			fail("plaintext-stored", inner, baseKind, "the underlying filespace contains the plaintext")
		}
		// the same data written again must give different stored bytes
		if err := cryptWrite(wfs, s.Wpath, "d/again.bin", plain); err == nil {
			if again, err := base.ReadFile("d/again.bin"); err == nil && bytes.Equal(again, stored) {
				fail("nonce-reuse", inner, baseKind, "two writes of the same data gave identical stored bytes")
			}
		}
		var variants [][]byte
		switch s.Tamper {
		case "none":
			variants = [][]byte{stored}
		case "empty":
			variants = [][]byte{{}}
		case "truncate":
			for _, n := range positions(len(stored), *all) {
				variants = append(variants, append([]byte{}, stored[:n]...))
			}
		case "flip":
			for _, i := range positions(len(stored), *all) {
				v := append([]byte{}, stored...)
				v[i] ^= 1 << uint(i%8)
				variants = append(variants, v)
			}
		}
		for vi, v := range variants {
			if err := base.WriteFile(path, v, filesystem.DefaultUnixFileMode); err != nil {
				cleanup()
				return err
			}
			reads++
			data, outcome := cryptRead(rfs, s.Rpath, path)
			switch {
			case strings.HasPrefix(outcome, "panic"):
				fail("panic:"+s.Tamper, inner, baseKind, fmt.Sprintf("variant %d (%d stored bytes): %s", vi, len(v), outcome))
			case s.Expect == "any" && outcome == "data" && !bytes.Equal(data, plain):
				fail("wrong-data", inner, baseKind, "answered with data that is not the plaintext")
			case s.Expect == "data" && (outcome != "data" || !bytes.Equal(data, plain)):
				fail("roundtrip", inner, baseKind, fmt.Sprintf("expected the plaintext back, got %s (%d bytes)", outcome, len(data)))
			case s.Expect == "err" && outcome == "data":
				fail("data-instead-of-error:"+s.Tamper, inner, baseKind, fmt.Sprintf("variant %d of %d stored bytes was answered with %d bytes of data", vi, len(v), len(data)))
			}
		}
		cleanup()
	}
	out := map[string]interface{}{"executed": executed, "calls": reads, "failures_by_key": byKey, "examples": examples, "samples": samples}
	b, _ := json.Marshal(out)
	fmt.Println(string(b))
	return nil
}
