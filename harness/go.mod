module verifharness

go 1.23

toolchain go1.23.5

require (
	github.com/goatcms/goatcore v0.0.0
	pgregory.net/rapid v1.3.0
)

require (
	github.com/buger/jsonparser v0.0.0-20180808090653-f4dd9f5a6b44 // indirect
	github.com/denisbrodbeck/machineid v1.0.1 // indirect
	github.com/mitchellh/go-homedir v1.1.0 // indirect
	golang.org/x/crypto v0.0.0-20210415154028-4f45737414dc // indirect
	golang.org/x/net v0.0.0-20210226172049-e18ecbb05110 // indirect
	golang.org/x/sys v0.0.0-20201119102817-f84b799fce68 // indirect
	golang.org/x/term v0.0.0-20201126162022-7de9c90e9dd1 // indirect
	golang.org/x/text v0.3.3 // indirect
	golang.org/x/tools v0.0.0-20180917221912-90fa682c2a6e // indirect
)

replace github.com/goatcms/goatcore => /repo
