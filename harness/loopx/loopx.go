// Package loopx binds FsLoop.tla (C08) to the real filesystem/fsloop.
package loopx

import (
	"encoding/json"
	"fmt"
	"io"
	"math/rand"
	"os"
	"runtime"
	"sort"
	"strings"
	"sync"
	"time"
	wdog "verifharness/wd"

	"github.com/goatcms/goatcore/filesystem"
	"github.com/goatcms/goatcore/filesystem/filespace/memfs"
	"github.com/goatcms/goatcore/filesystem/fsloop"
)

type FS = filesystem.Filespace

// GatedFS blocks ReadDir until the gate is opened.
type GatedFS struct {
	FS
	gate chan struct{}
	once sync.Once
	Hits int32
}

func NewGatedFS(fs FS) *GatedFS { return &GatedFS{FS: fs, gate: make(chan struct{})} }
func (g *GatedFS) Open()        { g.once.Do(func() { close(g.gate) }) }
func (g *GatedFS) ReadDir(p string) ([]os.FileInfo, error) {
	<-g.gate
	return g.FS.ReadDir(p)
}
func (g *GatedFS) Filespace(p string) (filesystem.Filespace, error) { return g.FS.Filespace(p) }

// Shape is a tree: list of paths; a trailing "/" marks a directory.
type Shape []string

func BuildShape(s Shape) (FS, error) {
	fs, err := memfs.NewFilespace()
	if err != nil {
		return nil, err
	}
	for _, p := range s {
		if strings.HasSuffix(p, "/") {
			err = fs.MkdirAll(strings.TrimSuffix(p, "/"), filesystem.DefaultUnixDirMode)
		} else {
			err = fs.WriteFile(p, []byte("data:"+p), filesystem.DefaultUnixFileMode)
		}
		if err != nil {
			return nil, err
		}
	}
	return fs, nil
}

// Expand returns every node of the shape (implied parent directories included).
func Expand(s Shape) (dirs, files []string) {
	ds := map[string]bool{}
	fsm := map[string]bool{}
	for _, p := range s {
		isDir := strings.HasSuffix(p, "/")
		p = strings.TrimSuffix(p, "/")
		parts := strings.Split(p, "/")
		for i := 1; i < len(parts); i++ {
			ds[strings.Join(parts[:i], "/")] = true
		}
		if isDir {
			ds[p] = true
		} else {
			fsm[p] = true
		}
	}
	for d := range ds {
		dirs = append(dirs, d)
	}
	for f := range fsm {
		files = append(files, f)
	}
	sort.Strings(dirs)
	sort.Strings(files)
	return
}

// Recorder collects callback events with a global order.
type Recorder struct {
	mu      sync.Mutex
	Events  []map[string]interface{}
	Running int
	MaxRun  int
	Count   map[string]int
}

func NewRecorder() *Recorder { return &Recorder{Count: map[string]int{}} }

func (r *Recorder) emit(ev map[string]interface{}) {
	r.Events = append(r.Events, ev)
}

func (r *Recorder) Begin(kind, path string) {
	r.mu.Lock()
	r.Running++
	if r.Running > r.MaxRun {
		r.MaxRun = r.Running
	}
	r.Count[kind+":"+path]++
	r.emit(map[string]interface{}{"ev": "begin", "kind": kind, "path": path})
	r.mu.Unlock()
}

func (r *Recorder) End(kind, path string) {
	r.mu.Lock()
	r.Running--
	r.emit(map[string]interface{}{"ev": "end", "kind": kind, "path": path})
	r.mu.Unlock()
}

func (r *Recorder) Mark(ev map[string]interface{}) {
	r.mu.Lock()
	r.emit(ev)
	r.mu.Unlock()
}

func clean(p string) string { return strings.TrimPrefix(strings.TrimPrefix(p, "./"), "/") }

// RunConfig describes one loop run.
type RunConfig struct {
	Shape      Shape
	Consumers  int
	Producents int
	DirReject  string // directories whose name equals this are rejected by the directory filter ("" = no filter)
	FileReject string // files whose name has this suffix are rejected ("" = no filter)
	FailPath   string // callback of this path fails
	FailList   string // ReadDir of this directory fails (a listing error)
	Work       time.Duration
}

// failListFS fails ReadDir of one directory.
type failListFS struct {
	FS
	dir string
}

func (f *failListFS) ReadDir(p string) ([]os.FileInfo, error) {
	if strings.Trim(clean(p), "/") == f.dir {
		return nil, fmt.Errorf("injected listing failure of %s", p)
	}
	return f.FS.ReadDir(p)
}
func (f *failListFS) Filespace(p string) (filesystem.Filespace, error) { return f.FS.Filespace(p) }

// Selected computes the nodes the loop must visit.
func Selected(c *RunConfig) (sel []string) {
	dirs, files := Expand(c.Shape)
	accepted := func(p string) bool { // every ancestor directory (and p itself if dir) passes the dir filter
		parts := strings.Split(p, "/")
		for i := 0; i < len(parts)-1; i++ {
			if c.DirReject != "" && parts[i] == c.DirReject {
				return false
			}
		}
		return true
	}
	for _, d := range dirs {
		base := d[strings.LastIndex(d, "/")+1:]
		if accepted(d) && !(c.DirReject != "" && base == c.DirReject) {
			sel = append(sel, "dir:"+d)
		}
	}
	for _, f := range files {
		if accepted(f) && !(c.FileReject != "" && strings.HasSuffix(f, c.FileReject)) {
			sel = append(sel, "file:"+f)
		}
	}
	sort.Strings(sel)
	if sel == nil {
		sel = []string{}
	}
	return
}

// NewLoop builds a real loop over fs recording into rec.
func NewLoop(fs FS, c *RunConfig, rec *Recorder, r *rand.Rand) *fsloop.Loop {
	var rmu sync.Mutex
	jitter := func() {
		if c.Work > 0 {
			rmu.Lock()
			d := time.Duration(r.Int63n(int64(c.Work)))
			rmu.Unlock()
			time.Sleep(d)
		}
	}
	data := &fsloop.LoopData{
		Filespace:  fs,
		Consumers:  c.Consumers,
		Producents: c.Producents,
		OnDir: func(_ filesystem.Filespace, p string) error {
			rec.Begin("dir", clean(p))
			jitter()
			rec.End("dir", clean(p))
			if clean(p) == c.FailPath {
				return fmt.Errorf("callback failed on %s", p)
			}
			return nil
		},
		OnFile: func(_ filesystem.Filespace, p string) error {
			rec.Begin("file", clean(p))
			jitter()
			rec.End("file", clean(p))
			if clean(p) == c.FailPath {
				return fmt.Errorf("callback failed on %s", p)
			}
			return nil
		},
	}
	if c.DirReject != "" {
		data.DirFilter = func(_ filesystem.Filespace, p string) bool {
			p = clean(p)
			return p[strings.LastIndex(p, "/")+1:] != c.DirReject
		}
	}
	if c.FileReject != "" {
		data.FileFilter = func(_ filesystem.Filespace, p string) bool { return !strings.HasSuffix(p, c.FileReject) }
	}
	return fsloop.NewLoop(data, nil)
}

// WaitTimeout waits for loop.Wait under a watchdog; returns false on expiry.
func WaitTimeout(loop *fsloop.Loop, d time.Duration) bool {
	done := make(chan struct{})
	go func() { loop.Wait(); close(done) }()
	select {
	case <-done:
		return true
	case <-wdog.After(d):
		return false
	}
}

// ScriptResult is the outcome of the property-directed script.
type ScriptResult struct {
	Parked    int      `json:"parked"`
	Announced bool     `json:"announced"`
	Returned  bool     `json:"wait_returned"`
	Missing   []string `json:"missing"`
	Repeated  []string `json:"repeated"`
	Errors    int      `json:"errors"`
	Note      string   `json:"note"`
}

var hookMu sync.Mutex // one scripted run at a time (the hook variable is package global)

// RunScript forces the schedule of the "prefix" counterexample of FsLoop.tla on the
// real goroutines: every consumer is held at the hook between its two reads while
// the queues are still empty; the producers (held at the gated ReadDir) are then let
// run to completion; once the close step has been announced the consumers continue.
// On correct code every selected node still gets its callback.
func RunScript(c *RunConfig) (*ScriptResult, error) {
	hookMu.Lock()
	defer hookMu.Unlock()
	res := &ScriptResult{}
	base, err := BuildShape(c.Shape)
	if err != nil {
		return nil, err
	}
	gfs := NewGatedFS(base)
	rec := NewRecorder()
	nCons := c.Consumers
	if nCons == 0 || nCons > runtime.NumCPU() {
		nCons = runtime.NumCPU()
	}
	var mu sync.Mutex
	parked := 0
	release := make(chan struct{})
	allParked := make(chan struct{})
	announced := make(chan struct{})
	var annOnce, parkOnce sync.Once
	holding := true
	fsloop.VerifHook = func(site string) {
		switch site {
		case "consumer.between":
			mu.Lock()
			if !holding {
				mu.Unlock()
				return
			}
			parked++
			if parked == nCons {
				parkOnce.Do(func() { close(allParked) })
			}
			mu.Unlock()
			<-release
		case "closer.announced":
			annOnce.Do(func() { close(announced) })
		}
	}
	defer func() { fsloop.VerifHook = nil }()
	loop := NewLoop(gfs, c, rec, rand.New(rand.NewSource(1)))
	loop.Run("")
	select {
	case <-allParked:
	case <-wdog.After(10 * time.Second):
		res.Note = "consumers did not all reach the hook (hook missing or fewer consumers than configured)"
	}
	mu.Lock()
	res.Parked = parked
	holding = false
	mu.Unlock()
	gfs.Open() // producers run to completion; queue capacity (1000) exceeds every scripted tree
	select {
	case <-announced:
		res.Announced = true
	case <-wdog.After(10 * time.Second):
		res.Note += " close was not announced while the consumers were held"
	}
	close(release)
	res.Returned = WaitTimeout(loop, 20*time.Second)
	res.Errors = len(loop.Errors())
	for _, s := range Selected(c) {
		n := rec.Count[s]
		if n == 0 {
			res.Missing = append(res.Missing, s)
		} else if n > 1 {
			res.Repeated = append(res.Repeated, s)
		}
	}
	return res, nil
}

// RunFree runs a loop freely with schedule noise injected at the hook sites and
// writes its events (for Trace_FsLoop) to w.
func RunFree(c *RunConfig, r *rand.Rand, noise bool, w io.Writer) error {
	base, err := BuildShape(c.Shape)
	if err != nil {
		return err
	}
	rec := NewRecorder()
	nCons := c.Consumers
	if nCons == 0 || nCons > runtime.NumCPU() {
		nCons = runtime.NumCPU()
	}
	rec.Mark(map[string]interface{}{"ev": "reset", "selected": Selected(c), "consumers": nCons, "fail": c.FailPath != "", "faillist": c.FailList != ""})
	var src FS = base
	if c.FailList != "" {
		src = &failListFS{FS: base, dir: c.FailList}
	}
	loop := NewLoop(src, c, rec, r)
	loop.Run("")
	ok := WaitTimeout(loop, 60*time.Second)
	if !ok {
		rec.Mark(map[string]interface{}{"ev": "hang"})
	} else {
		rec.Mark(map[string]interface{}{"ev": "wait"})
		rec.Mark(map[string]interface{}{"ev": "errors", "n": len(loop.Errors())})
	}
	rec.mu.Lock()
	defer rec.mu.Unlock()
	for _, ev := range rec.Events {
		b, _ := json.Marshal(ev)
		w.Write(b)
		w.Write([]byte("\n"))
	}
	return nil
}

// WithForcedSchedule runs body (which starts an fsloop over gate and waits for it)
// under the schedule of the "prefix" counterexample: consumers are parked between
// their two reads until the close step has been announced; the producers are held
// at the gated ReadDir until the consumers are parked.
func WithForcedSchedule(nCons int, gate *GatedFS, body func()) (parked int, announced bool) {
	hookMu.Lock()
	defer hookMu.Unlock()
	var mu sync.Mutex
	release := make(chan struct{})
	allParked := make(chan struct{})
	ann := make(chan struct{})
	var annOnce, parkOnce, relOnce sync.Once
	holding := true
	fsloop.VerifHook = func(site string) {
		switch site {
		case "consumer.between":
			mu.Lock()
			if !holding {
				mu.Unlock()
				return
			}
			parked++
			if parked >= nCons {
				parkOnce.Do(func() { close(allParked) })
			}
			mu.Unlock()
			<-release
		case "closer.announced":
			annOnce.Do(func() { close(ann) })
		}
	}
	defer func() { fsloop.VerifHook = nil }()
	done := make(chan struct{})
	go func() { body(); close(done) }()
	select {
	case <-allParked:
	case <-wdog.After(2 * time.Second):
	}
	mu.Lock()
	holding = false
	mu.Unlock()
	gate.Open()
	select {
	case <-ann:
		announced = true
	case <-wdog.After(10 * time.Second):
	}
	relOnce.Do(func() { close(release) })
	select {
	case <-done:
	case <-wdog.After(30 * time.Second):
	}
	return
}
