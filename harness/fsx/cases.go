package fsx

import (
	"encoding/json"
	"fmt"
	"os"
	"runtime"
	"strings"
	"sync"
	"sync/atomic"
	"time"
)

// Outcome is one allowed outcome of a call in the specification.
type Outcome struct {
	T   Tree
	Res Res
}

// Case is one conformance test emitted by TLC: previous tree, call, allowed outcomes.
type Case struct {
	Prev Tree
	Op   Op
	Outs []Outcome
	Raw  string
	// C02: inside the preconditions / inside the check's own assumption / addressed paths
	Pre     bool
	Assumed bool
	Addr    [][]string
}

type rawCase struct {
	K    string            `json:"k"`
	Prev []json.RawMessage `json:"prev"`
	Op   Op                `json:"op"`
	Outs []struct {
		T   []json.RawMessage `json:"t"`
		Res [][]string        `json:"res"`
	} `json:"outs"`
	Pre     *bool      `json:"pre"`
	Assumed *bool      `json:"assumed"`
	Addr    [][]string `json:"addr"`
}

func parseTree(raw []json.RawMessage) (Tree, error) {
	var t Tree
	for _, r := range raw {
		var pair []json.RawMessage
		if err := json.Unmarshal(r, &pair); err != nil || len(pair) != 2 {
			return nil, fmt.Errorf("bad tree node %s", string(r))
		}
		var n Node
		if err := json.Unmarshal(pair[0], &n.P); err != nil {
			return nil, err
		}
		if err := json.Unmarshal(pair[1], &n.V); err != nil {
			return nil, err
		}
		t = append(t, n)
	}
	SortTree(t)
	return t, nil
}

// ParseTreeJSON parses a tree given as a list of [path, value] pairs.
func ParseTreeJSON(raw []json.RawMessage) (Tree, error) { return parseTree(raw) }

// ParseCase parses one TLC output line (a TLA+ string holding JSON).
func ParseCase(line string) (*Case, error) {
	var inner string
	if err := json.Unmarshal([]byte(line), &inner); err != nil {
		return nil, err
	}
	var rc rawCase
	if err := json.Unmarshal([]byte(inner), &rc); err != nil {
		return nil, err
	}
	c := &Case{Op: rc.Op, Raw: inner, Pre: rc.Pre == nil || *rc.Pre, Assumed: rc.Assumed == nil || *rc.Assumed, Addr: rc.Addr}
	var err error
	if c.Prev, err = parseTree(rc.Prev); err != nil {
		return nil, err
	}
	for _, o := range rc.Outs {
		t, err := parseTree(o.T)
		if err != nil {
			return nil, err
		}
		c.Outs = append(c.Outs, Outcome{T: t, Res: o.Res})
	}
	return c, nil
}

// Renamed returns the case with every model name replaced by a concrete one (path segments of trees, spellings,
// addressed paths and the names inside listing / stat results); ".", ".." and "" stay.  The model's names are
// abstract: a second instantiation in which one name is a string PREFIX of the other ("sub" / "sub.old") catches
// code that compares paths as strings instead of by segments.
func (c *Case) Renamed(m map[string]string) *Case {
	seg := func(x string) string {
		if y, ok := m[x]; ok {
			return y
		}
		return x
	}
	path := func(p []string) []string {
		out := make([]string, len(p))
		for i, x := range p {
			out[i] = seg(x)
		}
		return out
	}
	tree := func(t Tree) Tree {
		var out Tree
		for _, n := range t {
			out = append(out, Node{P: path(n.P), V: n.V})
		}
		SortTree(out)
		return out
	}
	res := func(r Res) Res {
		var out Res
		for _, e := range r {
			e2 := append([]string{}, e...)
			if len(e2) >= 2 && (e2[0] == "e" || e2[0] == "stat") {
				e2[1] = seg(e2[1])
			}
			out = append(out, e2)
		}
		return out
	}
	n := &Case{Prev: tree(c.Prev), Op: c.Op, Raw: c.Raw, Pre: c.Pre, Assumed: c.Assumed}
	n.Op.Sp = path(c.Op.Sp)
	if c.Op.Sq != nil {
		n.Op.Sq = path(c.Op.Sq)
	}
	for _, a := range c.Addr {
		n.Addr = append(n.Addr, path(a))
	}
	for _, o := range c.Outs {
		n.Outs = append(n.Outs, Outcome{T: tree(o.T), Res: res(o.Res)})
	}
	return n
}

// NeutralPrefix is a spelling prefix of 36 segments that names the directory it is applied in: "." and empty
// segments only (17 x "./", one doubled slash, 17 x "./").  A path's meaning does not depend on how long its
// spelling is; the model's spellings are short.
var NeutralPrefix = strings.Repeat("./", 17) + "/" + strings.Repeat("./", 17)

// Inflated returns the case with every spelling prefixed by NeutralPrefix.
func (c *Case) Inflated() *Case {
	n := *c
	pre := strings.Split(strings.TrimSuffix(NeutralPrefix, "/"), "/")
	inflate := func(sp []string) []string {
		if len(sp) > 0 && sp[0] == "" { // a leading slash stays the leading slash
			return append(append([]string{""}, pre...), sp[1:]...)
		}
		return append(append([]string{}, pre...), sp...)
	}
	n.Op.Sp = inflate(c.Op.Sp)
	if c.Op.Sq != nil {
		n.Op.Sq = inflate(c.Op.Sq)
	}
	return &n
}

// PrefixNames: the second instantiation of the model's names
var PrefixNames = map[string]string{"a": "sub", "b": "sub.old", "c": "su"}

// Failure describes one observed disagreement with the specification.
type Failure struct {
	Key     string `json:"key"`
	Backend string `json:"backend"`
	Op      string `json:"op"`
	What    string `json:"what"`
	Case    string `json:"case"`
}

func climbs(sp []string) bool {
	depth := 0
	for _, s := range sp {
		switch s {
		case "", ".":
		case "..":
			if depth == 0 {
				return true
			}
			depth--
		default:
			depth++
		}
	}
	return false
}

func spellKind(op Op) string {
	if climbs(op.Sp) || (op.Sq != nil && climbs(op.Sq)) {
		return "climb"
	}
	return "plain"
}

// matchRes compares an observed result with an allowed one.  An lstat of the
// root has an unspecified name ("" in the specification).
func matchRes(got, want Res) bool {
	if len(want) == 1 && len(want[0]) == 3 && want[0][0] == "stat" && want[0][1] == "" &&
		len(got) == 1 && len(got[0]) == 3 && got[0][0] == "stat" {
		return got[0][2] == want[0][2]
	}
	return got.Key() == want.Key()
}

// HangTimeout is the watchdog for one sequential case.
var HangTimeout = 10 * time.Second

// MaxHangs bounds the time a broken tree can cost.
const MaxHangs = 3

// Pool runs jobs on n workers under a watchdog: a job that does not finish
// within HangTimeout is reported through onHang (with a goroutine dump) and
// its worker is replaced; after MaxHangs hangs the remaining jobs are dropped.
type Pool struct {
	Jobs   chan func()
	wg     sync.WaitGroup
	mu     sync.Mutex
	slots  map[int]*slot
	next   int
	hangs  int32
	onHang func(label string, dump string)
	stop   chan struct{}
}

type slot struct {
	start    int64
	label    atomic.Value
	gid      atomic.Value // "goroutine N " of the worker
	extended int          // how often the watchdog has granted more time (under p.mu)
}

// goroutineHeader returns "goroutine N " of the calling goroutine.
func goroutineHeader() string {
	buf := make([]byte, 64)
	n := runtime.Stack(buf, false)
	f := strings.Fields(string(buf[:n]))
	if len(f) >= 2 {
		return "goroutine " + f[1] + " "
	}
	return ""
}

// stuckInRepo inspects the dump for the worker's goroutine: a call counts as hung only when that goroutine is
// BLOCKED (on a lock, a channel, a wait group ...) beneath a frame of the library under test.  A worker that is
// running, in a system call or inside the harness's own set-up / clean-up is slow (a loaded machine), not hung.
func stuckInRepo(dump, gid string) bool {
	for _, block := range strings.Split(dump, "\n\n") {
		if !strings.HasPrefix(block, gid) {
			continue
		}
		head := block
		if i := strings.Index(block, "\n"); i >= 0 {
			head = block[:i]
		}
		busy := false
		for _, st := range []string{"[running", "[runnable", "[syscall", "[IO wait", "[sleep"} {
			if strings.Contains(head, st) {
				busy = true
			}
		}
		return !busy && strings.Contains(block, "github.com/goatcms/goatcore/")
	}
	return false
}

// MaxExtensions: a slow (not blocked) worker is granted this many further HangTimeouts before it is reported anyway
// (a busy loop inside the library never ends either).
const MaxExtensions = 12

// NewPool starts n workers.
func NewPool(n int, onHang func(label, dump string)) *Pool {
	p := &Pool{Jobs: make(chan func(), 1024), slots: map[int]*slot{}, onHang: onHang, stop: make(chan struct{})}
	for i := 0; i < n; i++ {
		p.spawn()
	}
	go p.watch()
	return p
}

func (p *Pool) spawn() {
	p.mu.Lock()
	id := p.next
	p.next++
	sl := &slot{}
	p.slots[id] = sl
	p.mu.Unlock()
	p.wg.Add(1)
	go func() {
		for job := range p.Jobs {
			if atomic.LoadInt32(&p.hangs) >= MaxHangs {
				continue
			}
			sl.gid.Store(goroutineHeader())
			p.mu.Lock()
			sl.extended = 0
			p.mu.Unlock()
			atomic.StoreInt64(&sl.start, time.Now().UnixNano())
			job()
			atomic.StoreInt64(&sl.start, 0)
			p.mu.Lock()
			_, alive := p.slots[id]
			p.mu.Unlock()
			if !alive {
				return // declared hung and replaced meanwhile (wg already released)
			}
		}
		p.wg.Done()
	}()
}

func (p *Pool) watch() {
	for {
		select {
		case <-p.stop:
			return
		case <-time.After(500 * time.Millisecond):
		}
		now := time.Now().UnixNano()
		var dump string
		p.mu.Lock()
		var hung []int
		for id, sl := range p.slots {
			st := atomic.LoadInt64(&sl.start)
			if st != 0 && now-st > int64(HangTimeout) {
				if dump == "" {
					buf := make([]byte, 1<<18)
					dump = string(buf[:runtime.Stack(buf, true)])
				}
				gid, _ := sl.gid.Load().(string)
				if !stuckInRepo(dump, gid) && sl.extended < MaxExtensions {
					sl.extended++
					atomic.CompareAndSwapInt64(&sl.start, st, now)
					fmt.Fprintf(os.Stderr, "watchdog: worker %sis slow but not blocked in goatcore (extension %d)\n", gid, sl.extended)
					continue
				}
				hung = append(hung, id)
			}
		}
		for _, id := range hung {
			delete(p.slots, id)
		}
		p.mu.Unlock()
		for range hung {
			atomic.AddInt32(&p.hangs, 1)
			p.onHang("", dump)
			p.wg.Done() // the hung worker never returns
			p.spawn()
		}
	}
}

// Hangs returns the number of watchdog expiries so far.
func (p *Pool) Hangs() int { return int(atomic.LoadInt32(&p.hangs)) }

// Close waits for all submitted jobs.
func (p *Pool) Close() {
	close(p.Jobs)
	p.wg.Wait()
	close(p.stop)
}

// RunCase executes one case on a fresh backend and reports a failure or nil.
func RunCase(c *Case, kind string, tmp string, d *Dict) *Failure {
	return runCase(c, kind, tmp, d, false)
}

// RunCaseClean executes a case that lies outside the C02 preconditions: the
// backend may answer differently from the model but must fail cleanly.
func RunCaseClean(c *Case, kind string, tmp string, d *Dict) *Failure {
	return runCase(c, kind, tmp, d, true)
}

func related(p []string, addr [][]string) bool {
	for _, a := range addr {
		n := len(a)
		if len(p) < n {
			n = len(p)
		}
		if strings.Join(p[:n], "/") == strings.Join(a[:n], "/") {
			return true // p is an ancestor of, equal to, or below an addressed path
		}
	}
	return false
}

func changedOutside(prev, now Tree, addr [][]string) string {
	pm := map[string]string{}
	for _, n := range prev {
		pm[strings.Join(n.P, "/")] = n.V
	}
	nm := map[string]string{}
	for _, n := range now {
		nm[strings.Join(n.P, "/")] = n.V
		if related(n.P, addr) {
			continue
		}
		if v, ok := pm[strings.Join(n.P, "/")]; !ok || v != n.V {
			return fmt.Sprintf("%s is now %q (was %q)", strings.Join(n.P, "/"), n.V, v)
		}
	}
	for _, n := range prev {
		if related(n.P, addr) {
			continue
		}
		if _, ok := nm[strings.Join(n.P, "/")]; !ok {
			return fmt.Sprintf("%s disappeared", strings.Join(n.P, "/"))
		}
	}
	return ""
}

func runCase(c *Case, kind string, tmp string, d *Dict, cleanOnly bool) *Failure {
	fail := func(key, what string) *Failure {
		return &Failure{Key: key, Backend: kind, Op: c.Op.String(), What: what, Case: c.Raw}
	}
	b, err := NewBackend(kind, tmp)
	if err != nil {
		return fail("infra", err.Error())
	}
	defer b.Cleanup()
	if err := Build(b.FS, c.Prev, d); err != nil {
		return fail("build", err.Error())
	}
	t0, err := b.Project(d)
	if err != nil {
		return fail("build-project", err.Error())
	}
	if t0.Key() != c.Prev.Key() {
		return fail("build-project", fmt.Sprintf("built %s, projected %s", c.Prev.Key(), t0.Key()))
	}
	outside0 := b.Outside()
	snaps := SnapshotListings(b.FS, c.Prev)
	h := &Handles{}
	res := Exec(b.FS, c.Op, d, h)
	if len(res) == 1 && res[0][0] == "panic" {
		return fail("panic:"+c.Op.Name, res[0][1])
	}
	t1, err := b.Project(d)
	if err != nil {
		return fail("project:"+c.Op.Name+":"+spellKind(c.Op), err.Error())
	}
	if cleanOnly {
		// outside the preconditions: any answer, but nothing outside the addressed paths may change
		if ch := changedOutside(c.Prev, t1, c.Addr); ch != "" {
			return fail("unclean:"+c.Op.Name, "outside the preconditions the call changed a path it did not address: "+ch)
		}
		if o1 := b.Outside(); o1 != outside0 {
			return fail("outside:"+c.Op.Name+":"+spellKind(c.Op), fmt.Sprintf("outside the root changed:\n%s\n--->\n%s", outside0, o1))
		}
		return nil
	}
	matched := false
	for _, o := range c.Outs {
		if matchRes(res, o.Res) && o.T.Key() == t1.Key() {
			matched = true
			break
		}
	}
	if !matched {
		var allowed []string
		for _, o := range c.Outs {
			allowed = append(allowed, fmt.Sprintf("(%v, %s)", o.Res, o.T.Key()))
		}
		return fail("outcome:"+c.Op.Name+":"+spellKind(c.Op),
			fmt.Sprintf("observed (%v, %s); allowed %s", res, t1.Key(), strings.Join(allowed, " | ")))
	}
	// snapshot obligations: buffers handed in, buffers handed out, listings handed out
	for _, buf := range h.In {
		Scribble(buf)
	}
	t2, err := b.Project(d)
	if err != nil || t2.Key() != t1.Key() {
		return fail("alias-in:"+c.Op.Name, fmt.Sprintf("caller overwrote the buffer it had passed in; tree changed from %s to %s (%v)", t1.Key(), t2.Key(), err))
	}
	for _, buf := range h.Out {
		Scribble(buf)
	}
	t3, err := b.Project(d)
	if err != nil || t3.Key() != t1.Key() {
		return fail("alias-out:"+c.Op.Name, fmt.Sprintf("caller overwrote a buffer handed out; tree changed from %s to %s (%v)", t1.Key(), t3.Key(), err))
	}
	if err := CheckListings(snaps); err != nil {
		return fail("alias-list:"+c.Op.Name, err.Error())
	}
	if o1 := b.Outside(); o1 != outside0 {
		return fail("outside:"+c.Op.Name+":"+spellKind(c.Op), fmt.Sprintf("outside the root changed:\n%s\n--->\n%s", outside0, o1))
	}
	return nil
}
