package fsx

import (
	"encoding/json"
	"fmt"
	"io"
	"math/rand"
	"os"
	"strings"
)

// TraceWriter writes ndjson events for Trace_MemFS.
type TraceWriter struct {
	w      io.Writer
	Events int
}

func NewTraceWriter(w io.Writer) *TraceWriter { return &TraceWriter{w: w} }

func (t *TraceWriter) Emit(ev map[string]interface{}) {
	b, _ := json.Marshal(ev)
	t.w.Write(b)
	t.w.Write([]byte("\n"))
	t.Events++
}

func treeJSON(t Tree) [][]interface{} {
	out := make([][]interface{}, 0, len(t))
	for _, n := range t {
		p := n.P
		if p == nil {
			p = []string{}
		}
		out = append(out, []interface{}{p, n.V})
	}
	return out
}

func segs(s []string) []string {
	if s == nil {
		return []string{}
	}
	return s
}

// HistoryConfig bounds a random history.
type HistoryConfig struct {
	Names    []string
	MaxDepth int
	Steps    int
	Backend  string
	Tmp      string
	Climb    bool // include spellings that climb above the (view) root
	DiskPre  bool // C02: the backend is only held to FsTree inside the preconditions; never copy a directory into itself
	// Wide: a scripted history shape -- ONE directory is filled with 9..len(Names) children (files and directories) and
	// then drained one Remove / RemoveAll at a time, with queries and re-creations in between (big directories
	// that shrink: what small exhaustive exploration and short random histories never build)
	Wide bool
}

// wideChoice overrides the random choice of operation and path in a Wide history.
func wideChoice(r *rand.Rand, step int, cfg *HistoryConfig, cur Tree) (name string, sp []string, ok bool) {
	dir := cfg.Names[0]
	fill := 9 + (len(cfg.Names)-9)*((step*7+3)%2) // 9 or all names
	if fill > len(cfg.Names) {
		fill = len(cfg.Names)
	}
	var kids []string
	for _, n := range cur {
		if len(n.P) == 2 && n.P[0] == dir {
			kids = append(kids, n.P[1])
		}
	}
	if step < fill {
		if step%3 == 2 {
			return "mkdir", []string{dir, cfg.Names[step%len(cfg.Names)]}, true
		}
		return "write", []string{dir, cfg.Names[step%len(cfg.Names)]}, true
	}
	switch r.Intn(10) {
	case 0:
		return "readdir", []string{dir}, true
	case 1:
		return []string{"isexist", "isfile", "lstat", "read"}[r.Intn(4)], []string{dir, cfg.Names[r.Intn(len(cfg.Names))]}, true
	case 2:
		return []string{"write", "mkdir"}[r.Intn(2)], []string{dir, cfg.Names[r.Intn(len(cfg.Names))]}, true
	case 3:
		return "", nil, false // a free random step
	}
	if len(kids) == 0 {
		return "remove", []string{dir}, true
	}
	return []string{"remove", "removeall", "removeall"}[r.Intn(3)], []string{dir, kids[r.Intn(len(kids))]}, true
}

type liveHandle struct {
	id    int
	buf   []byte        // byte handle (in or out)
	infos []os.FileInfo // listing handle
	out   bool          // handed out by the filespace (its recorded value must stay)
	dead  bool          // scribbled: no longer inspectable
}

// Decorate turns a canonical path into a random raw spelling that resolves to it.
func Decorate(r *rand.Rand, p []string, names []string) []string {
	var out []string
	if r.Intn(4) == 0 {
		out = append(out, "")
	}
	for _, s := range p {
		switch r.Intn(8) {
		case 0:
			out = append(out, ".")
		case 1:
			out = append(out, "")
		case 2:
			out = append(out, names[r.Intn(len(names))], "..")
		}
		out = append(out, s)
	}
	switch r.Intn(6) {
	case 0:
		out = append(out, "")
	case 1:
		out = append(out, ".")
	}
	if out == nil {
		out = []string{}
		if r.Intn(2) == 0 {
			out = []string{"."}
		}
	}
	return out
}

func randPath(r *rand.Rand, cfg *HistoryConfig, t Tree, allowRoot bool) []string {
	// prefer existing nodes and their neighbourhood
	if len(t) > 0 && r.Intn(3) != 0 {
		n := t[r.Intn(len(t))]
		p := append([]string{}, n.P...)
		switch r.Intn(4) {
		case 0:
			if len(p) < cfg.MaxDepth {
				p = append(p, cfg.Names[r.Intn(len(cfg.Names))])
			}
		case 1:
			p = p[:len(p)-1]
			if len(p) == 0 && !allowRoot {
				p = append(p, cfg.Names[r.Intn(len(cfg.Names))])
			}
		}
		return p
	}
	d := 1 + r.Intn(cfg.MaxDepth)
	if allowRoot && r.Intn(12) == 0 {
		d = 0
	}
	p := make([]string, d)
	for i := range p {
		p[i] = cfg.Names[r.Intn(len(cfg.Names))]
	}
	return p
}

var opNames = []string{"write", "write", "write", "wstream", "mkdir", "mkdir", "remove", "removeall", "read", "rstream",
	"readdir", "isexist", "isfile", "isdir", "lstat", "copy", "copyfile", "copydir"}

// RunHistory drives one random history on a fresh backend, logging every
// step.  It returns the number of op events.
func RunHistory(r *rand.Rand, cfg *HistoryConfig, d *Dict, tw *TraceWriter, nextTok *int) error {
	b, err := NewBackend(cfg.Backend, cfg.Tmp)
	if err != nil {
		return err
	}
	defer b.Cleanup()
	tw.Emit(map[string]interface{}{"ev": "reset", "backend": cfg.Backend})
	type view struct {
		base []string
		fs   FS
	}
	views := []view{{base: []string{}, fs: b.FS}}
	var handles []*liveHandle
	hid := 0
	cur := Tree{}
	for step := 0; step < cfg.Steps; step++ {
		// occasionally open a (possibly nested) child view
		if r.Intn(10) == 0 && len(views) < 5 {
			parent := views[r.Intn(len(views))]
			sub := randPath(r, cfg, nil, false)
			if len(sub) > 2 {
				sub = sub[:2]
			}
			if len(parent.base)+len(sub) <= 3 {
				if vfs, err := parent.fs.Filespace(strings.Join(Decorate(r, sub, cfg.Names), "/")); err == nil {
					views = append(views, view{base: append(append([]string{}, parent.base...), sub...), fs: vfs})
				}
			}
		}
		// occasionally scribble or inspect a handle
		if len(handles) > 0 && r.Intn(4) == 0 {
			h := handles[r.Intn(len(handles))]
			if h.buf != nil && !h.dead && r.Intn(2) == 0 {
				Scribble(h.buf)
				h.dead = true
				t, err := b.Project(d)
				if err != nil {
					return fmt.Errorf("projection failed after scribble: %v", err)
				}
				tw.Emit(map[string]interface{}{"ev": "scribble", "tree": treeJSON(t)})
				continue
			}
			if h.out && !h.dead {
				var now Res
				if h.infos != nil || h.buf == nil {
					now = Res{{"list"}}
					for _, s := range listingNames(h.infos) {
						i := strings.LastIndex(s, ":")
						now = append(now, []string{"e", s[:i], s[i+1:]})
					}
				} else {
					now = Res{{"data", d.Token(h.buf)}}
				}
				tw.Emit(map[string]interface{}{"ev": "inspect", "h": h.id, "now": now})
				continue
			}
		}
		v := views[r.Intn(len(views))]
		// view-relative tree for path choice
		var vt Tree
		for _, n := range cur {
			if len(n.P) > len(v.base) && strings.Join(n.P[:len(v.base)], "/") == strings.Join(v.base, "/") {
				vt = append(vt, Node{P: n.P[len(v.base):], V: n.V})
			}
		}
		vcfg := *cfg
		vcfg.MaxDepth = cfg.MaxDepth - len(v.base)
		if vcfg.MaxDepth < 1 {
			vcfg.MaxDepth = 1
		}
		op := Op{Name: opNames[r.Intn(len(opNames))]}
		op.Sp = Decorate(r, randPath(r, &vcfg, vt, true), cfg.Names)
		wide := false
		if cfg.Wide {
			if nm, sp, ok := wideChoice(r, step, cfg, cur); ok {
				v = views[0]
				op.Name, op.Sp, wide = nm, sp, true
			}
		}
		if !wide && cfg.Climb && r.Intn(15) == 0 {
			op.Sp = append([]string{".."}, op.Sp...)
		}
		if !wide && cfg.Climb && r.Intn(25) == 0 {
			op.Sp = append([]string{cfg.Names[0], "..", ".."}, op.Sp...)
		}
		switch op.Name {
		case "copy", "copyfile", "copydir":
			op.Sq = Decorate(r, randPath(r, &vcfg, vt, false), cfg.Names)
			if cfg.Climb && r.Intn(20) == 0 {
				op.Sq = append([]string{".."}, op.Sq...)
			}
		case "write", "wstream":
			*nextTok++
			op.D = fmt.Sprintf("c%d", *nextTok)
			var data []byte
			switch r.Intn(8) {
			case 0:
				data = []byte{}
				op.D = "z"
			case 1:
				data = make([]byte, 1+r.Intn(70000))
				r.Read(data)
			default:
				data = make([]byte, 1+r.Intn(40))
				r.Read(data)
			}
			if op.D != "z" {
				d.Add(op.D, data)
			}
			op.Chunk = []int{0, 1, 3, 1000, 65536}[r.Intn(5)]
		case "rstream":
			op.Chunk = []int{1, 2, 7, 4096, 100000}[r.Intn(5)]
		}
		if cfg.DiskPre && op.Sq != nil {
			// the check's own assumption: the destination of a copy is not inside its source
			cs, cq := canon(op.Sp), canon(op.Sq)
			if len(cq) >= len(cs) && strings.Join(cq[:len(cs)], "/") == strings.Join(cs, "/") {
				continue
			}
		}
		h := &Handles{}
		var listing []os.FileInfo
		var res Res
		if op.Name == "readdir" {
			// keep the listing itself as a handle
			func() {
				defer func() {
					if rec := recover(); rec != nil {
						res = Res{{"panic", fmt.Sprint(rec)}}
					}
				}()
				infos, err := v.fs.ReadDir(strings.Join(op.Sp, "/"))
				if err != nil {
					res = Res{{"err"}}
					return
				}
				listing = infos
				res = Res{{"list"}}
				for _, inf := range infos {
					res = append(res, []string{"e", inf.Name(), kind(inf.IsDir())})
				}
			}()
		} else {
			res = Exec(v.fs, op, d, h)
		}
		t, err := b.Project(d)
		ev := map[string]interface{}{"ev": "op", "base": segs(v.base), "name": op.Name, "sp": segs(op.Sp), "res": res}
		if cfg.DiskPre {
			ev["pre"] = true
		}
		ev["rootgone"] = b.RootGone()
		if op.Sq != nil {
			ev["sq"] = segs(op.Sq)
		}
		if op.D != "" {
			ev["d"] = op.D
		}
		if err != nil {
			ev["tree"] = [][]interface{}{{[]string{"<projection failed>"}, err.Error()}}
			tw.Emit(ev)
			return nil // the trace ends here; the validator rejects this line
		}
		ev["tree"] = treeJSON(t)
		if listing != nil {
			hid++
			ev["h"] = hid
			handles = append(handles, &liveHandle{id: hid, infos: listing, out: true})
		} else if op.Name == "readdir" && len(res) == 1 && res[0][0] == "list" {
			hid++
			ev["h"] = hid
			handles = append(handles, &liveHandle{id: hid, infos: []os.FileInfo{}, out: true})
		}
		for _, buf := range h.Out {
			hid++
			ev["h"] = hid
			handles = append(handles, &liveHandle{id: hid, buf: buf, out: true})
		}
		for _, buf := range h.In {
			if len(buf) > 0 {
				handles = append(handles, &liveHandle{id: 0, buf: buf})
			}
		}
		tw.Emit(ev)
		cur = t
		if len(res) == 1 && res[0][0] == "panic" {
			return nil
		}
	}
	return nil
}

// canon reduces a raw spelling the way varutil.ReduceAbsPath does (climbing is clamped).
func canon(sp []string) []string {
	var out []string
	for _, s := range sp {
		switch s {
		case "", ".":
		case "..":
			if len(out) > 0 {
				out = out[:len(out)-1]
			}
		default:
			out = append(out, s)
		}
	}
	return out
}
