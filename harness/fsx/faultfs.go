package fsx

import (
	"errors"
	"os"
	"sync"

	"github.com/goatcms/goatcore/filesystem"
)

// FaultPlan counts calls per method across a filespace (and the views and
// handles derived from it) and fails the K-th call of method Method.
type FaultPlan struct {
	mu     sync.Mutex
	Counts map[string]int
	Method string
	K      int
	Fired  bool
	// "*mutclose": like "*mut", but when the K-th mutating call is Writer() the open succeeds and the
	// stream's CLOSE fails (the flush of a backend that delivers on close)
	pendingClose bool
}

var ErrInjected = errors.New("injected I/O failure")

func NewFaultPlan(method string, k int) *FaultPlan {
	return &FaultPlan{Counts: map[string]int{}, Method: method, K: k}
}

func (p *FaultPlan) hit(method string) bool {
	p.mu.Lock()
	defer p.mu.Unlock()
	p.Counts[method]++
	if (p.Method == "*mut" || p.Method == "*mutclose") && (method == "Remove" || method == "RemoveAll" || method == "MkdirAll" || method == "Writer") {
		// the K-th MUTATING call, whatever its method
		p.Counts["*mut"]++
		if p.Counts["*mut"] == p.K {
			if p.Method == "*mutclose" && method == "Writer" {
				p.pendingClose = true
				return false
			}
			p.Fired = true
			return true
		}
		return false
	}
	if p.Method == "*mutclose" && method == "WriterClose" && p.pendingClose {
		p.pendingClose = false
		p.Fired = true
		return true
	}
	if method == p.Method && p.Counts[method] == p.K {
		p.Fired = true
		return true
	}
	return false
}

// Arm resets the counters and sets a new fault position.
func (p *FaultPlan) Arm(method string, k int) {
	p.mu.Lock()
	defer p.mu.Unlock()
	p.Counts = map[string]int{}
	p.Method, p.K, p.Fired, p.pendingClose = method, k, false, false
}

// Snapshot returns a copy of the call counters.
func (p *FaultPlan) Snapshot() map[string]int {
	p.mu.Lock()
	defer p.mu.Unlock()
	out := map[string]int{}
	for k, v := range p.Counts {
		out[k] = v
	}
	return out
}

// FaultFS decorates a filespace with a FaultPlan.
type FaultFS struct {
	FS
	Plan *FaultPlan
}

func (f *FaultFS) Copy(a, b string) error {
	if f.Plan.hit("Copy") {
		return ErrInjected
	}
	return f.FS.Copy(a, b)
}
func (f *FaultFS) CopyDirectory(a, b string) error {
	if f.Plan.hit("CopyDirectory") {
		return ErrInjected
	}
	return f.FS.CopyDirectory(a, b)
}
func (f *FaultFS) CopyFile(a, b string) error {
	if f.Plan.hit("CopyFile") {
		return ErrInjected
	}
	return f.FS.CopyFile(a, b)
}
func (f *FaultFS) ReadDir(p string) ([]os.FileInfo, error) {
	if f.Plan.hit("ReadDir") {
		return nil, ErrInjected
	}
	return f.FS.ReadDir(p)
}
func (f *FaultFS) MkdirAll(p string, m os.FileMode) error {
	if f.Plan.hit("MkdirAll") {
		return ErrInjected
	}
	return f.FS.MkdirAll(p, m)
}
func (f *FaultFS) ReadFile(p string) ([]byte, error) {
	if f.Plan.hit("ReadFile") {
		return nil, ErrInjected
	}
	return f.FS.ReadFile(p)
}
func (f *FaultFS) WriteFile(p string, d []byte, m os.FileMode) error {
	if f.Plan.hit("WriteFile") {
		return ErrInjected
	}
	return f.FS.WriteFile(p, d, m)
}
func (f *FaultFS) Remove(p string) error {
	if f.Plan.hit("Remove") {
		return ErrInjected
	}
	return f.FS.Remove(p)
}
func (f *FaultFS) RemoveAll(p string) error {
	if f.Plan.hit("RemoveAll") {
		return ErrInjected
	}
	return f.FS.RemoveAll(p)
}
func (f *FaultFS) Lstat(p string) (os.FileInfo, error) {
	if f.Plan.hit("Lstat") {
		return nil, ErrInjected
	}
	return f.FS.Lstat(p)
}
func (f *FaultFS) Filespace(p string) (filesystem.Filespace, error) {
	if f.Plan.hit("Filespace") {
		return nil, ErrInjected
	}
	sub, err := f.FS.Filespace(p)
	if err != nil {
		return nil, err
	}
	return &FaultFS{FS: sub, Plan: f.Plan}, nil
}
func (f *FaultFS) Reader(p string) (filesystem.Reader, error) {
	if f.Plan.hit("Reader") {
		return nil, ErrInjected
	}
	r, err := f.FS.Reader(p)
	if err != nil {
		return nil, err
	}
	return &faultReader{r: r, plan: f.Plan}, nil
}
func (f *FaultFS) Writer(p string) (filesystem.Writer, error) {
	if f.Plan.hit("Writer") {
		return nil, ErrInjected
	}
	w, err := f.FS.Writer(p)
	if err != nil {
		return nil, err
	}
	return &faultWriter{w: w, plan: f.Plan, fs: f.FS, path: p}, nil
}

type faultReader struct {
	r    filesystem.Reader
	plan *FaultPlan
}

func (r *faultReader) Read(p []byte) (int, error) {
	if r.plan.hit("Read") {
		return 0, ErrInjected
	}
	return r.r.Read(p)
}
func (r *faultReader) Close() error {
	if r.plan.hit("ReaderClose") {
		r.r.Close()
		return ErrInjected
	}
	return r.r.Close()
}

type faultWriter struct {
	w    filesystem.Writer
	plan *FaultPlan
	fs   FS
	path string
}

func (w *faultWriter) Write(p []byte) (int, error) {
	if w.plan.hit("Write") {
		return 0, ErrInjected
	}
	return w.w.Write(p)
}

// a failing Close still releases the underlying handle (otherwise the
// in-memory file would stay locked) but, like a failed flush, the data did
// not make it: the file is left holding a truncated marker
func (w *faultWriter) Close() error {
	if w.plan.hit("WriterClose") {
		w.w.Close()
		w.fs.WriteFile(w.path, []byte("TRUNCATED-BY-FAILED-CLOSE"), filesystem.DefaultUnixFileMode)
		return ErrInjected
	}
	return w.w.Close()
}
