package fsx

import (
	"fmt"
	"io/ioutil"
	"os"
	"path/filepath"
	"sort"
	"strings"

	"github.com/goatcms/goatcore/filesystem"
	"github.com/goatcms/goatcore/filesystem/filespace/diskfs"
	"github.com/goatcms/goatcore/filesystem/filespace/encryptfs"
	"github.com/goatcms/goatcore/filesystem/filespace/encryptfs/cipherfs"
	"github.com/goatcms/goatcore/filesystem/filespace/encryptfs/cipherfs/aesgcm256cfs"
	"github.com/goatcms/goatcore/filesystem/filespace/encryptfs/cipherfs/extcfs"
	"github.com/goatcms/goatcore/filesystem/filespace/memfs"
)

// Backend is a fresh filespace under test plus a way to look at everything
// that lies outside it (the rest of the parent tree / the host directory).
type Backend struct {
	Kind    string
	FS      FS
	Outside func() string // fingerprint of everything outside the view's root
	Cleanup func()
	// Root and Base are set for child views: the parent filespace and the
	// view's canonical base path in it.
	Root FS
	Base []string
	// HostRoot is set for disk roots: the host directory of the root.
	HostRoot string
	// RootPath is set for disk backends (root or view): the host directory the backend's FS is rooted in.
	RootPath string
}

// RootGone reports that the directory a backend is rooted in no longer exists (a disk
// filespace or a child view removed its own root): cheap scalar state logged with every event.
func (b *Backend) RootGone() bool {
	if b.RootPath == "" {
		// a child view of an in-memory filespace: its base must be a directory of the parent
		if b.Root != nil && len(b.Base) > 0 {
			return !b.Root.IsDir(strings.Join(b.Base, "/"))
		}
		return false
	}
	_, err := os.Stat(b.RootPath)
	return os.IsNotExist(err)
}

// Project returns the abstract tree seen through the backend.  For a child
// view the tree is read through the PARENT (nodes strictly below the base,
// rebased) so that a view whose own root directory was removed is an empty
// tree rather than a projection failure; while the base exists the view's own
// projection is cross-checked against it.
func (b *Backend) Project(d *Dict) (Tree, error) {
	if b.Root == nil {
		if b.HostRoot != "" {
			if _, err := os.Stat(b.HostRoot); os.IsNotExist(err) {
				return Tree{}, nil
			}
		}
		return Project(b.FS, d)
	}
	all, err := Project(b.Root, d)
	if err != nil {
		return nil, err
	}
	var sub Tree
	baseKey := strings.Join(b.Base, "/")
	baseIsDir := false
	for _, n := range all {
		if len(n.P) == len(b.Base) && strings.Join(n.P, "/") == baseKey && n.V == "D" {
			baseIsDir = true
		}
		if len(n.P) > len(b.Base) && strings.Join(n.P[:len(b.Base)], "/") == baseKey {
			sub = append(sub, Node{P: append([]string{}, n.P[len(b.Base):]...), V: n.V})
		}
	}
	SortTree(sub)
	if baseIsDir {
		own, err := Project(b.FS, d)
		if err != nil {
			return nil, fmt.Errorf("through the view: %v", err)
		}
		if own.Key() != sub.Key() {
			return nil, fmt.Errorf("the view shows %s but the parent holds %s below %s", own.Key(), sub.Key(), baseKey)
		}
	}
	return sub, nil
}

const sentinel = "SENTINEL-outside-the-root"

func memOutside(root FS, skip string) func() string {
	return func() string {
		var lines []string
		var walk func(p string)
		walk = func(p string) {
			infos, err := root.ReadDir(p)
			if err != nil {
				lines = append(lines, "ERR "+p)
				return
			}
			for _, inf := range infos {
				c := inf.Name()
				if p != "" {
					c = p + "/" + inf.Name()
				}
				if c == skip {
					continue // the view's own root (its existence belongs to the view)
				}
				if inf.IsDir() {
					lines = append(lines, "D "+c)
					if inf.Name() != "." && inf.Name() != ".." {
						walk(c)
					}
				} else {
					b, _ := root.ReadFile(c)
					lines = append(lines, "F "+c+" "+string(b))
				}
			}
		}
		walk("")
		sort.Strings(lines)
		return strings.Join(lines, "\n")
	}
}

func diskOutside(host string, skip string) func() string {
	return func() string {
		var lines []string
		filepath.Walk(host, func(p string, info os.FileInfo, err error) error {
			if err != nil {
				lines = append(lines, "ERR "+p)
				return nil
			}
			if p == skip {
				if info.IsDir() {
					return filepath.SkipDir
				}
				return nil
			}
			if info.IsDir() {
				lines = append(lines, "D "+p)
			} else {
				b, _ := ioutil.ReadFile(p)
				lines = append(lines, "F "+p+" "+string(b))
			}
			return nil
		})
		sort.Strings(lines)
		return strings.Join(lines, "\n")
	}
}

// NewBackend creates a fresh backend of the given kind.  tmp is a scratch
// directory for disk backends.
func NewBackend(kind string, tmp string) (*Backend, error) {
	switch kind {
	case "mem":
		fs, err := memfs.NewFilespace()
		if err != nil {
			return nil, err
		}
		return &Backend{Kind: kind, FS: fs, Outside: func() string { return "" }, Cleanup: func() {}}, nil
	case "crypt", "cryptx":
		base, err := memfs.NewFilespace()
		if err != nil {
			return nil, err
		}
		var c cipherfs.Cipher = aesgcm256cfs.NewCipher()
		if kind == "cryptx" {
			c = extcfs.NewDefaultCipher()
		}
		fs, err := encryptfs.NewEncryptFS(base, encryptfs.Settings{Salt: []byte("salt"), Secret: []byte("secret"), Cipher: c})
		if err != nil {
			return nil, err
		}
		return &Backend{Kind: kind, FS: fs, Outside: func() string { return "" }, Cleanup: func() {}}, nil
	case "memview", "memview2":
		root, err := memfs.NewFilespace()
		if err != nil {
			return nil, err
		}
		base := "v1"
		if kind == "memview2" {
			base = "v1/v2"
		}
		for _, p := range []string{"s.txt", "v1/s.txt", "sib/s.txt", "v1x/s.txt"} {
			if kind == "memview" && p == "v1/s.txt" {
				continue
			}
			if err := root.WriteFile(p, []byte(sentinel), filesystem.DefaultUnixFileMode); err != nil {
				return nil, err
			}
		}
		if err := root.MkdirAll(base, filesystem.DefaultUnixDirMode); err != nil {
			return nil, err
		}
		var view FS
		if kind == "memview" {
			view, err = root.Filespace(base)
		} else {
			var v1 FS
			if v1, err = root.Filespace("v1"); err == nil {
				view, err = v1.Filespace("v2")
			}
		}
		if err != nil {
			return nil, err
		}
		return &Backend{Kind: kind, FS: view, Outside: memOutside(root, base), Cleanup: func() {}, Root: root, Base: strings.Split(base, "/")}, nil
	case "disk", "diskview":
		host, err := ioutil.TempDir(tmp, "dfs")
		if err != nil {
			return nil, err
		}
		rootDir := filepath.Join(host, "root")
		if err := os.MkdirAll(rootDir, 0777); err != nil {
			return nil, err
		}
		ioutil.WriteFile(filepath.Join(host, "s.txt"), []byte(sentinel), 0644)
		os.MkdirAll(filepath.Join(host, "sib"), 0777)
		ioutil.WriteFile(filepath.Join(host, "sib", "s.txt"), []byte(sentinel), 0644)
		fs, err := diskfs.NewFilespace(rootDir)
		if err != nil {
			return nil, err
		}
		skip := rootDir
		var rootFS FS
		var base []string
		hostRoot := rootDir
		if kind == "diskview" {
			rootFS, base, hostRoot = fs, []string{"v"}, ""
			ioutil.WriteFile(filepath.Join(rootDir, "s.txt"), []byte(sentinel), 0644)
			os.MkdirAll(filepath.Join(rootDir, "v"), 0777)
			if fs, err = fs.Filespace("v"); err != nil {
				return nil, err
			}
			skip = filepath.Join(rootDir, "v")
		}
		return &Backend{Kind: kind, FS: fs, Outside: diskOutside(host, skip), Cleanup: func() { os.RemoveAll(host) }, Root: rootFS, Base: base, HostRoot: hostRoot, RootPath: skip}, nil
	}
	return nil, fmt.Errorf("unknown backend %q", kind)
}
