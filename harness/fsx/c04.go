package fsx

import (
	"bytes"
	"fmt"
	"io"
	"io/ioutil"
	"os"
	"path/filepath"
	"strings"

	"github.com/goatcms/goatcore/filesystem"
	"github.com/goatcms/goatcore/filesystem/filespace/diskfs"
	"github.com/goatcms/goatcore/filesystem/filespace/encryptfs"
	"github.com/goatcms/goatcore/filesystem/filespace/encryptfs/cipherfs/aesgcm256cfs"
	"github.com/goatcms/goatcore/filesystem/filespace/encryptfs/cipherfs/extcfs"
	"github.com/goatcms/goatcore/filesystem/filespace/memfs"
	"github.com/goatcms/goatcore/filesystem/fscache"
)

// NewStore creates a fresh backend for the stream/copy checks:
// mem | disk | crypt (AES-GCM over mem) | cryptx (tagged cipher over disk) | cache (over mem)
func NewStore(kind, tmp string) (FS, func(), error) {
	switch kind {
	case "mem":
		fs, err := memfs.NewFilespace()
		return fs, func() {}, err
	case "disk", "cryptx":
		dir, err := ioutil.TempDir(tmp, "st")
		if err != nil {
			return nil, nil, err
		}
		fs, err := diskfs.NewFilespace(filepath.Join(dir))
		if err != nil {
			return nil, nil, err
		}
		if kind == "cryptx" {
			fs, err = encryptfs.NewEncryptFS(fs, encryptfs.Settings{Salt: []byte("s"), Secret: []byte("k"), Cipher: extcfs.NewDefaultCipher()})
		}
		return fs, func() { os.RemoveAll(dir) }, err
	case "crypt":
		base, err := memfs.NewFilespace()
		if err != nil {
			return nil, nil, err
		}
		fs, err := encryptfs.NewEncryptFS(base, encryptfs.Settings{Salt: []byte("s"), Secret: []byte("k"), Cipher: aesgcm256cfs.NewCipher()})
		return fs, func() {}, err
	case "cache":
		base, err := memfs.NewFilespace()
		if err != nil {
			return nil, nil, err
		}
		c, err := fscache.NewMemCache(base)
		return c, func() {}, err
	}
	return nil, nil, fmt.Errorf("unknown store %q", kind)
}

// ChunkBytes maps the chunk tokens of Stream.tla to bytes.
func ChunkBytes(tok string) []byte {
	switch tok {
	case "e":
		return []byte{}
	case "s":
		return []byte("short")
	case "L":
		b := make([]byte, 70001) // longer than io.Copy's 32 KiB buffer
		for i := range b {
			b[i] = byte(i*7 + 3)
		}
		return b
	case "p1":
		return []byte("pre")
	case "p2":
		return bytes.Repeat([]byte("PRE-EXISTING-"), 9000) // longer than anything written
	case "p3":
		return []byte("tail")
	}
	return []byte("tok:" + tok)
}

func concat(toks []string) []byte {
	var b []byte
	for _, t := range toks {
		b = append(b, ChunkBytes(t)...)
	}
	return b
}

// BufSizes maps a buffer pattern of Stream.tla to read sizes (cycled).
func BufSizes(p string) []int {
	switch p {
	case "one":
		return []int{1}
	case "small":
		return []int{3, 5}
	case "mixed":
		return []int{1, 4096, 7, 100000, 2}
	}
	return []int{1 << 20}
}

// StreamScenario is one complete behaviour of Stream.tla.
type StreamScenario struct {
	Pre    string   `json:"pre"`
	Chunks []string `json:"chunks"`
	Bufp   string   `json:"bufp"`
	Final  []string `json:"final"`
	Read   []string `json:"read"`
}

// RunStream executes a stream scenario on a fresh store and compares with the model.
func RunStream(sc *StreamScenario, kind, tmp string) (fail string) {
	defer func() {
		if r := recover(); r != nil {
			fail = fmt.Sprintf("panic: %v", r)
		}
	}()
	fs, cleanup, err := NewStore(kind, tmp)
	if err != nil {
		return "infra: " + err.Error()
	}
	defer cleanup()
	path := "dir/file.bin"
	if err := fs.MkdirAll("dir", filesystem.DefaultUnixDirMode); err != nil {
		return "infra: mkdir: " + err.Error()
	}
	switch sc.Pre {
	case "empty":
		err = fs.WriteFile(path, []byte{}, filesystem.DefaultUnixFileMode)
	case "short":
		err = fs.WriteFile(path, concat([]string{"p1"}), filesystem.DefaultUnixFileMode)
	case "long":
		err = fs.WriteFile(path, concat([]string{"p1", "p2", "p3"}), filesystem.DefaultUnixFileMode)
	}
	if err != nil {
		return "infra: pre-state: " + err.Error()
	}
	w, err := fs.Writer(path)
	if err != nil {
		return "Writer failed: " + err.Error()
	}
	// the caller owns its buffer: like io.Copy it reuses ONE buffer for every chunk and overwrites it as soon
	// as Write has returned (io.Writer: "implementations must not retain p")
	var shared []byte
	for ci, c := range sc.Chunks {
		src := ChunkBytes(c)
		if cap(shared) < len(src) {
			shared = make([]byte, len(src))
		}
		b := shared[:len(src)]
		copy(b, src)
		n, err := WriteVia(w, b, ci+len(sc.Chunks))
		if err != nil || n != len(b) {
			w.Close()
			return fmt.Sprintf("Write(%s) = %d, %v", c, n, err)
		}
		for i := range b {
			b[i] = 0xEE
		}
	}
	if err := w.Close(); err != nil {
		return "Close failed: " + err.Error()
	}
	want := concat(sc.Final)
	got, err := fs.ReadFile(path)
	if err != nil {
		return "ReadFile after Close failed: " + err.Error()
	}
	if !bytes.Equal(got, want) {
		return fmt.Sprintf("after Close the file holds %d bytes (%.30q...), the writer's chunks are %d bytes (%.30q...)", len(got), got, len(want), want)
	}
	r, err := fs.Reader(path)
	if err != nil {
		return "Reader failed: " + err.Error()
	}
	sizes := BufSizes(sc.Bufp)
	var buf bytes.Buffer
	for i := 0; i < 1<<22; i++ {
		tmpb := make([]byte, sizes[i%len(sizes)])
		n, err := r.Read(tmpb)
		if n < 0 || n > len(tmpb) {
			r.Close()
			return fmt.Sprintf("Read returned n=%d for a buffer of %d", n, len(tmpb))
		}
		buf.Write(tmpb[:n])
		if err == io.EOF {
			break
		}
		if err != nil {
			r.Close()
			return "Read failed: " + err.Error()
		}
		if buf.Len() > len(want)+10 {
			break
		}
	}
	if err := r.Close(); err != nil {
		return "reader Close failed: " + err.Error()
	}
	if !bytes.Equal(buf.Bytes(), concat(sc.Read)) {
		return fmt.Sprintf("reader (buffer pattern %s) returned %d bytes, stored content has %d", sc.Bufp, buf.Len(), len(want))
	}
	return ""
}

// CopyScenario is one scenario of CopyHelper.tla.
type CopyScenario struct {
	Src    Tree
	Pre    Tree
	Dpre   string
	Helper string
	Work   [][]string
	Raw    string
}

func contentOf(tok string) []byte {
	switch tok {
	case "x":
		return []byte("content-x")
	case "y":
		return ChunkBytes("L")
	case "stale-and-longer":
		return ChunkBytes("p2")
	case "k":
		return []byte("keep-me")
	case "same-x", "same-y":
		b := append([]byte{}, contentOf(tok[5:])...)
		for i := range b {
			b[i] ^= 0x20
		}
		return b
	}
	return []byte(tok)
}

func buildUnder(fs FS, prefix string, t Tree) error {
	if err := fs.MkdirAll(prefix, filesystem.DefaultUnixDirMode); err != nil {
		return err
	}
	for _, n := range t {
		p := prefix + "/" + strings.Join(n.P, "/")
		if n.V == "D" {
			if err := fs.MkdirAll(p, filesystem.DefaultUnixDirMode); err != nil {
				return err
			}
		} else {
			if err := fs.WriteFile(p, contentOf(n.V), filesystem.DefaultUnixFileMode); err != nil {
				return err
			}
		}
	}
	return nil
}

// CopyFailure is one observed violation in a copy scenario.
type CopyFailure struct {
	Key  string `json:"key"`
	What string `json:"what"`
}

type copyOutcome struct {
	err      error
	complete string // "" when complete, else what is missing
	kept     bool
	panicked string
	countsS  map[string]int
	countsD  map[string]int
	firedS   bool
	firedD   bool
}

func runCopyOnce(sc *CopyScenario, srcKind, destKind, tmp string, planS, planD *FaultPlan, copyFn CopyFns) (out copyOutcome) {
	srcFS, c1, err := NewStore(srcKind, tmp)
	if err != nil {
		out.panicked = "infra: " + err.Error()
		return
	}
	defer c1()
	destFS, c2, err := NewStore(destKind, tmp)
	if err != nil {
		out.panicked = "infra: " + err.Error()
		return
	}
	defer c2()
	if err := buildUnder(srcFS, "S", sc.Src); err != nil {
		out.panicked = "infra: build src: " + err.Error()
		return
	}
	if err := buildUnder(destFS, "T", sc.Pre); err != nil {
		out.panicked = "infra: build dest pre-state: " + err.Error()
		return
	}
	var file string
	if len(sc.Work) > 0 {
		file = strings.Join(sc.Work[0], "/")
	}
	if sc.Helper == "copierfile" || sc.Helper == "streamcopy" {
		// these helpers copy one file; the destination directory is the caller's business
		if i := strings.LastIndex(file, "/"); i >= 0 {
			destFS.MkdirAll("T/"+file[:i], filesystem.DefaultUnixDirMode)
		}
	}
	fsrc := &FaultFS{FS: srcFS, Plan: planS}
	fdst := &FaultFS{FS: destFS, Plan: planD}
	subS, e1 := srcFS.Filespace("S")
	subD, e2 := destFS.Filespace("T")
	if e1 != nil || e2 != nil {
		out.panicked = fmt.Sprintf("infra: sub views: %v %v", e1, e2)
		return
	}
	func() {
		defer func() {
			if r := recover(); r != nil {
				out.panicked = fmt.Sprint(r)
			}
		}()
		switch sc.Helper {
		case "fscopy":
			out.err = copyFn.Copy(&FaultFS{FS: subS, Plan: planS}, &FaultFS{FS: subD, Plan: planD})
		case "copierdir":
			out.err = copyFn.Copier(fsrc, "S", fdst, "T")
		case "copierfile":
			out.err = copyFn.Copier(fsrc, "S/"+file, fdst, "T/"+file)
		case "streamcopy":
			out.err = copyFn.StreamCopy(&FaultFS{FS: subS, Plan: planS}, &FaultFS{FS: subD, Plan: planD}, file)
		}
	}()
	out.countsS, out.countsD = planS.Snapshot(), planD.Snapshot()
	out.firedS, out.firedD = planS.Fired, planD.Fired
	if out.panicked != "" {
		return
	}
	for _, wp := range sc.Work {
		key := strings.Join(wp, "/")
		var want string
		for _, n := range sc.Src {
			if strings.Join(n.P, "/") == key {
				want = n.V
			}
		}
		p := "T/" + key
		if want == "D" {
			if !destFS.IsDir(p) {
				out.complete = "directory " + key + " is missing in the destination"
				break
			}
		} else {
			got, err := destFS.ReadFile(p)
			if err != nil {
				out.complete = "file " + key + " is missing in the destination (" + err.Error() + ")"
				break
			}
			if !bytes.Equal(got, contentOf(want)) {
				out.complete = fmt.Sprintf("file %s has %d bytes in the destination, %d in the source", key, len(got), len(contentOf(want)))
				break
			}
		}
	}
	out.kept = true
	if sc.Dpre == "extra" {
		got, err := destFS.ReadFile("T/zz/keep")
		out.kept = err == nil && bytes.Equal(got, contentOf("k"))
	}
	return
}

// CopyFns are the helpers under test (injected so that this package does not
// import fshelper directly in tests).
type CopyFns struct {
	Copy       func(src, dst FS) error
	Copier     func(src FS, sp string, dst FS, dp string) error
	StreamCopy func(src, dst FS, p string) error
}

// RunCopy executes a copy scenario without fault and then with every single
// fault position on every primitive call of either side.
func RunCopy(sc *CopyScenario, srcKind, destKind, tmp string, fns CopyFns, maxFaults int) (runs int, fails []CopyFailure) {
	base := runCopyOnce(sc, srcKind, destKind, tmp, NewFaultPlan("", 0), NewFaultPlan("", 0), fns)
	runs++
	if strings.HasPrefix(base.panicked, "infra:") {
		return runs, []CopyFailure{{Key: "infra", What: base.panicked}}
	}
	if base.panicked != "" {
		return runs, []CopyFailure{{Key: "panic:" + sc.Helper, What: base.panicked}}
	}
	if base.err != nil {
		fails = append(fails, CopyFailure{Key: "nofault-err:" + sc.Helper, What: "without any fault the helper failed: " + base.err.Error()})
		return
	}
	if base.complete != "" {
		fails = append(fails, CopyFailure{Key: "ok-incomplete:" + sc.Helper, What: "no fault, helper returned nil, but " + base.complete})
		return
	}
	if !base.kept {
		fails = append(fails, CopyFailure{Key: "unrelated-lost:" + sc.Helper, What: "unrelated destination content was removed or changed"})
	}
	n := 0
	for _, side := range []string{"src", "dst"} {
		counts := base.countsS
		if side == "dst" {
			counts = base.countsD
		}
		var methods []string
		for m := range counts {
			methods = append(methods, m)
		}
		sortStrings(methods)
		for _, m := range methods {
			for k := 1; k <= counts[m]; k++ {
				if maxFaults > 0 && n >= maxFaults {
					return
				}
				n++
				ps, pd := NewFaultPlan("", 0), NewFaultPlan("", 0)
				if side == "src" {
					ps = NewFaultPlan(m, k)
				} else {
					pd = NewFaultPlan(m, k)
				}
				o := runCopyOnce(sc, srcKind, destKind, tmp, ps, pd, fns)
				runs++
				tag := fmt.Sprintf("%s.%s#%d", side, m, k)
				if o.panicked != "" {
					fails = append(fails, CopyFailure{Key: "panic:" + sc.Helper, What: tag + ": " + o.panicked})
					continue
				}
				if o.err == nil && o.complete != "" {
					fails = append(fails, CopyFailure{Key: "fault-swallowed:" + sc.Helper + ":" + side + "." + m,
						What: fmt.Sprintf("injected failure at %s: helper returned nil although %s", tag, o.complete)})
				}
			}
		}
	}
	return
}

func sortStrings(s []string) {
	for i := 1; i < len(s); i++ {
		for j := i; j > 0 && s[j] < s[j-1]; j-- {
			s[j], s[j-1] = s[j-1], s[j]
		}
	}
}
