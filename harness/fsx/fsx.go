// Package fsx binds the FsTree specification to real Filespace objects:
// projection of a real filespace to the abstract tree, execution of one
// abstract call with a raw path spelling, and encoding of results in the
// specification's result encoding (a set of string tuples).
package fsx

import (
	"bytes"
	"encoding/hex"
	"fmt"
	"io"
	"os"
	"runtime"
	"sort"
	"strings"
	"sync"

	"github.com/goatcms/goatcore/filesystem"
)

// FS is an alias so that structs can embed it without clashing with the
// Filespace() method.
type FS = filesystem.Filespace

// Node is one entry of an abstract tree: path segments and "D" or a content token.
type Node struct {
	P []string
	V string
}

// Tree is a sorted list of nodes.
type Tree []Node

func (t Tree) Key() string {
	var b strings.Builder
	for _, n := range t {
		b.WriteString(strings.Join(n.P, "/"))
		b.WriteByte('=')
		b.WriteString(n.V)
		b.WriteByte(';')
	}
	return b.String()
}

func SortTree(t Tree) {
	sort.Slice(t, func(i, j int) bool { return strings.Join(t[i].P, "/") < strings.Join(t[j].P, "/") })
}

// Dict maps content tokens to bytes and back.
type Dict struct {
	mu    sync.RWMutex
	tok2b map[string][]byte
	b2tok map[string]string
}

func NewDict() *Dict {
	d := &Dict{tok2b: map[string][]byte{}, b2tok: map[string]string{}}
	d.Add("x", []byte("X-content-longer"))
	d.Add("y", []byte("yy"))
	d.Add("z", []byte{})
	d.Add("w", []byte{0, 255, '\n', '/', 0})
	return d
}

func (d *Dict) Add(tok string, b []byte) {
	d.mu.Lock()
	defer d.mu.Unlock()
	d.tok2b[tok] = b
	d.b2tok[string(b)] = tok
}

// Bytes returns a fresh copy of the bytes of a token.
func (d *Dict) Bytes(tok string) []byte {
	d.mu.RLock()
	b, ok := d.tok2b[tok]
	d.mu.RUnlock()
	if !ok {
		b = []byte("tok:" + tok)
		d.Add(tok, b)
	}
	return append([]byte{}, b...)
}

func (d *Dict) Token(b []byte) string {
	d.mu.RLock()
	t, ok := d.b2tok[string(b)]
	d.mu.RUnlock()
	if ok {
		return t
	}
	if len(b) > 24 {
		return "?" + hex.EncodeToString(b[:24]) + fmt.Sprintf("..(%d)", len(b))
	}
	return "?" + hex.EncodeToString(b)
}

// Project walks a real filespace and returns the abstract tree.  It also
// cross-checks that the query methods agree with the listing; any
// disagreement is returned as an error (it is an observable inconsistency).
func Project(fs FS, d *Dict) (Tree, error) {
	var out Tree
	var walk func(prefix []string) error
	walk = func(prefix []string) error {
		dir := strings.Join(prefix, "/")
		infos, err := fs.ReadDir(dir)
		if err != nil {
			return fmt.Errorf("ReadDir(%q): %v", dir, err)
		}
		seen := map[string]bool{}
		for _, inf := range infos {
			name := inf.Name()
			if seen[name] {
				return fmt.Errorf("ReadDir(%q) lists %q twice", dir, name)
			}
			seen[name] = true
			p := append(append([]string{}, prefix...), name)
			ps := strings.Join(p, "/")
			if name == "" || strings.Contains(name, "/") {
				return fmt.Errorf("ReadDir(%q) lists illegal name %q", dir, name)
			}
			if !fs.IsExist(ps) {
				return fmt.Errorf("listed node %q but IsExist is false", ps)
			}
			st, err := fs.Lstat(ps)
			if err != nil {
				return fmt.Errorf("listed node %q but Lstat fails: %v", ps, err)
			}
			if st.IsDir() != inf.IsDir() || st.Name() != name {
				return fmt.Errorf("Lstat(%q) disagrees with listing", ps)
			}
			if inf.IsDir() {
				if !fs.IsDir(ps) || fs.IsFile(ps) {
					return fmt.Errorf("listed dir %q but IsDir/IsFile disagree", ps)
				}
				out = append(out, Node{P: p, V: "D"})
				if name == "." || name == ".." {
					// a phantom node: record it but do not descend (would loop on disk)
					continue
				}
				if err := walk(p); err != nil {
					return err
				}
			} else {
				if fs.IsDir(ps) || !fs.IsFile(ps) {
					return fmt.Errorf("listed file %q but IsDir/IsFile disagree", ps)
				}
				data, err := fs.ReadFile(ps)
				if err != nil {
					return fmt.Errorf("listed file %q but ReadFile fails: %v", ps, err)
				}
				out = append(out, Node{P: p, V: d.Token(data)})
			}
		}
		return nil
	}
	if err := walk(nil); err != nil {
		return nil, err
	}
	SortTree(out)
	return out, nil
}

// Build creates the abstract tree t in an (empty) filespace using canonical paths.
func Build(fs FS, t Tree, d *Dict) error {
	nodes := append(Tree{}, t...)
	sort.SliceStable(nodes, func(i, j int) bool { return len(nodes[i].P) < len(nodes[j].P) })
	for _, n := range nodes {
		p := strings.Join(n.P, "/")
		if n.V == "D" {
			if err := fs.MkdirAll(p, filesystem.DefaultUnixDirMode); err != nil {
				return fmt.Errorf("build MkdirAll(%q): %v", p, err)
			}
		} else {
			if err := fs.WriteFile(p, d.Bytes(n.V), filesystem.DefaultUnixFileMode); err != nil {
				return fmt.Errorf("build WriteFile(%q): %v", p, err)
			}
		}
	}
	return nil
}

// Res is a result in the specification's encoding: a set of string tuples.
type Res [][]string

func (r Res) Key() string {
	s := make([]string, len(r))
	for i, t := range r {
		s[i] = strings.Join(t, "\x00")
	}
	sort.Strings(s)
	return strings.Join(s, "\x01")
}

func okErr(err error) Res {
	if err != nil {
		return Res{{"err"}}
	}
	return Res{{"ok"}}
}

func boolRes(b bool) Res {
	if b {
		return Res{{"true"}}
	}
	return Res{{"false"}}
}

func kind(isDir bool) string {
	if isDir {
		return "D"
	}
	return "F"
}

// Op is one abstract call with raw spellings.
type Op struct {
	Name string   `json:"name"`
	Sp   []string `json:"sp"`
	Sq   []string `json:"sq,omitempty"`
	D    string   `json:"d,omitempty"`
	// Chunks: for wstream, how the content is cut (sizes); for rstream the read buffer size
	Chunk int `json:"chunk,omitempty"`
	// Yield: for wstream, yield the processor between two chunks (concurrent drivers)
	Yield bool `json:"-"`
}

func (o Op) String() string {
	s := fmt.Sprintf("%s(%q", o.Name, strings.Join(o.Sp, "/"))
	if o.Sq != nil {
		s += fmt.Sprintf(",%q", strings.Join(o.Sq, "/"))
	}
	if o.D != "" {
		s += "," + o.D
	}
	return s + ")"
}

// Handles collects buffers handed in or out, for the snapshot obligation.
type Handles struct {
	In  [][]byte // buffers the caller handed in (may be scribbled afterwards)
	Out [][]byte // buffers handed out by the filespace
}

// Exec runs one abstract call on a real filespace.  Panics are recovered and
// returned as a result that no specification outcome matches.
func Exec(fs FS, op Op, d *Dict, h *Handles) (res Res) {
	defer func() {
		if r := recover(); r != nil {
			res = Res{{"panic", fmt.Sprint(r)}}
		}
	}()
	p := strings.Join(op.Sp, "/")
	q := strings.Join(op.Sq, "/")
	switch op.Name {
	case "write":
		buf := d.Bytes(op.D)
		err := fs.WriteFile(p, buf, filesystem.DefaultUnixFileMode)
		if h != nil {
			h.In = append(h.In, buf)
		}
		return okErr(err)
	case "wstream":
		w, err := fs.Writer(p)
		if err != nil {
			return Res{{"err"}}
		}
		buf := d.Bytes(op.D)
		chunk := op.Chunk
		if chunk <= 0 {
			chunk = len(buf) + 1
		}
		var werr error
		for off := 0; off < len(buf) && werr == nil; off += chunk {
			end := off + chunk
			if end > len(buf) {
				end = len(buf)
			}
			part := append([]byte{}, buf[off:end]...)
			var n int
			n, werr = WriteVia(w, part, off/chunk+chunk)
			if werr == nil && n != len(part) {
				werr = io.ErrShortWrite
			}
			if h != nil {
				h.In = append(h.In, part)
			} else {
				Scribble(part) // the caller reuses its buffer once Write has returned
			}
			if op.Yield {
				runtime.Gosched() // concurrent drivers: let another goroutine in between two chunks
			}
		}
		cerr := w.Close()
		if werr != nil {
			return Res{{"err"}}
		}
		return okErr(cerr)
	case "mkdir":
		return okErr(fs.MkdirAll(p, filesystem.DefaultUnixDirMode))
	case "remove":
		return okErr(fs.Remove(p))
	case "removeall":
		return okErr(fs.RemoveAll(p))
	case "read":
		data, err := fs.ReadFile(p)
		if err != nil {
			return Res{{"err"}}
		}
		if h != nil {
			h.Out = append(h.Out, data)
		}
		return Res{{"data", d.Token(data)}}
	case "rstream":
		r, err := fs.Reader(p)
		if err != nil {
			return Res{{"err"}}
		}
		var buf bytes.Buffer
		chunk := op.Chunk
		if chunk <= 0 {
			chunk = 7
		}
		tmp := make([]byte, chunk)
		var rerr error
		for i := 0; i < 1<<20; i++ {
			n, e := r.Read(tmp)
			buf.Write(tmp[:n])
			if e == io.EOF {
				break
			}
			if e != nil {
				rerr = e
				break
			}
		}
		cerr := r.Close()
		if rerr != nil || cerr != nil {
			return Res{{"err"}}
		}
		return Res{{"data", d.Token(buf.Bytes())}}
	case "readdir":
		infos, err := fs.ReadDir(p)
		if err != nil {
			return Res{{"err"}}
		}
		out := Res{{"list"}}
		for _, inf := range infos {
			out = append(out, []string{"e", inf.Name(), kind(inf.IsDir())})
		}
		return out
	case "isexist":
		return boolRes(fs.IsExist(p))
	case "isfile":
		return boolRes(fs.IsFile(p))
	case "isdir":
		return boolRes(fs.IsDir(p))
	case "lstat":
		inf, err := fs.Lstat(p)
		if err != nil {
			return Res{{"err"}}
		}
		return Res{{"stat", inf.Name(), kind(inf.IsDir())}}
	case "copy":
		return okErr(fs.Copy(p, q))
	case "copyfile":
		return okErr(fs.CopyFile(p, q))
	case "copydir":
		return okErr(fs.CopyDirectory(p, q))
	}
	return Res{{"unknown-op", op.Name}}
}

// ListingSnapshot is a directory listing taken at some moment together with
// what it said then.
type ListingSnapshot struct {
	Dir   string
	Infos []os.FileInfo
	Then  []string
}

func listingNames(infos []os.FileInfo) []string {
	out := make([]string, len(infos))
	for i, inf := range infos {
		func() {
			defer func() {
				if recover() != nil {
					out[i] = "<panic>"
				}
			}()
			out[i] = inf.Name() + ":" + kind(inf.IsDir())
		}()
	}
	return out
}

// SnapshotListings lists every directory of t (and the root) and remembers the answer.
func SnapshotListings(fs FS, t Tree) []ListingSnapshot {
	dirs := []string{""}
	for _, n := range t {
		if n.V == "D" {
			dirs = append(dirs, strings.Join(n.P, "/"))
		}
	}
	var out []ListingSnapshot
	for _, dname := range dirs {
		infos, err := fs.ReadDir(dname)
		if err != nil {
			continue
		}
		out = append(out, ListingSnapshot{Dir: dname, Infos: infos, Then: listingNames(infos)})
	}
	return out
}

// CheckListings re-inspects earlier listings: they must still say what they said.
func CheckListings(snaps []ListingSnapshot) error {
	for _, s := range snaps {
		now := listingNames(s.Infos)
		if strings.Join(now, ",") != strings.Join(s.Then, ",") {
			return fmt.Errorf("listing of %q handed out earlier changed from %v to %v", s.Dir, s.Then, now)
		}
	}
	return nil
}

// plainReader hides every optional interface of a reader (WriteTo ...), so that io.Copy takes the destination's
// ReadFrom if it has one, or its own buffer loop
type plainReader struct{ io.Reader }

// WriteVia writes part through one of the ways a caller may legitimately use an io.Writer handle: Write itself,
// io.WriteString (the handle's own WriteString if it has one) or io.Copy from a plain reader (the handle's own
// ReadFrom if it has one).  All three must append the same bytes at the same place; sel picks one.
func WriteVia(w io.Writer, part []byte, sel int) (int, error) {
	switch sel % 3 {
	case 1:
		return io.WriteString(w, string(part))
	case 2:
		n, err := io.Copy(w, plainReader{bytes.NewReader(part)})
		return int(n), err
	}
	return w.Write(part)
}

// Scribble overwrites a buffer in place.
func Scribble(b []byte) {
	for i := range b {
		b[i] ^= 0x5a
	}
}
