// Package scopex binds the scope specifications (C11, C12, C13) to the real scopes.
package scopex

import (
	"errors"
	"fmt"
	"sync"
	"sync/atomic"
	"time"
	wdog "verifharness/wd"

	"github.com/goatcms/goatcore/app"
	"github.com/goatcms/goatcore/app/scope"
	"github.com/goatcms/goatcore/app/scope/contextscope"
)

// Target is something errors can be appended to / that can be killed or stopped.
type Target struct {
	Kind   string
	Ctx    app.ContextScope // the object the calls go to
	Errors func() []error   // where the errors must show up
	ErrOf  func() error     // the cumulative-error accessor of the same object (Err)
	Done   func() <-chan struct{}
	Close  func() // releases scopes (parents/children) at the end; may be nil
}

// NewTarget builds a fresh target of the given kind.
func NewTarget(kind string) (*Target, error) {
	switch kind {
	case "ctx":
		c := contextscope.New()
		return &Target{Kind: kind, Ctx: c, Errors: c.Errors, ErrOf: c.Err, Done: c.Done}, nil
	case "isolated":
		p := contextscope.New()
		c := contextscope.NewIsolated(p)
		return &Target{Kind: kind, Ctx: c, Errors: c.Errors, ErrOf: c.Err, Done: c.Done, Close: func() { p.Stop() }}, nil
	case "scope":
		s := scope.New(scope.Params{})
		return &Target{Kind: kind, Ctx: s, Errors: s.Errors, ErrOf: s.Err, Done: s.Done}, nil
	case "childshared":
		p := scope.New(scope.Params{})
		c := scope.NewChild(p, scope.ChildParams{})
		return &Target{Kind: kind, Ctx: c, Errors: p.Errors, ErrOf: p.Err, Done: p.Done}, nil
	case "childisolated":
		p := scope.New(scope.Params{})
		c := scope.NewChild(p, scope.ChildParams{ContextScope: contextscope.NewIsolated(p.BaseContextScope())})
		return &Target{Kind: kind, Ctx: c, Errors: c.Errors, ErrOf: c.Err, Done: c.Done, Close: func() { p.Stop() }}, nil
	}
	return nil, fmt.Errorf("unknown target %q", kind)
}

// LeafCount counts the errors a cumulative error reports: the leaves beneath its wrappers (UnwrapAll / Unwrap() []error).
func LeafCount(err error) int {
	if err == nil {
		return 0
	}
	var list []error
	switch x := err.(type) {
	case interface{ UnwrapAll() []error }:
		list = x.UnwrapAll()
	case interface{ Unwrap() []error }:
		list = x.Unwrap()
	}
	if len(list) == 0 {
		return 1
	}
	n := 0
	for _, e := range list {
		n += LeafCount(e)
	}
	return n
}

// SignalResult is the outcome of one scripted storm.
type SignalResult struct {
	Panics    []string `json:"panics"`
	Errors    int      `json:"errors"`
	Expected  int      `json:"expected"`
	DoneFired bool     `json:"done"`
	Arrived   int      `json:"arrived_at_gate"`
}

var hookMu sync.Mutex

// RunSignalScript releases all callers together at the entrance of Stop and holds
// whoever reaches the close itself until the others had the chance to get there
// too -- the schedule of the "prefix" counterexample of ScopeSignal.tla.
func RunSignalScript(kind string, progs []string) (*SignalResult, error) {
	hookMu.Lock()
	defer hookMu.Unlock()
	t, err := NewTarget(kind)
	if err != nil {
		return nil, err
	}
	n := len(progs)
	var mu sync.Mutex
	entered, closing := 0, 0
	enterGate := make(chan struct{})
	closeGate := make(chan struct{})
	var enterOnce, closeOnce sync.Once
	openEnter := func() { enterOnce.Do(func() { close(enterGate) }) }
	openClose := func() { closeOnce.Do(func() { close(closeGate) }) }
	contextscope.VerifHook = func(site string) {
		switch site {
		case "stop.enter":
			mu.Lock()
			entered++
			if entered >= n {
				openEnter()
			}
			mu.Unlock()
			select {
			case <-enterGate:
			case <-time.After(200 * time.Millisecond):
				openEnter()
			}
		case "stop.closing":
			mu.Lock()
			closing++
			first := closing == 1
			mu.Unlock()
			if first {
				// give every other caller that passed the check time to arrive here as well
				go func() { time.Sleep(20 * time.Millisecond); openClose() }()
			}
			<-closeGate
		}
	}
	defer func() { contextscope.VerifHook = nil }()
	res := &SignalResult{}
	var wg sync.WaitGroup
	var pmu sync.Mutex
	for i, p := range progs {
		if p == "append" || p == "kill" {
			res.Expected++
		}
		if p == "append" && i%4 == 2 {
			res.Expected++ // this caller appends a list with two errors around a nil
		}
		wg.Add(1)
		go func(i int, p string) {
			defer wg.Done()
			defer func() {
				if r := recover(); r != nil {
					pmu.Lock()
					res.Panics = append(res.Panics, fmt.Sprintf("%s: %v", p, r))
					pmu.Unlock()
				}
			}()
			switch p {
			case "append":
				// error lists as callers build them from per-worker results: nil entries anywhere are skipped, the rest kept
				switch i % 4 {
				case 1:
					t.Ctx.AppendError(nil, fmt.Errorf("e%d", i))
				case 2:
					t.Ctx.AppendError(fmt.Errorf("e%d", i), nil, fmt.Errorf("e%d'", i))
				case 3:
					t.Ctx.AppendError(nil, nil)
					t.Ctx.AppendError(fmt.Errorf("e%d", i), nil)
				default:
					t.Ctx.AppendError(fmt.Errorf("e%d", i))
				}
			case "kill":
				t.Ctx.Kill()
			case "stop":
				t.Ctx.Stop()
			}
		}(i, p)
	}
	done := make(chan struct{})
	go func() { wg.Wait(); close(done) }()
	select {
	case <-done:
	case <-wdog.After(10 * time.Second):
		res.Panics = append(res.Panics, "callers did not return within 10 s")
	}
	mu.Lock()
	res.Arrived = closing
	mu.Unlock()
	res.Errors = len(t.Errors())
	select {
	case <-t.Done():
		res.DoneFired = true
	default:
	}
	if t.Close != nil {
		t.Close()
	}
	return res, nil
}

// RunChildOfDone: children of a scope that is already done (or becomes done meanwhile).
func RunChildOfDone(how string, racers int, endDelay time.Duration) (panics []string, parentClosed bool) {
	var pmu sync.Mutex
	guard := func(what string, f func()) {
		defer func() {
			if r := recover(); r != nil {
				pmu.Lock()
				panics = append(panics, fmt.Sprintf("%s: %v", what, r))
				pmu.Unlock()
			}
		}()
		f()
	}
	p := scope.New(scope.Params{})
	end := func() {
		switch how {
		case "kill":
			p.Kill()
		case "stop":
			p.Stop()
		case "error":
			p.AppendError(errors.New("boom"))
		}
	}
	if racers == 0 {
		guard("end parent", end)
		guard("child of done parent", func() {
			c := scope.NewChild(p, scope.ChildParams{})
			c.Close()
		})
		guard("isolated child of done parent", func() {
			c := scope.NewChild(p, scope.ChildParams{ContextScope: contextscope.NewIsolated(p.BaseContextScope())})
			c.Close()
		})
	} else {
		var wg sync.WaitGroup
		for i := 0; i < racers; i++ {
			wg.Add(1)
			go func(i int) {
				defer wg.Done()
				for k := 0; k < 20; k++ {
					guard("racing child", func() {
						c := scope.NewChild(p, scope.ChildParams{})
						if k%3 == 0 {
							time.Sleep(time.Duration(i*7%13) * time.Microsecond)
						}
						c.Close()
					})
				}
			}(i)
		}
		// the parent ends somewhere inside the creators' activity: the delay is varied by the caller, and a short
		// busy wait (not a timer, whose resolution is coarser than a child creation) places it
		for t0 := time.Now(); time.Since(t0) < endDelay; {
		}
		guard("end parent", end)
		wg.Wait()
	}
	closed := make(chan struct{})
	go func() {
		guard("close parent", func() { p.Close() })
		close(closed)
	}()
	select {
	case <-closed:
		parentClosed = true
	case <-wdog.After(10 * time.Second):
	}
	return
}

// RunWaitCoversTasks: a scope with `tasks` registered tasks is ended (kill / stop / error) FIRST; then Wait (or Close)
// is called while the tasks are still running; they then report an error each and sign off.  Wait / Close must not
// return before the last sign-off, must report every error, and nobody may panic.
func RunWaitCoversTasks(how string, useClose bool, tasks int) (problems []string) {
	var pmu sync.Mutex
	note := func(f string, a ...interface{}) {
		pmu.Lock()
		problems = append(problems, fmt.Sprintf(f, a...))
		pmu.Unlock()
	}
	guard := func(what string, f func()) {
		defer func() {
			if r := recover(); r != nil {
				note("%s panicked: %v", what, r)
			}
		}()
		f()
	}
	s := scope.New(scope.Params{})
	if err := s.AddTasks(tasks); err != nil {
		return []string{"infra: AddTasks: " + err.Error()}
	}
	ended := 1
	switch how {
	case "kill":
		guard("Kill", s.Kill)
	case "stop":
		guard("Stop", s.Stop)
		ended = 0
	case "error":
		guard("AppendError", func() { s.AppendError(errors.New("first")) })
	}
	release := make(chan struct{})
	var finished int32
	var wg sync.WaitGroup
	for i := 0; i < tasks; i++ {
		wg.Add(1)
		go func(i int) {
			defer wg.Done()
			<-release
			guard("a task's AppendError", func() { s.AppendError(fmt.Errorf("task %d failed", i)) })
			atomic.AddInt32(&finished, 1)
			guard("DoneTask", s.DoneTask)
		}(i)
	}
	returned := make(chan error, 1)
	go func() {
		var err error
		guard("Wait / Close", func() {
			if useClose {
				err = s.Close()
			} else {
				err = s.Wait()
			}
		})
		returned <- err
	}()
	select {
	case <-returned:
		note("returned while %d registered tasks were still running", tasks)
		close(release)
		wg.Wait()
		return
	case <-time.After(3 * time.Millisecond):
	}
	close(release)
	select {
	case err := <-returned:
		if f := atomic.LoadInt32(&finished); int(f) != tasks {
			note("returned when %d of %d tasks had finished", f, tasks)
		}
		if n := LeafCount(err); n < tasks+ended {
			note("reports %d errors; %d were appended (%d by tasks that finished before it returned)", n, tasks+ended, tasks)
		}
	case <-wdog.After(10 * time.Second):
		note("did not return within 10 s after the last task had signed off")
	}
	wg.Wait()
	return
}
