package scopex

import (
	"encoding/json"
	"fmt"
	"io"
	"math/rand"
	"runtime"
	"sync"

	"github.com/goatcms/goatcore/app"
	"github.com/goatcms/goatcore/app/scope/datascope"
)

// RunDataScenario drives a chain of data scopes from concurrent goroutines and logs call/ret events.
func RunDataScenario(r *rand.Rand, w io.Writer, seq *int) int {
	var mu sync.Mutex
	n := 0
	emit := func(ev map[string]interface{}) {
		b, _ := json.Marshal(ev)
		w.Write(b)
		w.Write([]byte("\n"))
		n++
	}
	depth := 1 + r.Intn(3)
	type sc struct {
		ID     string `json:"id"`
		Parent string `json:"parent"`
		ds     app.DataScope
	}
	var chain []*sc
	for i := 0; i < depth; i++ {
		s := &sc{ID: fmt.Sprintf("d%d", i)}
		if i == 0 {
			s.ds = datascope.New(map[interface{}]interface{}{})
		} else {
			s.Parent = chain[i-1].ID
			s.ds = datascope.NewChild(chain[i-1].ds, map[interface{}]interface{}{})
		}
		chain = append(chain, s)
	}
	emit(map[string]interface{}{"ev": "reset", "scopes": chain})
	keys := []string{"a", "b", "cnt"}
	g := 2 + r.Intn(4)
	ops := 2 + r.Intn(5)
	val := func(v interface{}) int {
		if v == nil {
			return 0
		}
		return v.(int)
	}
	var wg sync.WaitGroup
	for t := 1; t <= g; t++ {
		lr := rand.New(rand.NewSource(r.Int63()))
		wg.Add(1)
		go func(t int, lr *rand.Rand) {
			defer wg.Done()
			call := func(op, s, k string, v int, f func() int) {
				mu.Lock()
				emit(map[string]interface{}{"ev": "call", "t": t, "op": op, "s": s, "k": k, "v": v})
				mu.Unlock()
				res := f()
				mu.Lock()
				emit(map[string]interface{}{"ev": "ret", "t": t, "op": op, "res": res})
				mu.Unlock()
			}
			for i := 0; i < ops; i++ {
				s := chain[lr.Intn(len(chain))]
				k := keys[lr.Intn(2)]
				switch lr.Intn(4) {
				case 0:
					call("get", s.ID, k, 0, func() int { return val(s.ds.Value(k)) })
				case 1:
					if lr.Intn(4) == 0 {
						// an explicit nil: the key is present on this level and shadows the parent (logged as 1)
						call("set", s.ID, k, 1, func() int { s.ds.SetValue(k, nil); return 0 })
						break
					}
					mu.Lock()
					*seq++
					v := *seq + 10
					mu.Unlock()
					call("set", s.ID, k, v, func() int { s.ds.SetValue(k, v); return 0 })
				default:
					// locked read-modify-write of the counter (and sometimes of another key)
					var locker app.DataScopeLocker
					call("lock", s.ID, "", 0, func() int { locker = s.ds.LockData(); return 0 })
					cur := 0
					call("lget", s.ID, "cnt", 0, func() int { cur = val(locker.Value("cnt")); return cur })
					if lr.Intn(3) == 0 {
						runtime.Gosched()
					}
					call("lset", s.ID, "cnt", cur+1000, func() int { locker.SetValue("cnt", cur+1000); return 0 })
					if lr.Intn(2) == 0 {
						call("lget", s.ID, k, 0, func() int { return val(locker.Value(k)) })
					}
					call("commit", s.ID, "", 0, func() int { locker.Commit(); return 0 })
				}
				if lr.Intn(3) == 0 {
					runtime.Gosched()
				}
			}
		}(t, lr)
	}
	wg.Wait()
	// final values of every key of every scope, read from the scope's own map through a child-less view
	for _, s := range chain {
		own := map[string]int{}
		lk := s.ds.LockData()
		for _, key := range lk.Keys() {
			own[key.(string)] = 1
		}
		vals := map[string]int{}
		for _, k := range keys {
			if own[k] == 1 {
				vals[k] = val(lk.Value(k))
				if vals[k] == 0 {
					vals[k] = 1 // present with nil
				}
			}
		}
		lk.Commit()
		for _, k := range keys {
			emit(map[string]interface{}{"ev": "final", "s": s.ID, "k": k, "v": vals[k]})
		}
	}
	return n
}
