package scopex

import (
	"encoding/json"
	"errors"
	"fmt"
	"io"
	"math/rand"
	"runtime"
	"sync"
	"time"
	wdog "verifharness/wd"

	"github.com/goatcms/goatcore/app"
	"github.com/goatcms/goatcore/app/scope"
	"github.com/goatcms/goatcore/app/scope/contextscope"
)

var eventNames = map[interface{}]string{
	app.BeforeCloseEvent: "bclose", app.AfterCloseEvent: "aclose",
	app.BeforeCommitEvent: "bcommit", app.CommitEvent: "commit", app.AfterCommitEvent: "acommit",
	app.BeforeRollbackEvent: "brollback", app.RollbackEvent: "rollback", app.AfterRollbackEvent: "arollback",
}

// ScopeNode describes one scope of a scenario.
type ScopeNode struct {
	ID       string `json:"id"`
	Parent   string `json:"parent"` // "" for the root
	Isolated bool   `json:"isolated"`
	Ctx      string `json:"ctx"` // id of the scope owning the error context
	Tasks    int    `json:"tasks"`
	FailOn   string `json:"failon"` // a listener of this scope fails on this event ("" = none)
	// a listener of this scope fails on event FailSubEv of its DESCENDANT FailSubID (ancestors' listeners run first)
	FailSubEv string `json:"failsubev"`
	FailSubID string `json:"failsubid"`
	sc        app.Scope
}

type closeLog struct {
	mu  sync.Mutex
	w   io.Writer
	n   int
	ids map[string]string // SID -> id
}

func (l *closeLog) emit(ev map[string]interface{}) {
	l.mu.Lock()
	b, _ := json.Marshal(ev)
	l.w.Write(b)
	l.w.Write([]byte("\n"))
	l.n++
	l.mu.Unlock()
}

// RunCloseScenario builds a random scope tree, drives tasks, failures and Close
// calls from concurrent goroutines and logs what listeners and callers observe.
func RunCloseScenario(r *rand.Rand, w io.Writer) (events int, hung bool) {
	lg := &closeLog{w: w, ids: map[string]string{}}
	// ---- the tree
	nodes := []*ScopeNode{{ID: "s0", Ctx: "s0"}}
	n := 1 + r.Intn(4)
	for i := 1; i < n; i++ {
		p := nodes[r.Intn(len(nodes))]
		nd := &ScopeNode{ID: fmt.Sprintf("s%d", i), Parent: p.ID, Isolated: r.Intn(3) == 0}
		if nd.Isolated {
			nd.Ctx = nd.ID
		} else {
			nd.Ctx = p.Ctx
		}
		nodes = append(nodes, nd)
	}
	byID := map[string]*ScopeNode{}
	for _, nd := range nodes {
		if nd.Parent != "" && r.Intn(6) == 0 {
			// an ancestor's listener that fails on one of THIS scope's events
			anc := nd.Parent
			for r.Intn(2) == 0 {
				up := ""
				for _, x := range nodes {
					if x.ID == anc {
						up = x.Parent
					}
				}
				if up == "" {
					break
				}
				anc = up
			}
			for _, x := range nodes {
				if x.ID == anc && x.FailSubID == "" {
					x.FailSubEv = []string{"bclose", "bcommit", "commit", "acommit", "aclose", "brollback", "rollback"}[r.Intn(7)]
					x.FailSubID = nd.ID
				}
			}
		}
	}
	for _, nd := range nodes {
		nd.Tasks = r.Intn(3)
		if r.Intn(5) == 0 {
			nd.FailOn = []string{"bclose", "bcommit", "commit", "aclose", "brollback"}[r.Intn(5)]
		}
		if nd.Parent == "" {
			nd.sc = scope.New(scope.Params{})
		} else {
			p := byID[nd.Parent]
			cp := scope.ChildParams{}
			if nd.Isolated {
				cp.ContextScope = contextscope.NewIsolated(p.sc.BaseContextScope())
			}
			nd.sc = scope.NewChild(p.sc, cp)
		}
		byID[nd.ID] = nd
		lg.ids[nd.sc.SID()] = nd.ID
	}
	lg.emit(map[string]interface{}{"ev": "reset", "scopes": nodes})
	// ---- listeners (registered on every scope for the 8 protocol events)
	for _, nd := range nodes {
		nd := nd
		for evID, name := range eventNames {
			name := name
			nd.sc.On(evID, func(data interface{}) error {
				subject := "?"
				if s, ok := data.(app.Scope); ok {
					if id, ok := lg.ids[s.SID()]; ok {
						subject = id
					}
				}
				fails := (nd.FailOn == name && subject == nd.ID) || (nd.FailSubEv == name && nd.FailSubEv != "" && subject == nd.FailSubID)
				lg.emit(map[string]interface{}{"ev": "event", "owner": nd.ID, "name": name, "subject": subject, "fails": fails})
				if fails {
					return fmt.Errorf("listener of %s fails on %s", nd.ID, name)
				}
				return nil
			})
		}
		if nd.Tasks > 0 {
			nd.sc.AddTasks(nd.Tasks)
		}
	}
	// ---- failers: finished before the addressed scope's own Close starts
	failers := map[string]*sync.WaitGroup{}
	for _, nd := range nodes {
		failers[nd.ID] = &sync.WaitGroup{}
	}
	var all sync.WaitGroup
	for _, nd := range nodes {
		if r.Intn(3) != 0 {
			continue
		}
		nd := nd
		what := []string{"append", "kill", "stop"}[r.Intn(3)]
		failers[nd.ID].Add(1)
		all.Add(1)
		delay := time.Duration(r.Intn(200)) * time.Microsecond
		go func() {
			defer all.Done()
			defer failers[nd.ID].Done()
			time.Sleep(delay)
			lg.emit(map[string]interface{}{"ev": "fail.start", "scope": nd.ID, "ctx": nd.Ctx, "what": what})
			panicked := false
			func() {
				defer func() {
					if recover() != nil {
						panicked = true
					}
				}()
				switch what {
				case "append":
					nd.sc.AppendError(errors.New("boom " + nd.ID))
				case "kill":
					nd.sc.Kill()
				case "stop":
					nd.sc.Stop()
				}
			}()
			lg.emit(map[string]interface{}{"ev": "fail.end", "scope": nd.ID, "ctx": nd.Ctx, "what": what, "panic": panicked})
		}()
	}
	// ---- workers finishing tasks
	for _, nd := range nodes {
		for k := 0; k < nd.Tasks; k++ {
			nd := nd
			all.Add(1)
			delay := time.Duration(r.Intn(300)) * time.Microsecond
			report := ""
			if r.Intn(4) == 0 {
				report = []string{"append", "kill", "stop"}[r.Intn(3)]
			}
			go func() {
				defer all.Done()
				time.Sleep(delay)
				if report != "" {
					// a task reports on its own scope before it is done -- whether or not Close is already waiting for it
					lg.emit(map[string]interface{}{"ev": "fail.start", "scope": nd.ID, "ctx": nd.Ctx, "what": report, "task": true})
					panicked := false
					func() {
						defer func() {
							if recover() != nil {
								panicked = true
							}
						}()
						switch report {
						case "append":
							nd.sc.AppendError(errors.New("task of " + nd.ID + " fails"))
						case "kill":
							nd.sc.Kill()
						case "stop":
							nd.sc.Stop()
						}
					}()
					lg.emit(map[string]interface{}{"ev": "fail.end", "scope": nd.ID, "ctx": nd.Ctx, "what": report, "panic": panicked, "task": true})
				}
				lg.emit(map[string]interface{}{"ev": "done.start", "scope": nd.ID})
				nd.sc.DoneTask()
			}()
		}
	}
	// ---- closers
	double := ""
	if r.Intn(4) == 0 {
		double = nodes[r.Intn(len(nodes))].ID
	}
	for _, nd := range nodes {
		nd := nd
		all.Add(1)
		delay := time.Duration(r.Intn(300)) * time.Microsecond
		go func() {
			defer all.Done()
			time.Sleep(delay)
			failers[nd.ID].Wait()
			call := func(tag string) {
				lg.emit(map[string]interface{}{"ev": tag + ".start", "scope": nd.ID})
				ret, panicked := "nil", false
				func() {
					defer func() {
						if recover() != nil {
							panicked = true
						}
					}()
					if err := nd.sc.Close(); err != nil {
						ret = "err"
					}
				}()
				lg.emit(map[string]interface{}{"ev": tag + ".end", "scope": nd.ID, "ret": ret, "panic": panicked})
			}
			call("close")
			if double == nd.ID {
				call("close2")
			}
		}()
	}
	finished := make(chan struct{})
	go func() { all.Wait(); close(finished) }()
	select {
	case <-finished:
	case <-wdog.After(20 * time.Second):
		buf := make([]byte, 1<<16)
		n := runtime.Stack(buf, true)
		lg.emit(map[string]interface{}{"ev": "hang", "what": "closers/workers did not finish within 20 s", "goroutines": string(buf[:n])})
		return lg.n, true
	}
	// ---- final observations
	for _, nd := range nodes {
		done := nd.sc.IsDone()
		if !done && nd.Parent != "" && byID[nd.Parent].sc.IsDone() {
			select { // the isolated context's watcher needs a moment
			case <-nd.sc.Done():
				done = true
			case <-wdog.After(2 * time.Second):
			}
		}
		errs := len(nd.sc.Errors())
		lg.emit(map[string]interface{}{"ev": "final", "scope": nd.ID, "haserr": errs > 0, "done": done})
	}
	return lg.n, false
}
