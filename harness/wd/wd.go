// Package wd provides the watchdog timer of the conformance harness.  A watchdog expiry is evidence about the code
// under test only if the PROCESS was running normally while it waited: a sandbox snapshot, a frozen cgroup or a badly
// overloaded machine stops every goroutine for seconds and then all timers fire at once.  A heartbeat goroutine
// measures such stalls; After restarts its wait when one happened during it.
package wd

import (
	"fmt"
	"os"
	"sync"
	"time"
)

const (
	beat     = 50 * time.Millisecond
	stallGap = 400 * time.Millisecond
	maxRetry = 8
)

var (
	mu        sync.Mutex
	lastStall time.Time // end of the last observed stall
	stalls    int
)

func init() {
	go func() {
		last := time.Now()
		for {
			time.Sleep(beat)
			now := time.Now()
			if now.Sub(last) > stallGap {
				mu.Lock()
				lastStall = now
				stalls++
				mu.Unlock()
			}
			last = now
		}
	}()
}

// Stalls returns the number of stalls observed so far.
func Stalls() int {
	mu.Lock()
	defer mu.Unlock()
	return stalls
}

func stalledSince(t time.Time) bool {
	mu.Lock()
	defer mu.Unlock()
	return lastStall.After(t)
}

// After is time.After for watchdogs: the channel fires after d during which the process was not stalled.
func After(d time.Duration) <-chan time.Time {
	ch := make(chan time.Time, 1)
	go func() {
		for try := 0; ; try++ {
			start := time.Now()
			time.Sleep(d)
			// give the heartbeat a chance to notice a stall that ended just now
			time.Sleep(2 * beat)
			if try < maxRetry && stalledSince(start) {
				fmt.Fprintf(os.Stderr, "watchdog: the process was stalled during a %s wait; waiting again (%d)\n", d, try+1)
				continue
			}
			ch <- time.Now()
			return
		}
	}()
	return ch
}
