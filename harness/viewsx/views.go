// Package viewsx binds Views.tla (C03) to real filespace view stacks.
package viewsx

import (
	"encoding/json"
	"fmt"
	"io"
	"io/ioutil"
	"os"
	"path/filepath"
	"sort"
	"strings"

	"github.com/goatcms/goatcore/filesystem"
	"github.com/goatcms/goatcore/filesystem/filespace/diskfs"
	"github.com/goatcms/goatcore/filesystem/filespace/encryptfs"
	"github.com/goatcms/goatcore/filesystem/filespace/encryptfs/cipherfs/aesgcm256cfs"
	"github.com/goatcms/goatcore/filesystem/filespace/memfs"
	"github.com/goatcms/goatcore/filesystem/fscache"
	"github.com/goatcms/goatcore/filesystem/fshelper"
)

type FS = filesystem.Filespace

// Layer is one layer of a view stack as in Views.tla.
type Layer struct {
	K    string   `json:"k"`
	Base []string `json:"base,omitempty"`
}

// Case is one (stack, spelling) with the model's resolution.
type Case struct {
	Stack  []Layer  `json:"stack"`
	Sp     []string `json:"sp"`
	Rd     []string `json:"rd"`
	Wr     []string `json:"wr"`
	Base   []string `json:"base"`
	Climbs bool     `json:"climbs"`
	Clamp  []string `json:"clamp"`
	Raw    string   `json:"-"`
}

func ParseCase(line string) (*Case, error) {
	var inner string
	if err := json.Unmarshal([]byte(line), &inner); err != nil {
		return nil, err
	}
	c := &Case{Raw: inner}
	if err := json.Unmarshal([]byte(inner), c); err != nil {
		return nil, err
	}
	if Naming != nil {
		c.Sp, c.Rd, c.Wr, c.Base, c.Clamp = renameSegs(c.Sp), renameSegs(c.Rd), renameSegs(c.Wr), renameSegs(c.Base), renameSegs(c.Clamp)
		for i := range c.Stack {
			c.Stack[i].Base = renameSegs(c.Stack[i].Base)
		}
	}
	return c, nil
}

// Naming instantiates the model's abstract names (a, f, v) with concrete ones.  The second instantiation makes a
// name start with the name of the disk root directory ("root" / "rootf"): code that confines paths by comparing
// STRINGS instead of path segments lets such a sibling through.
var Naming map[string]string

func rn(x string) string {
	if y, ok := Naming[x]; ok {
		return y
	}
	return x
}

// RenamePath renames every segment of a slash-separated path.
func RenamePath(p string) string {
	return strings.Join(renameSegs(strings.Split(p, "/")), "/")
}

func renameSegs(p []string) []string {
	if p == nil {
		return nil
	}
	out := make([]string, len(p))
	for i, x := range p {
		out[i] = rn(x)
	}
	return out
}

// SetNaming installs a naming and rebuilds the populated tree with it.
func SetNaming(m map[string]string) {
	Naming = m
	Population = population()
}

// World is a populated root with a view stack on top.
type World struct {
	Root    FS
	Top     FS
	Caches  []*fscache.Cache // bottom-up
	Host    string           // host dir for disk roots ("" for mem)
	RootDir string
	cleanup func()
}

func (w *World) Close() {
	if w.cleanup != nil {
		w.cleanup()
	}
}

// The populated tree: node kinds alternate with the depth of the enclosing
// "v" chain so that a call that leaks one level up sees a different kind:
// level 0 (root):  a = file, f = dir {f/a file}, v = dir
// level 1 (v):     a = dir {a/f file}, f = file, v = dir
// level 2 (v/v):   a = file, f = dir {f/a file}, v = dir ... and so on to depth 3.
func population() map[string]string {
	out := map[string]string{}
	prefix := ""
	a, f, v := rn("a"), rn("f"), rn("v")
	for lvl := 0; lvl <= 3; lvl++ {
		if lvl > 0 {
			out[strings.TrimSuffix(prefix, "/")] = "D"
		}
		if lvl%2 == 0 {
			out[prefix+a] = "C:" + prefix + a
			out[prefix+f] = "D"
			out[prefix+f+"/"+a] = "C:" + prefix + f + "/" + a
		} else {
			out[prefix+a] = "D"
			out[prefix+a+"/"+f] = "C:" + prefix + a + "/" + f
			out[prefix+f] = "C:" + prefix + f
		}
		prefix += v + "/"
	}
	return out
}

var Population = population()

var cryptSettings = encryptfs.Settings{Salt: []byte("salt-salt"), Secret: []byte("secret-secret"), Cipher: aesgcm256cfs.NewCipher()}

// Build creates a populated root and the real view stack of c on top of it.
func Build(stack []Layer, tmp string) (*World, error) {
	w := &World{}
	var err error
	switch stack[0].K {
	case "mem":
		if w.Root, err = memfs.NewFilespace(); err != nil {
			return nil, err
		}
	case "disk":
		if w.Host, err = ioutil.TempDir(tmp, "views"); err != nil {
			return nil, err
		}
		w.RootDir = filepath.Join(w.Host, "root")
		os.MkdirAll(w.RootDir, 0777)
		ioutil.WriteFile(filepath.Join(w.Host, rn("a")), []byte("HOST-OUTSIDE-a"), 0644)
		os.MkdirAll(filepath.Join(w.Host, rn("f")), 0777)
		ioutil.WriteFile(filepath.Join(w.Host, rn("f"), rn("a")), []byte("HOST-OUTSIDE-f/a"), 0644)
		os.MkdirAll(filepath.Join(w.Host, rn("v")), 0777)
		host := w.Host
		w.cleanup = func() { os.RemoveAll(host) }
		if w.Root, err = diskfs.NewFilespace(w.RootDir); err != nil {
			return nil, err
		}
	default:
		return nil, fmt.Errorf("bad root %q", stack[0].K)
	}
	var keys []string
	for k := range Population {
		keys = append(keys, k)
	}
	sort.Strings(keys)
	for _, k := range keys {
		if Population[k] == "D" {
			err = w.Root.MkdirAll(k, filesystem.DefaultUnixDirMode)
		} else {
			err = w.Root.WriteFile(k, []byte(Population[k]), filesystem.DefaultUnixFileMode)
		}
		if err != nil {
			return nil, fmt.Errorf("populate %s: %v", k, err)
		}
	}
	cur := w.Root
	for i := 1; i < len(stack); i++ {
		l := stack[i]
		below := stack[i-1].K
		switch l.K {
		case "memwrap", "disksub":
			cur, err = cur.Filespace(strings.Join(l.Base, "/"))
		case "subfs":
			if below == "mem" || below == "disk" || below == "memwrap" || below == "disksub" {
				cur = fshelper.NewSubFS(cur, strings.Join(l.Base, "/"))
			} else {
				cur, err = cur.Filespace(strings.Join(l.Base, "/")) // ro / cache / crypt / subfs child views
			}
		case "ro":
			cur = fshelper.NewReadonlyFS(cur)
		case "crypt":
			cur, err = encryptfs.NewEncryptFS(cur, cryptSettings)
		case "cache":
			var c *fscache.Cache
			if c, err = fscache.NewMemCache(cur); err == nil {
				w.Caches = append(w.Caches, c)
				cur = c
			}
		default:
			err = fmt.Errorf("bad layer %q", l.K)
		}
		if err != nil {
			w.Close()
			return nil, fmt.Errorf("layer %d (%s): %v", i, l.K, err)
		}
	}
	w.Top = cur
	return w, nil
}

// Commit flushes every cache of the stack, top-most first.
func (w *World) Commit() {
	for i := len(w.Caches) - 1; i >= 0; i-- {
		func() {
			defer func() { recover() }()
			w.Caches[i].Commit()
		}()
	}
}

// Snapshot returns the root tree as path -> "D" | content, plus the host directory for disk.
func (w *World) Snapshot() (map[string]string, error) {
	out := map[string]string{}
	var walk func(p string) error
	walk = func(p string) error {
		infos, err := w.Root.ReadDir(p)
		if err != nil {
			return err
		}
		for _, inf := range infos {
			c := inf.Name()
			if p != "" {
				c = p + "/" + c
			}
			if inf.IsDir() {
				out[c] = "D"
				if inf.Name() == "." || inf.Name() == ".." {
					continue
				}
				if err := walk(c); err != nil {
					return err
				}
			} else {
				b, err := w.Root.ReadFile(c)
				if err != nil {
					return err
				}
				out[c] = string(b)
			}
		}
		return nil
	}
	if w.RootDir != "" {
		if _, err := os.Stat(w.RootDir); err != nil {
			out["<root missing>"] = "!"
		} else if err := walk(""); err != nil {
			return nil, err
		}
		filepath.Walk(w.Host, func(p string, info os.FileInfo, err error) error {
			if err != nil {
				return nil
			}
			if p == w.RootDir {
				return filepath.SkipDir
			}
			rel, _ := filepath.Rel(w.Host, p)
			if info.IsDir() {
				out["<host>/"+rel] = "D"
			} else {
				b, _ := ioutil.ReadFile(p)
				out["<host>/"+rel] = string(b)
			}
			return nil
		})
		return out, nil
	}
	if err := walk(""); err != nil {
		return nil, err
	}
	return out, nil
}

// OutsideDiff compares two snapshots outside the subtree `base` (the base
// directory itself belongs to the view).
func OutsideDiff(before, after map[string]string, base []string) string {
	b := strings.Join(base, "/")
	inside := func(p string) bool {
		if strings.HasPrefix(p, "<host>") || strings.HasPrefix(p, "<root") {
			return false
		}
		return b == "" || p == b || strings.HasPrefix(p, b+"/")
	}
	for p, v := range before {
		if inside(p) || strings.HasPrefix(p, "<root") {
			continue
		}
		if nv, ok := after[p]; !ok {
			return fmt.Sprintf("%s (outside the view root %q) disappeared", p, b)
		} else if nv != v {
			return fmt.Sprintf("%s (outside the view root %q) changed from %.40q to %.40q", p, b, v, nv)
		}
	}
	for p, v := range after {
		if inside(p) || strings.HasPrefix(p, "<root") { // the root directory's own existence belongs to the view
			continue
		}
		if _, ok := before[p]; !ok {
			return fmt.Sprintf("%s = %.40q appeared outside the view root %q", p, v, b)
		}
	}
	return ""
}

// Observation of a read-type call, normalised.
type Obs struct {
	Refused bool
	Val     string // "true" / "file:<content>" / "dir:<sorted names>" / "stat:F|D"
}

func kindOf(isDir bool) string {
	if isDir {
		return "D"
	}
	return "F"
}

// ReadOps are the read-type calls.
var ReadOps = []string{"isexist", "isfile", "isdir", "lstat", "readdir", "read", "rstream"}

// MutOps are the mutating calls; "<sp" / ">sp" mark whether sp is the source or the destination of a copy.
var MutOps = []string{"write", "wstream", "mkdir", "remove", "removeall",
	"copy<", "copy>file", "copy>dir", "copyfile<", "copyfile>", "copydir<", "copydir>", "sub-write", "sub-removeall"}

func DoRead(fs FS, op string, p string) (o Obs, panicked string) {
	defer func() {
		if r := recover(); r != nil {
			panicked = fmt.Sprint(r)
		}
	}()
	switch op {
	case "isexist":
		if fs.IsExist(p) {
			return Obs{Val: "true"}, ""
		}
	case "isfile":
		if fs.IsFile(p) {
			return Obs{Val: "true"}, ""
		}
	case "isdir":
		if fs.IsDir(p) {
			return Obs{Val: "true"}, ""
		}
	case "lstat":
		if inf, err := fs.Lstat(p); err == nil {
			return Obs{Val: "stat:" + kindOf(inf.IsDir())}, ""
		}
	case "readdir":
		if infos, err := fs.ReadDir(p); err == nil {
			var names []string
			for _, i := range infos {
				names = append(names, i.Name()+":"+kindOf(i.IsDir()))
			}
			sort.Strings(names)
			return Obs{Val: "dir:" + strings.Join(names, ",")}, ""
		}
	case "read":
		if b, err := fs.ReadFile(p); err == nil {
			return Obs{Val: "file:" + string(b)}, ""
		}
	case "rstream":
		if r, err := fs.Reader(p); err == nil {
			b, rerr := ioutil.ReadAll(io.LimitReader(r, 1<<20))
			r.Close()
			if rerr == nil {
				return Obs{Val: "file:" + string(b)}, ""
			}
		}
	}
	return Obs{Refused: true}, ""
}

// Expected computes what a read-type call answers at canonical ROOT path p in the populated tree.
func Expected(op string, p []string) Obs {
	key := strings.Join(p, "/")
	v, ok := Population[key]
	if key == "" {
		v, ok = "D", true
	}
	switch op {
	case "isexist":
		if ok {
			return Obs{Val: "true"}
		}
	case "isfile":
		if ok && v != "D" {
			return Obs{Val: "true"}
		}
	case "isdir":
		if ok && v == "D" {
			return Obs{Val: "true"}
		}
	case "lstat":
		if ok {
			return Obs{Val: "stat:" + kindOf(v == "D")}
		}
	case "readdir":
		if ok && v == "D" {
			var names []string
			for k, kv := range Population {
				if (key == "" && !strings.Contains(k, "/")) || (key != "" && strings.HasPrefix(k, key+"/") && !strings.Contains(k[len(key)+1:], "/")) {
					names = append(names, k[strings.LastIndex(k, "/")+1:]+":"+kindOf(kv == "D"))
				}
			}
			sort.Strings(names)
			return Obs{Val: "dir:" + strings.Join(names, ",")}
		}
	case "read", "rstream":
		if ok && v != "D" {
			return Obs{Val: "file:" + v}
		}
	}
	return Obs{Refused: true}
}

// DoMut runs one mutating call with spelling p (inside names "zz*" are fresh destinations).
func DoMut(fs FS, op string, p string) (panicked string) {
	defer func() {
		if r := recover(); r != nil {
			panicked = fmt.Sprint(r)
		}
	}()
	data := []byte("WRITTEN-THROUGH-THE-VIEW")
	switch op {
	case "write":
		fs.WriteFile(p, data, filesystem.DefaultUnixFileMode)
	case "wstream":
		if w, err := fs.Writer(p); err == nil {
			w.Write(data)
			w.Close()
		}
	case "mkdir":
		fs.MkdirAll(p, filesystem.DefaultUnixDirMode)
	case "remove":
		fs.Remove(p)
	case "removeall":
		fs.RemoveAll(p)
	case "copy<":
		fs.Copy(p, "zzcopy")
	case "copy>file":
		fs.Copy("srcfile", p)
	case "copy>dir":
		fs.Copy("srcdir", p)
	case "copyfile<":
		fs.CopyFile(p, "zzcopyfile")
	case "copyfile>":
		fs.CopyFile("srcfile", p)
	case "copydir<":
		fs.CopyDirectory(p, "zzcopydir")
	case "copydir>":
		fs.CopyDirectory("srcdir", p)
	case "sub-write":
		if sub, err := fs.Filespace(p); err == nil && sub != nil {
			sub.WriteFile("zzsub", data, filesystem.DefaultUnixFileMode)
			sub.WriteFile("../zzsubup", data, filesystem.DefaultUnixFileMode)
		}
	case "sub-removeall":
		if sub, err := fs.Filespace(p); err == nil && sub != nil {
			sub.RemoveAll(rn("a"))
			sub.RemoveAll("../" + rn("a"))
			sub.RemoveAll("..")
		}
	}
	return ""
}
