// Package pipx binds Pipeline.tla / Try.tla (C14, C16) to a real application with the
// terminal, common, open-container and pipeline modules and probe commands.
package pipx

import (
	"encoding/json"
	"fmt"
	"io"
	"strings"
	"sync"
	"time"
	wdog "verifharness/wd"

	"github.com/goatcms/goatcore/app"
	"github.com/goatcms/goatcore/app/bootstrap"
	"github.com/goatcms/goatcore/app/gio"
	"github.com/goatcms/goatcore/app/goatapp"
	"github.com/goatcms/goatcore/app/modules/commonm"
	"github.com/goatcms/goatcore/app/modules/commonm/commservices"
	"github.com/goatcms/goatcore/app/modules/ocm"
	"github.com/goatcms/goatcore/app/modules/pipelinem"
	"github.com/goatcms/goatcore/app/modules/pipelinem/pipservices"
	"github.com/goatcms/goatcore/app/modules/pipelinem/pipservices/namespaces"
	"github.com/goatcms/goatcore/app/modules/terminalm"
	"github.com/goatcms/goatcore/app/scope"
	"github.com/goatcms/goatcore/app/scope/contextscope"
	"github.com/goatcms/goatcore/app/terminal"
	"github.com/goatcms/goatcore/filesystem/filespace/memfs"
)

// Log is the global event log of one scenario.
type Log struct {
	mu sync.Mutex
	w  io.Writer
	N  int
}

func (l *Log) Emit(ev map[string]interface{}) {
	l.mu.Lock()
	b, _ := json.Marshal(ev)
	l.w.Write(b)
	l.w.Write([]byte("\n"))
	l.N++
	l.mu.Unlock()
}

// World is one application instance with probe commands.
type World struct {
	App       *goatapp.MockupApp
	Boot      app.Bootstrap
	Runner    pipservices.Runner
	TasksUnit pipservices.TasksUnit
	Log       *Log
	// probe behaviour: id -> fail?, id -> delay
	Fail  map[string]bool
	Delay map[string]time.Duration
	Gates map[string]chan struct{} // optional: a probe waits for its gate
	ended map[string]chan struct{} // closed when the probe has returned for the first time
	// Intercept: a probe id handled by the harness itself (no begin / end events): e.g. a separator between two programs
	Intercept map[string]func()
	mu        sync.Mutex
}

// EndedCh returns a channel that is closed once probe id has ended.
func (wd *World) EndedCh(id string) chan struct{} {
	wd.mu.Lock()
	defer wd.mu.Unlock()
	if wd.ended == nil {
		wd.ended = map[string]chan struct{}{}
	}
	if wd.ended[id] == nil {
		wd.ended[id] = make(chan struct{})
	}
	return wd.ended[id]
}

// NewWorld boots an application; input is the terminal input (may be empty).
func NewWorld(w io.Writer, input string, args []string) (*World, error) {
	wd := &World{Log: &Log{w: w}, Fail: map[string]bool{}, Delay: map[string]time.Duration{}, Gates: map[string]chan struct{}{}}
	if args == nil {
		args = []string{"appname", "terminal", "--strict=false", "--silent=true"}
	}
	mapp, err := goatapp.NewMockupApp(goatapp.Params{
		IO:        goatapp.IO{In: gio.NewAppInput(strings.NewReader(input))},
		Arguments: args,
	})
	if err != nil {
		return nil, err
	}
	boot := bootstrap.NewBootstrap(mapp)
	for _, m := range []app.Module{terminalm.NewModule(), commonm.NewModule(), ocm.NewModule(), pipelinem.NewModule()} {
		if err := boot.Register(m); err != nil {
			return nil, err
		}
	}
	if err := boot.Init(); err != nil {
		return nil, err
	}
	wd.App, wd.Boot = mapp, boot
	var deps struct {
		Runner    pipservices.Runner    `dependency:"PipRunner"`
		TasksUnit pipservices.TasksUnit `dependency:"PipTasksUnit"`
	}
	if err := mapp.DependencyProvider().InjectTo(&deps); err != nil {
		return nil, err
	}
	wd.Runner, wd.TasksUnit = deps.Runner, deps.TasksUnit
	mapp.Terminal().SetCommand(terminal.NewCommand(terminal.CommandParams{
		Name:      "probe",
		Arguments: terminal.NewArguments(terminal.NewArgument(terminal.ArgumentParams{Name: "id", Type: app.TerminalTextArgument})),
		Callback: func(a app.App, ctx app.IOContext) error {
			var args struct {
				ID string `command:"?id"`
			}
			if err := ctx.Scope().InjectTo(&args); err != nil {
				return err
			}
			wd.mu.Lock()
			icpt := wd.Intercept[args.ID]
			wd.mu.Unlock()
			if icpt != nil {
				icpt()
				return nil
			}
			wd.Log.Emit(map[string]interface{}{"ev": "begin", "id": args.ID})
			wd.mu.Lock()
			gate, delay, fail := wd.Gates[args.ID], wd.Delay[args.ID], wd.Fail[args.ID]
			wd.mu.Unlock()
			if gate != nil {
				<-gate
			}
			if delay > 0 {
				time.Sleep(delay)
			}
			wd.Log.Emit(map[string]interface{}{"ev": "end", "id": args.ID, "fail": fail})
			select {
			case <-wd.EndedCh(args.ID):
			default:
				close(wd.EndedCh(args.ID))
			}
			if fail {
				return fmt.Errorf("probe %s fails", args.ID)
			}
			return nil
		},
	}))
	return wd, nil
}

// SetProbe configures one probe id.
func (wd *World) SetProbe(id string, fail bool, delay time.Duration) {
	wd.mu.Lock()
	wd.Fail[id] = fail
	wd.Delay[id] = delay
	wd.mu.Unlock()
}

// TaskSpec describes one submission.
type TaskSpec struct {
	// Name is the FULL task name (the manager's key and what wait lists use): "<NS>:<Short>", or Short alone
	Name  string               `json:"name"`
	NS    string               `json:"ns,omitempty"`
	Short string               `json:"short,omitempty"`
	Wait  []string             `json:"wait"`
	Cmds  []string             `json:"cmds"` // probe ids, in order
	Lock  commservices.LockMap `json:"-"`
	scope app.Scope
}

func (t *TaskSpec) shortName() string {
	if t.Short != "" {
		return t.Short
	}
	return t.Name
}

// Submit submits a task through the runner with its own isolated scope (so that tasks
// really are independent error contexts) and logs the outcome.
func (wd *World) Submit(t *TaskSpec) error {
	appScope := wd.App.Scopes().App()
	t.scope = scope.NewChild(appScope, scope.ChildParams{ContextScope: contextscope.NewIsolated(appScope.BaseContextScope()), Name: "sub:" + t.Name})
	var body strings.Builder
	for _, c := range t.Cmds {
		body.WriteString("probe --id=" + c + "\n")
	}
	cwd, _ := memfs.NewFilespace()
	wait := t.Wait
	if wait == nil {
		wait = []string{}
	}
	wd.Log.Emit(map[string]interface{}{"ev": "submit.start", "name": t.Name, "wait": wait, "cmds": t.Cmds})
	err := wd.Runner.Run(pipservices.Pip{
		Context:    pipservices.PipContext{In: gio.NewInput(strings.NewReader(body.String())), Out: gio.NewNilOutput(), Err: gio.NewNilOutput(), CWD: cwd, Scope: t.scope},
		Name:       t.shortName(),
		Namespaces: namespaces.NewNamespaces(pipservices.NamasepacesParams{Task: t.NS}),
		Sandbox:    "self",
		Lock:       t.Lock,
		Wait:       t.Wait,
	})
	wd.Log.Emit(map[string]interface{}{"ev": "submit", "name": t.Name, "accepted": err == nil})
	if err != nil {
		t.scope.Close()
		t.scope = nil
	}
	return err
}

// CloseScopes closes the per-task submission scopes.
func (wd *World) CloseScopes(ts []*TaskSpec) {
	for _, t := range ts {
		if t.scope != nil {
			func() {
				defer func() { recover() }()
				t.scope.Close()
			}()
		}
	}
}

// RunAncestorWitness submits task "outer" whose body spawns (through the runner API, from the
// command's own scope) a task "inner" that waits for "outer".
func RunAncestorWitness(wd *World) map[string]interface{} {
	var innerErr error
	spawned := make(chan struct{})
	wd.App.Terminal().SetCommand(terminal.NewCommand(terminal.CommandParams{
		Name: "spawninner",
		Callback: func(a app.App, ctx app.IOContext) error {
			cwd, _ := memfs.NewFilespace()
			innerErr = wd.Runner.Run(pipservices.Pip{
				Context:    pipservices.PipContext{In: gio.NewInput(strings.NewReader("probe --id=inner_c0\n")), Out: gio.NewNilOutput(), Err: gio.NewNilOutput(), CWD: cwd, Scope: ctx.Scope()},
				Name:       "inner",
				Namespaces: namespaces.NewNamespaces(pipservices.NamasepacesParams{}),
				Sandbox:    "self",
				Wait:       []string{"outer"},
			})
			close(spawned)
			return nil
		},
	}))
	appScope := wd.App.Scopes().App()
	mgr, _ := wd.TasksUnit.FromScope(appScope)
	sc := scope.NewChild(appScope, scope.ChildParams{ContextScope: contextscope.NewIsolated(appScope.BaseContextScope())})
	cwd, _ := memfs.NewFilespace()
	err := wd.Runner.Run(pipservices.Pip{
		Context:    pipservices.PipContext{In: gio.NewInput(strings.NewReader("spawninner\n")), Out: gio.NewNilOutput(), Err: gio.NewNilOutput(), CWD: cwd, Scope: sc},
		Name:       "outer",
		Namespaces: namespaces.NewNamespaces(pipservices.NamasepacesParams{}),
		Sandbox:    "self",
	})
	out := map[string]interface{}{"executed": 1, "outer_accepted": err == nil}
	select {
	case <-spawned:
	case <-wdog.After(5 * time.Second):
		out["note"] = "the body never ran"
		return out
	}
	out["inner_accepted"] = innerErr == nil
	done := make(chan error, 1)
	go func() { done <- mgr.Wait() }()
	select {
	case <-done:
		out["manager_wait_returned"] = true
	case <-wdog.After(3 * time.Second):
		out["manager_wait_returned"] = false
	}
	return out
}
