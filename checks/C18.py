"""C18 -- environment values reach sandbox shells verbatim, with no shell interpretation.
The specification is THIN here and says so: a TLA+ model of /bin/sh would be fiction.
(M) EnvScript.tla fixes the builders' output grammar, the two facts about heredocs
    and command substitution that matter, and enumerates every pair of values of <=2
    (thorough: 3) tokens over {$VAR, `cmd`, $(cmd), ', ", backslash, newline, the
    line EOF, letter, ;}; TLC checks Verbatim / NothingRuns; the variants "unquoted"
    (SSH builder before the fix) and "consttag" (constant terminator) must violate them.
(R) for every enumerated pair BOTH real builders (container: dcmd.InitSequence; SSH:
    the private builder through the verif export) produce their script, which must
    parse into the specification's grammar (quoted delimiter, same tag, value
    verbatim), and is then executed by the real /bin/sh with a canary payload: the
    shell's variables must equal the configured values up to trailing newlines and
    no canary file may appear.  Names that are not identifiers must be rejected.    One Environments object is also used the way a long-running application uses it: a value
    is replaced (Set) while a start-up script is being built from the object (1001
    variables); once both have returned, the next script must give the shell the value
    that Get answers."""
import json, os
import vlib

NPROC = 14

MANIFEST = dict(
    technique='thin TLA+ model of the script grammar and of heredoc / command-substitution semantics (with the unquoted and constant-terminator variants) enumerating all token maps in a bound; each map built by the real builders, parsed against the grammar and EXECUTED by the real /bin/sh with canary payloads',
    text='12 321 value pairs (111 values of <=2 shell-significant tokens, squared; 1.2 million in the thorough tier, sampled) are each turned into the container and the SSH start-up script by the real code, matched against the grammar K=$(cat <<\'TAG\' / value / TAG / ) / export K, and run by the installed /bin/sh: variables compared byte for byte (up to trailing newlines), canary files must not appear.',
    note='Partly decided by the specification: the shell is the real dash of this image, not a model. Values containing NUL and other shells are not covered. The SSH certificate heredocs of the container builder are unquoted but are not environment values.')


def run(ctx):
    q = ctx.quick
    r = ctx.tlc_must_pass('text', 'EnvScript', 'MC_EnvScript_quoted.cfg' if q else 'MC_EnvScript_thorough.cfg', workers=8, timeout=3000, name='EnvScript quoted delimiter')
    ctx.cov['exhaustive'] = True
    for v in ('unquoted', 'consttag'):
        rv = ctx.tlc('text', 'EnvScript', 'MC_EnvScript_%s.cfg' % v, workers=2, timeout=300, name='variant %s (must violate)' % v)
        ctx.cov['states'] -= rv['distinct']; ctx.cov['transitions'] -= rv['generated']
        if 'Inv' not in rv['violated']:
            raise vlib.Infra('spec self-test failed: variant %s does not violate the invariant' % v)
    dtmp = ctx.tmp('d')
    os.makedirs(dtmp)
    shards, total, taken = vlib.shard_lines(ctx, r['out'], NPROC, marker='\\"k\\":\\"env\\"', every=1 if q else 40, offset=ctx.seed)
    m = vlib.run_sharded(ctx, lambda p: ['envcases', '--in', p, '--tmp', dtmp], shards)
    ctx.cov['replay'].append(dict(what='value pairs through both builders and /bin/sh', model_cases=total, executed=m['executed'],
                                  shell_runs=m.get('calls', 0), failures=m['failures_by_key']))
    ctx.cov['evaluations'] += m.get('calls', 0)
    ctx.cov['distinct_nontrivial'] = m['executed']
    ctx.cov['rule'] = 'one case = a pair of values (token sequences) for two variables; each built by both builders and executed by /bin/sh'
    for s in (m.get('samples') or [])[:2]:
        ctx.sample(json.loads(s))
    vlib.report_case_failures(ctx, m, 'env scripts')
    if m['executed'] == 0:
        raise vlib.Infra('nothing executed')
    # one Environments object reused while scripts are being built from it, with a large environment
    w = ctx.vh(['envwitness', '--rounds', '40' if q else '400', '--vars', '1000', '--tmp', dtmp], timeout=3000)
    ctx.cov['replay'].append(dict(what='values replaced while scripts are being built (1001 variables); the next script must carry the value Get returns', executed=w['executed'], failures=w['failures_by_key']))
    ctx.cov['evaluations'] += w['executed']
    vlib.report_case_failures(ctx, w, 'reused environment')
    ctx.assumptions += ['/bin/sh of this image (dash); CANARYVAR is exported so that an expansion is visible in the value']
