"""X02 (extension, beyond the listed properties) -- the interactive terminal executing a script.
(M) TermLoop.tla: RunTerminal / runLoop / RunLoop with the reader goroutine, the two
    capacity-1 channels, the isolated scope per loop and its asynchronous watcher; every
    script of <= 3 commands over {ok, failing, unknown, exit} in strict and non-strict mode
    and both ways the input may end: commands run in order and at most once, nothing is
    skipped, strict mode stops at the first failure and fails the application, non-strict
    mode runs everything and prints one error line per failure, nothing runs after `exit`,
    both goroutines terminate.  Variant "asyncexit" (the loop learns of `exit` only through
    the watcher: code before fix 1d60410) must violate NothingAfterExit.
(R) the model's finished behaviours give, per (script, mode), the SET of allowed outcomes;
    a real application runs every script through its `terminal` command several times
    (with / without a final newline, with blank lines) and each observed outcome (probes
    executed, result of the run, error state of the application) must be in that set."""
import json
import vlib

MANIFEST = dict(technique='extension', text='', note='')
CFG = 'SPECIFICATION Spec\nCONSTANTS\n  MaxLen = %d\n  Kinds = {"ok", "fail", "exit", "unk"}\n  Variant = "%s"\nINVARIANTS InOrderOnce NoGapBeforeExit StrictStopsAtFirstFailure AtEnd NothingAfterExit Emit\n%s'


def run(ctx):
    quick = ctx.quick
    r = ctx.tlc_must_pass('ext', 'TermLoop', 'mc.cfg', workers=4, timeout=1200, files={'mc.cfg': CFG % (3 if quick else 4, 'current', 'PROPERTY Terminates\n')},
                          name='TermLoop, every script of the bound')
    ctx.cov['exhaustive'] = True
    ra = ctx.tlc('ext', 'TermLoop', 'mc.cfg', workers=2, timeout=600, files={'mc.cfg': CFG % (2, 'asyncexit', '')}, name='asyncexit variant (must violate NothingAfterExit)')
    ctx.cov['states'] -= ra['distinct']; ctx.cov['transitions'] -= ra['generated']
    if 'NothingAfterExit' not in ra['violated']:
        raise vlib.Infra('spec self-test failed: the asyncexit variant does not run a command after exit')
    shards, n, taken = vlib.shard_lines(ctx, r['out'], 1, marker='\\"k\\":\\"term\\"')
    m = vlib.run_sharded(ctx, lambda p: ['termscript', '--in', p, '--reps', '2' if quick else '6'], shards, timeout=3000)
    ctx.cov['replay'].append(dict(what='scripts through a real terminal', scripts_x_modes=m.get('scripts_x_modes'), executed=m['executed'],
                                  distinct_outcomes_observed=m.get('distinct_outcomes_observed'), commands_run_after_exit=m.get('commands_run_after_exit'),
                                  failures=m['failures_by_key']))
    ctx.cov['evaluations'] += m['executed']
    ctx.cov['distinct_nontrivial'] += m.get('scripts_x_modes', 0)
    for s in m['samples'][:2]:
        ctx.sample(json.loads(s))
    vlib.report_case_failures(ctx, m, 'scripts through a real terminal')
    if m.get('commands_run_after_exit'):
        ctx.violation('after-exit: a command ran after exit in %d runs' % m['commands_run_after_exit'], m)
    ctx.cov['rule'] = 'one case = (script, mode); each is run with both input endings and with blank lines; the verdict is membership of the observed outcome in the set of outcomes of the model'
    ctx.assumptions += ['the input is a finite script (a reader blocked on an interactive input cannot be cancelled: not driven)']
