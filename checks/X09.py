"""X09 (extension, beyond the listed properties) -- files removed on a scope event
(app/scope/scopedefer).
(M) ScopeDefer.tla: RemoveOn(scope, event, file) registers, Trigger(event) removes every file
    registered for that event whatever fails on the way, touches no other file and fails
    exactly when a registered file was gone already; AllRemoved, OnlyRegistered for every
    history of <= 5 (thorough 6) calls over three files, two events and files that vanish
    behind the scope's back.  Variant "shared" (one FileDefer per scope and event, the code
    after fix) holds; variant "perfile" (the FileDefer never stored: one listener per file,
    the event scope stops at the first failing listener -- the code as found) must violate
    AllRemoved.
(R) every complete history of the model on a real scope with an in-memory filespace and
    standalone files: files left after every call, Trigger's failure, an unrelated file."""
import json
import vlib

MANIFEST = dict(technique='extension', text='', note='')

CFG = ('SPECIFICATION Spec\nCONSTANTS\n  Files = {"a", "b", "c"}\n  Events = {1, 2}\n  MaxOps = %d\n  Variant = "%s"\n%s\nCHECK_DEADLOCK FALSE\n')


def run(ctx):
    quick = ctx.quick
    r = ctx.tlc_must_pass('ext', 'ScopeDefer', 'mc.cfg', workers=4 if quick else 8, timeout=1800,
                          files={'mc.cfg': CFG % (5 if quick else 6, 'shared', 'INVARIANTS AllRemoved OnlyRegistered Emit')}, name='ScopeDefer histories, shared')
    ctx.cov['exhaustive'] = True
    rn = ctx.tlc('ext', 'ScopeDefer', 'mc.cfg', workers=2, timeout=300,
                 files={'mc.cfg': CFG % (5, 'perfile', 'INVARIANT AllRemoved')}, name='perfile variant (must violate AllRemoved)')
    ctx.cov['states'] -= rn['distinct']; ctx.cov['transitions'] -= rn['generated']
    if 'AllRemoved' not in rn['violated']:
        raise vlib.Infra('spec self-test failed: the perfile variant removes every registered file')
    shards, n, taken = vlib.shard_lines(ctx, r['out'], 8, marker='\\"k\\":\\"sd\\"', every=1 if quick else 3, offset=ctx.seed)
    m = vlib.run_sharded(ctx, lambda p: ['sdcases', '--in', p], shards)
    ctx.cov['replay'].append(dict(what='complete histories on a real scope, memfs and standalone files', model_cases=n, executed=m['executed'], failures=m['failures_by_key']))
    ctx.cov['evaluations'] += m['executed']
    ctx.cov['distinct_nontrivial'] += m['executed']
    for s in m['samples'][:1]:
        ctx.sample(json.loads(s))
    vlib.report_case_failures(ctx, m, 'scope-defer histories')
    ctx.cov['rule'] = 'histories = complete call sequences of the model (deduplicated)'
    ctx.assumptions += ['one goroutine registers and triggers (RemoveOn is a look-up followed by a store: concurrent first registrations for one event are not driven)',
                        'a file is registered at most once per event']
