"""C11 -- scope close protocol: ordered events, commit xor rollback, waits for children.
(M) ScopeClose.tla: a parent and a shared or isolated child, Close as the code's
    steps (guard + before-close, wait for the WaitGroup, triple, after-close,
    sign-off, return), a worker finishing tasks, a failer (error / kill on the
    child, error / stop on the parent), a task that reports an error on its scope before
    it is handed to DoneTask -- possibly while Close is already waiting for it --, the
    isolated context's watcher, an optional second Close; 24 configurations; invariants EachOnce, Ordered, CommitXorRollback,
    FullProtocol, RollbackIffError, ParentWaitsForChild, WaitsForTasks,
    ReturnsErrorIffHeld, SharedFailsParent, IsolatedFailsAlone, DoubleCloseRefused,
    NoTaskPanic, TaskErrorRollsBack and, under fairness, Terminates and
    ParentStopReachesIsolated; the ClosedGuard variant (scope closed as soon as Close
    begins: fixed defect c61b452) must violate NoTaskPanic.
(T) random real scope trees (1-4 scopes, shared/isolated, up to depth 3) are driven
    from concurrent goroutines (tasks -- some reporting an error, kill or stop on their own
    scope before DoneTask, at any time --, errors, kills, stops, failing listeners -- the
    scope's own and an ANCESTOR's that fails on a descendant's protocol event (ancestors run
    first: that failure is the step's error and ends the trigger) --, Close
    of every scope, second Close); what listeners and callers observe is validated by
    Trace_ScopeClose.tla (property layer)."""
import json
import vlib

MANIFEST = dict(
    technique='TLA+ model of the close protocol (steps of Close, WaitGroup, error contexts, isolated watcher) checked by TLC incl. liveness; event logs of real concurrent scope trees validated by a TLA+ trace spec',
    text='The model is exhaustive for parent+child with every failure kind and a second Close (24 configurations, safety and liveness). Hundreds of random real scope trees driven by concurrent goroutines are checked event by event: order and uniqueness of the 8 protocol events per scope, the triple only after all tasks and all children, commit/rollback against the errors certainly/possibly held, return values, loud refusal of a second Close, error propagation shared vs isolated, done-ness reaching isolated children.',
    note='Unspecified corner kept out of the driver: AppendError/Kill/Stop on a scope whose own Close has already begun by a goroutine that holds no task of it (a task may report until it is handed to DoneTask). Free-running schedules (GOMAXPROCS 1/2/4/N, random delays); no gate hooks are needed because listeners are the observation points.')


def run(ctx):
    q = ctx.quick
    inv = 'INVARIANTS EachOnce Ordered CommitXorRollback FullProtocol RollbackIffError ParentWaitsForChild WaitsForTasks ReturnsErrorIffHeld SharedFailsParent IsolatedFailsAlone DoubleCloseRefused NoTaskPanic TaskErrorRollsBack\nPROPERTIES Terminates ParentStopReachesIsolated\n'
    tmpl = 'SPECIFICATION Spec\nCONSTANTS\n  Kind = "%s"\n  FailWhat = "%s"\n  DoubleClose = %s\n  ClosedGuard = %s\n%s'
    for kind in ('shared', 'isolated'):
        for fw in ('none', 'errC', 'errP', 'stopP', 'killC', 'taskErrC', 'taskErrP'):
            for dc in ('FALSE', 'TRUE'):
                if dc == 'TRUE' and fw.startswith('task'):
                    continue
                ctx.tlc_must_pass('scope', 'ScopeClose', 'mc.cfg', workers=2, timeout=300, files={'mc.cfg': tmpl % (kind, fw, dc, 'FALSE', inv)},
                                  name='ScopeClose %s %s double=%s' % (kind, fw, dc))
    # regression variant: a scope that counts as closed as soon as Close begins panics on a task's report
    rg = ctx.tlc('scope', 'ScopeClose', 'mc.cfg', workers=2, timeout=300, files={'mc.cfg': tmpl % ('shared', 'taskErrP', 'FALSE', 'TRUE', inv)},
                 name='ClosedGuard variant (must violate NoTaskPanic)')
    ctx.cov['states'] -= rg['distinct']; ctx.cov['transitions'] -= rg['generated']
    if 'NoTaskPanic' not in rg['violated']:
        raise vlib.Infra('spec self-test failed: the ClosedGuard variant does not violate NoTaskPanic')
    ctx.cov['exhaustive'] = True
    tf = ctx.tmp('c11.ndjson')
    g = ctx.vh(['closetrace', '--out', tf, '--n', '400' if q else '8000', '--seed', str(ctx.seed)])
    v = vlib.validate_trace(ctx, 'scope', 'Trace_ScopeClose', 'Trace_ScopeClose.cfg', tf, what='real scope trees',
                            key_of=lambda e: 'trace:%s:%s' % (e.get('ev'), e.get('name', e.get('what', ''))), timeout=3000)
    ctx.cov['evaluations'] += v['events']
    ctx.cov['distinct_nontrivial'] = v['histories']
    ctx.cov['rule'] = 'one scenario = random scope tree + tasks + failers + failing listeners + concurrent closers (by seed)'
    with open(tf) as f:
        for i, line in enumerate(f):
            if i in (0, 6):
                ctx.sample(json.loads(line))
    if not v['rejected']:
        def swap(lines):
            for i, l in enumerate(lines):
                if '"name":"aclose"' in l and i > 10:
                    e = json.loads(l)
                    if e['owner'] == e['subject']:
                        # move the after-close of a scope before its triple
                        j = i
                        while j > 0 and not ('"name":"b' in lines[j] and json.loads(lines[j])['owner'] == e['owner'] and json.loads(lines[j])['subject'] == e['subject']):
                            j -= 1
                        if j > 0:
                            lines = list(lines)
                            lines.insert(j, lines.pop(i))
                            return lines, 'after-close moved before the triple (line %d)' % (i + 1)
            return lines, 'none'
        vlib.selftest_trace_rejects(ctx, 'scope', 'Trace_ScopeClose', 'Trace_ScopeClose.cfg', tf, swap)

        def flip(lines):
            for i, l in enumerate(lines):
                if '"ev":"close.end"' in l and '"ret":"nil"' in l and i > 10:
                    # only in a scenario in which no error can be held at all
                    r0 = max(j for j in range(i) if '"ev":"reset"' in lines[j])
                    r1 = min([j for j in range(i, len(lines)) if '"ev":"reset"' in lines[j]] + [len(lines)])
                    if any('"ev":"fail.start"' in x or '"fails":true' in x for x in lines[r0:r1]):
                        continue
                    # claim a rollback triple for a scope that committed
                    k = i
                    changed = False
                    lines = list(lines)
                    sc = json.loads(l)['scope']
                    for j in range(i - 1, max(0, i - 40), -1):
                        if '"ev":"event"' in lines[j]:
                            e = json.loads(lines[j])
                            if e['subject'] == sc and e['name'] in ('bcommit', 'commit', 'acommit'):
                                e['name'] = {'bcommit': 'brollback', 'commit': 'rollback', 'acommit': 'arollback'}[e['name']]
                                lines[j] = json.dumps(e)
                                changed = True
                    if changed:
                        return lines, 'commit triple relabelled rollback without any error (before line %d)' % (i + 1)
            return lines, 'none'
        vlib.selftest_trace_rejects(ctx, 'scope', 'Trace_ScopeClose', 'Trace_ScopeClose.cfg', tf, flip)
    ctx.assumptions += ['listeners are the observation points; the log is ordered by a harness mutex',
                        'failers addressing a scope complete before that scope\'s own Close starts (unspecified corner otherwise)']
