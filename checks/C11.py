"""C11 -- scope close protocol: ordered events, commit xor rollback, waits for children.
(M) ScopeClose.tla: a parent and a shared or isolated child, Close as the code's
    steps (guard + before-close, wait for the WaitGroup, triple, after-close,
    sign-off, return), a worker finishing tasks, a failer (error / kill on the
    child, error / stop on the parent), the isolated context's watcher, an optional
    second Close; 20 configurations; invariants EachOnce, Ordered, CommitXorRollback,
    FullProtocol, RollbackIffError, ParentWaitsForChild, WaitsForTasks,
    ReturnsErrorIffHeld, SharedFailsParent, IsolatedFailsAlone, DoubleCloseRefused and,
    under fairness, Terminates and ParentStopReachesIsolated.
(T) random real scope trees (1-4 scopes, shared/isolated, up to depth 3) are driven
    from concurrent goroutines (tasks, errors, kills, stops, failing listeners, Close
    of every scope, second Close); what listeners and callers observe is validated by
    Trace_ScopeClose.tla (property layer)."""
import json
import vlib

MANIFEST = dict(
    technique='TLA+ model of the close protocol (steps of Close, WaitGroup, error contexts, isolated watcher) checked by TLC incl. liveness; event logs of real concurrent scope trees validated by a TLA+ trace spec',
    text='The model is exhaustive for parent+child with every failure kind and a second Close (20 configurations, safety and liveness). Hundreds of random real scope trees driven by concurrent goroutines are checked event by event: order and uniqueness of the 8 protocol events per scope, the triple only after all tasks and all children, commit/rollback against the errors certainly/possibly held, return values, loud refusal of a second Close, error propagation shared vs isolated, done-ness reaching isolated children.',
    note='Unspecified corner kept out of the driver: AppendError/Kill/Stop on a scope whose own Close has already begun. Free-running schedules (GOMAXPROCS 1/2/4/N, random delays); no gate hooks are needed because listeners are the observation points.')


def run(ctx):
    q = ctx.quick
    inv = 'INVARIANTS EachOnce Ordered CommitXorRollback FullProtocol RollbackIffError ParentWaitsForChild WaitsForTasks ReturnsErrorIffHeld SharedFailsParent IsolatedFailsAlone DoubleCloseRefused\nPROPERTIES Terminates ParentStopReachesIsolated\n'
    for kind in ('shared', 'isolated'):
        for fw in ('none', 'errC', 'errP', 'stopP', 'killC'):
            for dc in ('FALSE', 'TRUE'):
                cfg = 'SPECIFICATION Spec\nCONSTANTS\n  Kind = "%s"\n  FailWhat = "%s"\n  DoubleClose = %s\n%s' % (kind, fw, dc, inv)
                ctx.tlc_must_pass('scope', 'ScopeClose', 'mc.cfg', workers=2, timeout=300, files={'mc.cfg': cfg},
                                  name='ScopeClose %s %s double=%s' % (kind, fw, dc))
    ctx.cov['exhaustive'] = True
    tf = ctx.tmp('c11.ndjson')
    g = ctx.vh(['closetrace', '--out', tf, '--n', '400' if q else '8000', '--seed', str(ctx.seed)])
    v = vlib.validate_trace(ctx, 'scope', 'Trace_ScopeClose', 'Trace_ScopeClose.cfg', tf, what='real scope trees',
                            key_of=lambda e: 'trace:%s:%s' % (e.get('ev'), e.get('name', e.get('what', ''))), timeout=3000)
    ctx.cov['evaluations'] += v['events']
    ctx.cov['distinct_nontrivial'] = v['histories']
    ctx.cov['rule'] = 'one scenario = random scope tree + tasks + failers + failing listeners + concurrent closers (by seed)'
    with open(tf) as f:
        for i, line in enumerate(f):
            if i in (0, 6):
                ctx.sample(json.loads(line))
    if not v['rejected']:
        def swap(lines):
            for i, l in enumerate(lines):
                if '"name":"aclose"' in l and i > 10:
                    e = json.loads(l)
                    if e['owner'] == e['subject']:
                        # move the after-close of a scope before its triple
                        j = i
                        while j > 0 and not ('"name":"b' in lines[j] and json.loads(lines[j])['owner'] == e['owner'] and json.loads(lines[j])['subject'] == e['subject']):
                            j -= 1
                        if j > 0:
                            lines = list(lines)
                            lines.insert(j, lines.pop(i))
                            return lines, 'after-close moved before the triple (line %d)' % (i + 1)
            return lines, 'none'
        vlib.selftest_trace_rejects(ctx, 'scope', 'Trace_ScopeClose', 'Trace_ScopeClose.cfg', tf, swap)

        def flip(lines):
            for i, l in enumerate(lines):
                if '"ev":"close.end"' in l and '"ret":"nil"' in l and i > 10:
                    # claim a rollback triple for a scope that committed
                    k = i
                    changed = False
                    lines = list(lines)
                    sc = json.loads(l)['scope']
                    for j in range(i - 1, max(0, i - 40), -1):
                        if '"ev":"event"' in lines[j]:
                            e = json.loads(lines[j])
                            if e['subject'] == sc and e['name'] in ('bcommit', 'commit', 'acommit'):
                                e['name'] = {'bcommit': 'brollback', 'commit': 'rollback', 'acommit': 'arollback'}[e['name']]
                                lines[j] = json.dumps(e)
                                changed = True
                    if changed:
                        return lines, 'commit triple relabelled rollback without any error (before line %d)' % (i + 1)
            return lines, 'none'
        vlib.selftest_trace_rejects(ctx, 'scope', 'Trace_ScopeClose', 'Trace_ScopeClose.cfg', tf, flip)
    ctx.assumptions += ['listeners are the observation points; the log is ordered by a harness mutex',
                        'failers addressing a scope complete before that scope\'s own Close starts (unspecified corner otherwise)']
