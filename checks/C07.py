"""C07 -- the cache view reflects its own pending operations (read-your-writes).
See checks/cache_common.py and spec/cache/Cache.tla (ViewEqIdeal).  This check
reports the view clauses: after every mutating call the six read-type calls on
every path answer as the ideal tree does; a Reader must return what ReadFile returns;
a child view of the cache must answer exactly as the cache does for the same node.Histories go on through D_OrderLost (commit-only): ViewEqIdealOL; a three-level spine
(a, a/b, a/b/a, a/b/b) so that "write below a/b, remove a recursively, write below a/b again"
is read back; names also instantiated as sub / sub.old."""
import vlib
from checks import cache_common

MANIFEST = dict(
    technique='TLA+ implementation model of the cache view (buffer-first lookup, merged listings) against a ghost ideal tree with named deviation triggers, checked by TLC (ViewEqIdeal); every model transition and simulated deep behaviours replayed on the real Cache, all read-type calls on all paths compared',
    text='For every reachable clean state of the bounded model TLC shows that exists/is-file/is-dir/read/list/stat through the cache equal the ideal tree; every transition is replayed on the real cache and the same six calls on every path of the universe are compared with the ideal (verdict) and with the implementation model (binding). Inside a trigger region the real answers must equal the ideal or the documented deviation.',
    note='Open findings (known_findings.json): D_RemoveRemote (removed remote nodes stay visible; D_RemoveRemoteDir), D_OrderLost, D_AcceptsRejected (IsFile and IsDir both true after a type-conflicting write), D_RejectsAccepted, D_FailedJournaled, D_DirCopy, D_SplitCopy (a directory copied from a source that exists in the buffer lacks the children only the remote has). Every view comparison also opens a Reader, which must return what ReadFile returns. Child views of the cache are covered by C03 (confinement) only.')


def run(ctx):
    cache_common.run_cache(ctx, 'C07')
