"""X08 (extension, beyond the listed properties) -- named wait groups of a scope
(app/modules/commonm/commservices/waits).
(M) WaitGroups.tla: the sequential meaning of ScopeWaitManager -- one counter per name,
    every Add (of one or two units) / Done also counted by the scope, a waiter (of a name, or of the scope itself)
    blocked exactly while the count of its target is positive; NoLostWakeup, NoEarlyReturn,
    ScopeCoupled, GoneForGood for every history of <= 5 (thorough 7) calls over two names and
    <= 2 (thorough 3) waiters.
    WaitGroupsGet.tla: the lazy creation of a group under the manager's mutex, two or three
    workers and a waiter as first users of one name; "locked" (the code) creates one object and
    the waiter never returns while a worker is busy; "nolock" (lookup and store as separate
    steps) must violate NoEarlyReturn.
(R) every complete history of the model on a real manager of a real scope: released waiters
    must return (watchdog), blocked waiters must not have returned, the scope ends once every
    unit is given back, the manager of a scope is one object; the race of the counterexample on
    the real code: 2-6 goroutines are the first users of a name (and of the scope's manager)
    at the same moment, thousands of times."""
import json
import vlib

MANIFEST = dict(technique='extension', text='', note='')

CFG = ('SPECIFICATION Spec\nCONSTANTS\n  Names = {"a", "b"}\n  MaxCnt = 2\n  MaxOps = %d\n  MaxWaiters = %d\n'
       'INVARIANTS NoLostWakeup NoEarlyReturn ScopeCoupled Emit\nPROPERTY GoneForGood\nCHECK_DEADLOCK FALSE\n')
GET = 'SPECIFICATION Spec\nCONSTANTS\n  Workers = {%s}\n  Variant = "%s"\n%s'


def run(ctx):
    quick = ctx.quick
    r = ctx.tlc_must_pass('ext', 'WaitGroups', 'mc.cfg', workers=4, timeout=1200,
                          files={'mc.cfg': CFG % ((5, 2) if quick else (7, 3))}, name='WaitGroups histories')
    ctx.cov['exhaustive'] = True
    for ws in ('"w1", "w2"', '"w1", "w2", "w3"'):
        ctx.tlc_must_pass('ext', 'WaitGroupsGet', 'g.cfg', workers=2, timeout=600,
                          files={'g.cfg': GET % (ws, 'locked', 'INVARIANTS NoEarlyReturn OneObject NoNegative\nPROPERTY EveryoneEnds\n')},
                          name='lazy creation, locked, workers %s' % ws)
    rn = ctx.tlc('ext', 'WaitGroupsGet', 'g.cfg', workers=2, timeout=300,
                 files={'g.cfg': GET % ('"w1", "w2"', 'nolock', 'INVARIANT NoEarlyReturn\n')}, name='lazy creation, nolock (must violate NoEarlyReturn)')
    ctx.cov['states'] -= rn['distinct']; ctx.cov['transitions'] -= rn['generated']
    if 'NoEarlyReturn' not in rn['violated']:
        raise vlib.Infra('spec self-test failed: the nolock variant does not let the waiter return early')
    shards, n, taken = vlib.shard_lines(ctx, r['out'], 8, marker='\\"k\\":\\"wg\\"', every=1 if quick else 4, offset=ctx.seed)
    m = vlib.run_sharded(ctx, lambda p: ['wgcases', '--in', p], shards)
    ctx.cov['replay'].append(dict(what='complete histories on a real ScopeWaitManager', model_cases=n, executed=m['executed'], failures=m['failures_by_key']))
    ctx.cov['evaluations'] += m['executed']
    ctx.cov['distinct_nontrivial'] += m['executed']
    for s in m['samples'][:1]:
        ctx.sample(json.loads(s))
    vlib.report_case_failures(ctx, m, 'wait-group histories')
    w = ctx.vh(['wgwitness', '--n', '3000' if quick else '60000'], timeout=3000)
    ctx.cov['replay'].append(dict(what='first users of a name released together', executed=w['executed'], failures=w['failures_by_key']))
    ctx.cov['evaluations'] += w['executed']
    vlib.report_case_failures(ctx, w, 'racing first users')
    ctx.cov['rule'] = 'histories = complete call sequences of the model (deduplicated); witness runs counted separately'
    ctx.assumptions += ['the scope is live while units are added (Add on a scope that is already done is counted by the group but not by the scope: not driven)',
                        'an early return is observed after a settling pause of 300 us; one that happens later is missed, never invented']
