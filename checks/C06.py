"""C06 -- write-back cache: nothing reaches the remote before Commit, everything after.
See checks/cache_common.py and spec/cache/Cache.tla.  This check reports the
commit-related clauses: RemoteUntouched (no trigger), CommitExact, FaultReported,
RetryConverges (a failed Commit followed by a successful one).  The injected failure
of a remote stream sits alternately at its open and at its close (flush); directory
copies through the cache are part of the operation set (open findings D_DirCopy, D_SplitCopy).
Histories go on through D_RemoveRemote (view-only; its part that outlives Commit is named
D_RemoveRemoteDir): CommitExactRR; names also instantiated as sub / sub.old; a three-level spine."""
import vlib
from checks import cache_common

MANIFEST = dict(
    technique='TLA+ implementation model of the cache (buffer, four journals, multi-order Commit with fault positions) with a ghost ideal tree and named deviation triggers, checked by TLC; every model transition and simulated deep behaviours replayed on the real Cache over a fault-injecting remote',
    text='TLC proves on all 121 initial remotes over {a,b} x depth 2, <=2 (thorough: <=3, and <=4 without faults) cache operations, <=2 Commits and every position of a failing remote call that outside the named deviation triggers the implementation model equals direct application (CommitExact, retry convergence, fault reported, remote untouched before Commit). Every transition is then replayed on the real cache comparing remote, buffer, journals and results; inside a trigger region the real behaviour must equal the ideal or the documented deviation.',
    note='Open findings (known_findings.json): D_RemoveRemote (+ D_RemoveRemoteDir, its part that outlives Commit), D_OrderLost, D_AcceptsRejected, D_RejectsAccepted, D_FailedJournaled, D_DirCopy, D_SplitCopy (directory copies are part of the modelled operation set for every conflict-free destination). Faults are injected at remote-call granularity.')


def run(ctx):
    cache_common.run_cache(ctx, 'C06')
