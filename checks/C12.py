"""C12 -- scope failure signalling is safe from any number of goroutines.
(M) ScopeSignal.tla: error list under its mutex, done channel, Stop as the code's
    steps, a child created on a done parent; TLC checks NoPanic, ClosedOnce,
    AllRetained, DoneFires, ParentCanClose for every assignment of
    {append, kill, stop, child} to 4 callers; the "prefix" variant (check-then-close,
    unconditional sign-off) must violate NoPanic.
(R) the prefix counterexample as a schedule on the real goroutines: all callers are
    released together at stop.enter and whoever reaches stop.closing is held until
    the others had the chance to get there (deterministic where 20 000 free trials
    were not), on plain / isolated context scopes, full scopes, shared and isolated
    children; children created on (and racing with the end of) a done parent; errors are
    appended singly and as lists with nil entries in any position (nils are skipped, the
    rest retained; an all-nil list ends nothing); a scope that is ended while registered
    tasks are still running: Wait / Close return only after the last sign-off, report every
    error the tasks appended, and the tasks' own calls do not panic.
(T) free-running storms of 2-64 goroutines with start/end events of every call are
    validated by Trace_ScopeSignal.tla; the "errors" observations alternate between the list
    accessor (Errors) and the cumulative one (Err: the leaves beneath its wrappers), so a
    cumulative error that stops growing after its first use is rejected."""
import json
import vlib

MANIFEST = dict(
    technique='TLA+ model of Stop/AppendError/Kill and child sign-off checked by TLC (with regression variant); its counterexample schedule forced on real goroutines through build-tag hooks; concurrent storms validated by a TLA+ trace spec',
    text='Exhaustive over all 256 programs of 4 concurrent callers at the granularity of the check and the close of the done channel; 132 scripted runs on 5 kinds of real scopes force the double-close window; storms of up to 64 goroutines are validated call by call (no panic, every error retained, IsDone/Errors answers consistent with the calls that had completed/started).',
    note='Trusted: hook sites stop.enter / stop.closing. The Go memory model below the mutex level is not modelled (a -race build is not part of the verdict).')


def run(ctx):
    q = ctx.quick
    ctx.tlc_must_pass('scope', 'ScopeSignal', 'MC_ScopeSignal.cfg', workers=4, timeout=600, name='ScopeSignal 4 callers')
    ctx.cov['exhaustive'] = True
    rp = ctx.tlc('scope', 'ScopeSignal', 'MC_ScopeSignal_prefix.cfg', workers=2, timeout=300, name='prefix variant (must violate NoPanic)')
    ctx.cov['states'] -= rp['distinct']; ctx.cov['transitions'] -= rp['generated']
    if 'NoPanic' not in rp['violated']:
        raise vlib.Infra('spec self-test failed: prefix variant does not violate NoPanic')
    m = ctx.vh(['signalscript', '--rounds', '3' if q else '25'])
    ctx.cov['replay'].append(dict(what='scripted schedules', executed=m['executed'], failures=m['failures_by_key']))
    ctx.cov['evaluations'] += m['executed']
    for s in (m.get('samples') or [])[:1]:
        ctx.sample(s)
    vlib.report_case_failures(ctx, m, 'scripted schedule')
    tf = ctx.tmp('c12.ndjson')
    g = ctx.vh(['signaltrace', '--out', tf, '--n', '150' if q else '4000', '--seed', str(ctx.seed)])
    v = vlib.validate_trace(ctx, 'scope', 'Trace_ScopeSignal', 'Trace_ScopeSignal.cfg', tf, what='storms',
                            key_of=lambda e: 'trace:%s:%s' % (e.get('ev'), e.get('op', '')), timeout=3000)
    ctx.cov['evaluations'] += v['events']
    ctx.cov['distinct_nontrivial'] = m['executed'] + v['histories']
    ctx.cov['rule'] = 'scripted runs (scope kind x program mix x round) + storms (kind, goroutine count, op mix by seed)'
    with open(tf) as f:
        for i, line in enumerate(f):
            if i in (0, 5):
                ctx.sample(json.loads(line))
    if not v['rejected']:
        def lose(lines):
            for i, l in enumerate(lines):
                e = json.loads(l)
                if e.get('ev') == 'final' and e['errors'] > 0:
                    e['errors'] -= 1
                    lines = list(lines); lines[i] = json.dumps(e)
                    return lines, 'one error lost in the final count (line %d)' % (i + 1)
            return lines, 'none'
        vlib.selftest_trace_rejects(ctx, 'scope', 'Trace_ScopeSignal', 'Trace_ScopeSignal.cfg', tf, lose)
    ctx.assumptions += ['event log ordered by a harness mutex: start logged before the call, end after it']
