"""C16 -- pip:try runs exactly the matching handler and contains the body's failure.
(M) Try.tla: the body (K commands, optional failing command, optional nested task that
    succeeds or fails) in its own error context, the wait for the body's scope, the
    handlers (finally, then fail | success) as concurrent tasks of the surrounding
    scope, failing handlers; for every program with K = 2: HandlersAfterBody,
    MatchingHandler, BodyFailureContained, AllRan, and the liveness Finishes; the
    "early" variant (handlers submitted without waiting for the body) must violate
    HandlersAfterBody.  A handler submitted after another handler has failed is refused
    ("cut") and the refusal is reported on the surrounding scope while its Close waits:
    NoCrash holds; in the "closedguard" variant (scope closed as soon as Close starts,
    fixed defect) that report panics and NoCrash is violated.
(T) EVERY program of the bound (body length 1-2, failing command, nested task none / ok /
    failing, all 8 handler subsets, all failing subsets: 405 programs) is executed by a
    real application through its terminal in strict mode with probe commands; the
    events and the error state of the surrounding scope are validated by Trace_Try.tla.
(R) the cut schedule of the model forced on the real code with the try.handler hook: the
    finally handler has failed before the fail / success handler is submitted; the run
    must finish (no panic) and its trace must be accepted.
(T2) pairs of try blocks (4 first blocks x all 162 one-command second blocks) run one after
    the other by ONE application through one terminal session; a separator command closes
    the first history and opens the second, so each block is validated on its own: the
    second block must behave as if the first had never run (handler tasks of different
    blocks must not collide) and the first must leave no error behind.
    Try blocks whose body starts a task that takes a named resource (pip:run --wlock / --rlock) and whose
    handlers start tasks taking the same resource: the handlers run as specified whether the body's task fails
    or not (a task gives its resources back when it ends), under a watchdog."""
import json
import vlib

MANIFEST = dict(
    technique='TLA+ model of pip:try (body scope, nested task, wait, concurrent handler tasks) checked by TLC incl. liveness and a regression variant; every program of the bound executed by a real application and validated by a TLA+ trace spec',
    text='All 405 try programs in the bound run in a real application (terminal, common, container and pipeline modules) with probe commands; the trace spec rejects a handler that starts before the body or its nested task has finished, a handler that does not match the body\'s outcome, a missing handler, and a surrounding scope whose error state is not exactly "some handler failed". The nested task outlives the body\'s own commands, so "handlers after the body" is exercised with a real overlap window.',
    note='Unspecified corner: all handlers are tasks of one surrounding scope, so once a handler has failed, a handler that had not started may be cut short (observed: a failing success handler can pre-empt finally). The surrounding scope is observed as the result of the strict-mode terminal run.')


def run(ctx):
    q = ctx.quick
    ctx.tlc_must_pass('pipeline', 'Try', 'MC_Try.cfg', workers=4, timeout=600, name='Try K=2, all programs')
    ctx.cov['exhaustive'] = True
    re_ = ctx.tlc('pipeline', 'Try', 'MC_Try_early.cfg', workers=2, timeout=300, name='early variant (must violate HandlersAfterBody)')
    ctx.cov['states'] -= re_['distinct']; ctx.cov['transitions'] -= re_['generated']
    if 'HandlersAfterBody' not in re_['violated']:
        raise vlib.Infra('spec self-test failed: the early variant does not violate HandlersAfterBody')
    rc = ctx.tlc('pipeline', 'Try', 'MC_Try_closedguard.cfg', workers=2, timeout=300, name='closedguard variant (must violate NoCrash)')
    ctx.cov['states'] -= rc['distinct']; ctx.cov['transitions'] -= rc['generated']
    if 'NoCrash' not in rc['violated']:
        raise vlib.Infra('spec self-test failed: the closedguard variant does not violate NoCrash')
    # body and handlers that start tasks taking the SAME named resource (a failing task gives its resources back)
    wl = ctx.vh(['trylocks'], timeout=600)
    ctx.cov['replay'].append(dict(what='try blocks whose body task and handler tasks lock the same resource (read / write, failing / succeeding body)', executed=wl['executed'], failures=wl['failures_by_key']))
    ctx.cov['evaluations'] += wl['executed']
    vlib.report_case_failures(ctx, wl, 'try with resource locks')
    tf = ctx.tmp('c16.ndjson')
    rounds = 1 if q else 10
    total = 0
    for rnd in range(rounds):
        g = ctx.vh(['trytrace', '--out', tf, '--every', '1', '--k', '2' if q else '3'], timeout=3000)
        v = vlib.validate_trace(ctx, 'pipeline', 'Trace_Try', 'Trace_Try.cfg', tf, what='pip:try programs (round %d)' % rnd,
                                key_of=lambda e: 'trace:%s:%s' % (e.get('ev'), e.get('id', '')), timeout=3000)
        ctx.cov['evaluations'] += v['events']
        total += v['histories']
        if v['rejected']:
            break
    # forced schedule (try.handler hook): the finally handler has failed before the next handler is submitted
    if not v['rejected']:
        tg = ctx.tmp('c16_gate.ndjson')
        ctx.vh(['trytrace', '--out', tg, '--gate', '--k', '1' if q else '2'], timeout=3000)
        vg = vlib.validate_trace(ctx, 'pipeline', 'Trace_Try', 'Trace_Try.cfg', tg, what='pip:try programs whose finally handler fails before the next handler is submitted',
                                 key_of=lambda e: 'trace-gated:%s:%s' % (e.get('ev'), e.get('id', '')), timeout=3000)
        ctx.cov['evaluations'] += vg['events']
        total += vg['histories']
    # two try blocks run one after the other by ONE application: each must behave as if alone
    if not v['rejected']:
        ts = ctx.tmp('c16_seq.ndjson')
        ctx.vh(['tryseq', '--out', ts, '--every', '3' if q else '1', '--offset', str(ctx.seed)], timeout=3000)
        vs = vlib.validate_trace(ctx, 'pipeline', 'Trace_Try', 'Trace_Try.cfg', ts, what='two try blocks in one application (each validated on its own)',
                                 key_of=lambda e: 'trace-seq:%s:%s' % (e.get('ev'), e.get('id', '')), timeout=3000)
        ctx.cov['evaluations'] += vs['events']
        total += vs['histories']
    ctx.cov['distinct_nontrivial'] = total
    ctx.cov['rule'] = 'every program = (body length, failing command, nested task, defined handlers, failing handlers) in the bound; repeated for schedule variety in the thorough tier'
    with open(tf) as f:
        for i, line in enumerate(f):
            if i in (0, 2):
                ctx.sample(json.loads(line))
    if not v['rejected']:
        def early(lines):
            for i, l in enumerate(lines):
                if '"id":"y1"' in l and '"ev":"begin"' in l:
                    j = i
                    while j > 0 and '"ev":"end"' not in lines[j - 1]:
                        j -= 1
                    if j > 1 and '"reset"' not in lines[j - 1]:
                        cand = list(lines)
                        cand.insert(j - 1, cand.pop(i))
                        return cand, 'finally begins before the last body probe ended (line %d)' % (i + 1)
            return lines, 'none'
        vlib.selftest_trace_rejects(ctx, 'pipeline', 'Trace_Try', 'Trace_Try.cfg', tf, early)

        def leak(lines):
            for i, l in enumerate(lines):
                if '"ev":"final"' in l and '"outererr":false' in l:
                    # a failing body marks the surrounding scope
                    for j in range(i - 1, max(0, i - 12), -1):
                        if '"reset"' in lines[j]:
                            if '"failat":0' not in lines[j]:
                                cand = list(lines); cand[i] = l.replace('false', 'true')
                                return cand, 'a failing body fails the surrounding scope (line %d)' % (i + 1)
                            break
            return lines, 'none'
        vlib.selftest_trace_rejects(ctx, 'pipeline', 'Trace_Try', 'Trace_Try.cfg', tf, leak)
    ctx.assumptions += ['the surrounding scope is the strict-mode terminal loop: its failure is the error returned by the application run']
