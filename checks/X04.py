"""X04 (extension, beyond the listed properties) -- the boot sequence (app/bootstrap).
(M) Bootstrap.tla: lifecycle guards (Register after Init, Init twice, Run before Init or
    twice are refused) and Run as one goroutine per module with the code's steps (result
    assigned, tested, appended); ErrorReported / EveryErrorKept / Terminates for every
    interleaving of 3 modules; the "shared" variant (one result variable and an unguarded
    append for all goroutines -- the code before fix 887a5bb) must violate ErrorReported.
(R) every lifecycle history of the model replayed on a real Bootstrap (refusals, callback
    order, Run's result); the racing schedule of the counterexample is driven on the real
    code: 2-5 modules released at the same moment, 1-2 failing, thousands of times."""
import json
import vlib

MANIFEST = dict(technique='extension', text='', note='')

CFG = 'SPECIFICATION Spec\nCONSTANTS\n  Modules = {%s}\n  Fails = {%s}\n  Variant = "%s"\nINVARIANTS ErrorReported EveryErrorKept Emit\n%s'


def q(xs):
    return ', '.join('"%s"' % x for x in xs)


def run(ctx):
    quick = ctx.quick
    total = dict(executed=0)
    for mods, fails in ((['a', 'b', 'c'], ['a', 'b']), (['a', 'b'], []), (['a', 'b', 'c'], ['c']), (['a'], ['a'])):
        r = ctx.tlc_must_pass('ext', 'Bootstrap', 'mc.cfg', workers=4, timeout=600,
                              files={'mc.cfg': CFG % (q(mods), q(fails), 'local', 'PROPERTY Terminates\n')}, name='Bootstrap local %s fails %s' % (mods, fails))
        shards, n, taken = vlib.shard_lines(ctx, r['out'], 1)
        m = vlib.run_sharded(ctx, lambda p: ['bootcases', '--in', p], shards)
        ctx.cov['replay'].append(dict(what='lifecycle histories', modules=mods, fails=fails, executed=m['executed'], failures=m['failures_by_key']))
        ctx.cov['evaluations'] += m['executed']
        ctx.cov['distinct_nontrivial'] += m['executed']
        for s in m['samples'][:1]:
            ctx.sample(json.loads(s))
        vlib.report_case_failures(ctx, m, 'lifecycle histories on a real Bootstrap')
    ctx.cov['exhaustive'] = True
    rs = ctx.tlc('ext', 'Bootstrap', 'mc.cfg', workers=2, timeout=300,
                 files={'mc.cfg': CFG % (q(['a', 'b']), q(['a']), 'shared', '')}, name='shared variant (must violate ErrorReported)')
    ctx.cov['states'] -= rs['distinct']; ctx.cov['transitions'] -= rs['generated']
    if 'ErrorReported' not in rs['violated']:
        raise vlib.Infra('spec self-test failed: the shared variant does not lose a module error')
    w = ctx.vh(['bootwitness', '--n', '6000' if quick else '120000'], timeout=3000)
    ctx.cov['replay'].append(dict(what='modules released together', executed=w['executed'], failures=w['failures_by_key']))
    ctx.cov['evaluations'] += w['executed']
    vlib.report_case_failures(ctx, w, 'racing modules')
    ctx.cov['rule'] = 'lifecycle histories = call sequences of the model (deduplicated); witness runs counted separately'
    ctx.assumptions += ['module callbacks themselves do not fail in Init (the first failure aborts Init: not driven)']
