"""C19 -- template providers: layered definitions, isolated views, cache-transparent.
(M) Templates.tla: template objects as mutable maps on a heap (Clone allocates, Parse
    overrides in place), the providers' Base / Layout / View steps for the HTML and the
    text variant (they differ in where they clone), caching on and off; for every file
    set of a small family and every sequence of <=3 requests over 2 layouts x 2 views:
    LayeredAndIsolated -- every template ever handed out shows helpers (+) layout (+)
    view, now and after every later request; the "noclone" variant must violate it.
    TemplatesRace.tla: first use of a cache map by 3 requesters with non-atomic map
    accesses: NoMapRace / BuiltOnce; the "prefix" variant (unlocked fast path) must
    violate NoMapRace.
    TemplatesLayers.tla: a view build (view lock) overlapping a direct layout build
    (layout lock), file by file: OwnFilesOnly / NoForeignFile; the "sharedloader" variant
    (one loader object for all layers) must violate them.
(R) every history TLC prints is executed on the real provider of that kind and cache
    setting over generated template files; after EVERY request every template handed
    out so far is inspected through its parse trees (not executed: an executed html
    template cannot be cloned) and compared; every VIEW is rendered as soon as it has been
    handed out (as a caller does) and again at the end.  Layouts whose file does not parse
    (lbad): every request through them must fail, the first time and every time, cached or
    not (BadAlwaysFails; the "cachefail" variant that remembers the failed load must violate it).  Concurrent first use runs in a SUBPROCESS (a runtime map fault
    kills the process): 16 goroutines released together x 300 trials on both providers,
    cached and uncached, asking for views AND directly for layouts; views of several files;
    every template must hold exactly its own definitions (none of another view's)."""
import json, subprocess
import vlib

NPROC = 14

MANIFEST = dict(
    technique='TLA+ heap model of template objects and the providers\' clone/parse steps (both variants, cache on/off, regression variant) plus a map-access race model, checked by TLC; every request history replayed on the real providers with parse-tree inspection after each request; concurrent first use in a subprocess',
    text='4 x 62 694 request histories (file set family x all sequences of <=3 requests; quick: every 4th) are executed on the real html and text providers with caching on and off; each handed-out template is re-inspected after every later request (isolation) and views are rendered. The unlocked cache read that kills the process under concurrent first use is a 7-state counterexample of the race model and is reproduced by the subprocess driver on the pre-fix code in every run.',
    note='Template syntax beyond define/text is not modelled (the html escaper is trusted). Concurrent first use is probabilistic (barrier release, 300 trials), not gate-forced: no hook sits inside the providers.')


def run(ctx):
    q = ctx.quick
    total = 0
    for kind in ('html', 'text'):
        for cached in ('TRUE', 'FALSE'):
            r = ctx.tlc_must_pass('templates', 'Templates', 'MC_Templates_%s_%s.cfg' % (kind, cached), workers=8, timeout=1800,
                                  name='Templates %s cached=%s' % (kind, cached))
            shards, tot, taken = vlib.shard_lines(ctx, r['out'], NPROC, marker='\\"k\\":\\"tpl\\"', every=4 if q else 1, offset=ctx.seed)
            m = vlib.run_sharded(ctx, lambda p: ['tplcases', '--in', p, '--kind', kind, '--cached=%s' % cached.lower()], shards)
            ctx.cov['replay'].append(dict(what='%s cached=%s' % (kind, cached), model_histories=tot, executed=m['executed'], failures=m['failures_by_key']))
            ctx.cov['evaluations'] += m['executed']
            total += m['executed']
            for s in (m.get('samples') or [])[:1]:
                ctx.sample(json.loads(s))
            vlib.report_case_failures(ctx, m, 'request histories on the %s provider (cached=%s)' % (kind, cached))
            if m['executed'] == 0:
                raise vlib.Infra('nothing executed')
    ctx.cov['exhaustive'] = True
    rcf = ctx.tlc('templates', 'Templates', 'MC_Templates_cachefail.cfg', workers=4, timeout=300, name='cachefail variant (a failed layout load remembered; must violate BadAlwaysFails)')
    ctx.cov['states'] -= rcf['distinct']; ctx.cov['transitions'] -= rcf['generated']
    if not rcf['violated']:
        raise vlib.Infra('spec self-test failed: the cachefail variant violates nothing')
    rn = ctx.tlc('templates', 'Templates', 'MC_Templates_noclone.cfg', workers=4, timeout=300, name='noclone variant (must violate LayeredAndIsolated)')
    ctx.cov['states'] -= rn['distinct']; ctx.cov['transitions'] -= rn['generated']
    if 'Inv' not in rn['violated']:
        raise vlib.Infra('spec self-test failed: the noclone variant does not violate the invariant')
    ctx.tlc_must_pass('templates', 'TemplatesRace', 'MC_TemplatesRace.cfg', workers=2, timeout=300, name='TemplatesRace (locked reads)')
    rr = ctx.tlc('templates', 'TemplatesRace', 'MC_TemplatesRace_prefix.cfg', workers=2, timeout=300, name='unlocked fast path (must violate NoMapRace)')
    ctx.cov['states'] -= rr['distinct']; ctx.cov['transitions'] -= rr['generated']
    if 'NoMapRace' not in rr['violated']:
        raise vlib.Infra('spec self-test failed: the unlocked fast path does not violate NoMapRace')
    ctx.tlc_must_pass('templates', 'TemplatesLayers', 'MC_TemplatesLayers.cfg', workers=2, timeout=300, name='TemplatesLayers (a view build overlapping a direct layout build)')
    rl = ctx.tlc('templates', 'TemplatesLayers', 'MC_TemplatesLayers_shared.cfg', workers=2, timeout=300, name='one loader shared by the layers (must violate NoForeignFile)')
    ctx.cov['states'] -= rl['distinct']; ctx.cov['transitions'] -= rl['generated']
    if not (set(rl['violated']) & {'NoForeignFile', 'OwnFilesOnly'}):
        raise vlib.Infra('spec self-test failed: a loader shared by the layers keeps the templates apart')
    # concurrent first use in a subprocess
    exe = vlib.build_harness()
    trials = 300 if q else 3000
    p = subprocess.run([exe, 'tplrace', '--trials', str(trials), '--g', '16'], stdout=subprocess.PIPE, stderr=subprocess.PIPE, text=True, timeout=3000)
    ctx.cov['replay'].append(dict(what='concurrent first use (subprocess)', trials=trials, goroutines=16, exit_status=p.returncode))
    ctx.cov['evaluations'] += trials
    if p.returncode != 0:
        ctx.failure('crash:first-use', 'the process using both providers from 16 goroutines for the first time died with status %d: %s' % (
            p.returncode, p.stderr[:1500]), dict(stderr=p.stderr[:6000]))
    else:
        res = json.loads(p.stdout.strip().splitlines()[-1])
        if res.get('mismatches'):
            ctx.failure('race:wrong-template', '%d concurrent callers got a template that is not the layered one' % res['mismatches'], res)
    ctx.cov['distinct_nontrivial'] = total
    ctx.cov['rule'] = 'one case = file set x request history (all prefixes are cases too) x provider kind x cache flag'
    ctx.assumptions += ['templates consist of define blocks with literal bodies']
