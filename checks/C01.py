"""C01 -- the in-memory filespace behaves as the abstract tree FsTree on every history.
(M) TLC explores MemFS.tla exhaustively (2 names, 2 contents, depth 2; raw path
    spellings) asserting the specification's own lemmas on every transition;
(R) every transition TLC expands is one conformance case replayed on a fresh
    memfs (root, child view, view of a view): result, whole projected tree and the
    snapshot obligations (buffers in/out, earlier listings) are compared;
(T) random long histories well outside that universe are recorded from the real
    code (views, decorated spellings, binary/large contents, scribbled buffers,
    re-inspected listings) and validated by Trace_MemFS.tla.
(R2) MemFSSeq.tla: every SEQUENCE of 3 mutating calls with a single specified outcome, run
    through the API of a fresh filespace (the state is reached by the calls, not built by the
    harness), result and whole tree compared after every call; every second case / sequence
    instantiates the model's names as string-prefix-related names (sub / sub.old / su)."""
import os, json
import vlib

NPROC = 14

MANIFEST = dict(
    technique='TLA+ reference model (FsTree+PathNorm) checked by TLC; every TLC transition replayed on the real memfs; recorded random histories validated by a TLA+ trace spec',
    text='TLC enumerates every reachable abstract tree over 2 names x 2 contents x depth 2 and every call with raw path spellings; each of the ~2*10^5 transitions is executed on a fresh real memfs (root, child view, view of a view) comparing result, whole projected tree, buffers handed in/out and earlier listings; then long random histories far outside that universe (12 names, depth 5, binary and 64 KiB contents, decorated and climbing spellings, nested views) recorded from the real code are checked line by line against the same specification by TLC. Exhaustive for the small universe, sampled beyond it.',
    note='Trusted: TLC, the harness projection (ReadDir/ReadFile/Lstat walk), the token<->bytes dictionary. FsTree leaves corners U1-U6 nondeterministic because the statement is silent there. Modes and times are not compared.')


def run(ctx):
    q = ctx.quick
    # ---------------- (M) + case generation
    cfg = 'MC_MemFS_quick.cfg' if q else 'MC_MemFS_thorough.cfg'
    r = ctx.tlc_must_pass('fs', 'MemFS', cfg, workers=8, timeout=3000, name='MemFS exhaustive')
    ctx.cov['exhaustive'] = True
    # ---------------- (R) one test per transition
    for backends, every in ((['mem'], 2 if q else 1), (['memview', 'memview2'], 8 if q else 1)):
        shards, total, taken = vlib.shard_lines(ctx, r['out'], NPROC, every=every, offset=ctx.seed)
        m = vlib.run_sharded(ctx, lambda p: ['fscases', '--in', p, '--backends', ','.join(backends), '--workers', '1'], shards)
        ctx.cov['replay'].append(dict(backends=backends, model_transitions=total, executed=m['executed'],
                                      failures=m['failures_by_key'], ops=m['ops'], hangs=m['hangs']))
        ctx.cov['evaluations'] += m['executed']
        for s in m['samples'][:2]:
            ctx.sample(json.loads(s))
        vlib.report_case_failures(ctx, m, 'replay of TLC transitions on %s' % ','.join(backends))
        if m['executed'] == 0:
            raise vlib.Infra('no case executed')
    ctx.cov['distinct_nontrivial'] = total
    ctx.cov['rule'] = ('cases = every (reachable abstract tree, call, raw spelling) expanded by TLC; each is distinct by '
                       'construction; non-trivial = all (each compares result + whole tree + snapshot obligations)')
    # ---------------- (R2) call SEQUENCES through the API (the state is reached by the calls themselves)
    rq = ctx.tlc_must_pass('fs', 'MemFSSeq', 'MC_MemFSSeq_mem_%s.cfg' % ('quick' if q else 'thorough'), workers=8, timeout=1800, name='MemFSSeq: every sequence of 3 mutating calls')
    shq, totq, takq = vlib.shard_lines(ctx, rq['out'], NPROC, marker='\\"k\\":\\"seq\\"', every=5 if q else 1, offset=ctx.seed)
    mq = vlib.run_sharded(ctx, lambda p: ['fsseq', '--in', p, '--backends', 'mem,memview,memview2'], shq)
    ctx.cov['replay'].append(dict(what='call sequences through the API (in-memory)', model_sequences=totq, executed=mq['executed'], failures=mq['failures_by_key']))
    ctx.cov['evaluations'] += mq['executed']
    ctx.cov['distinct_nontrivial'] += mq['executed']
    vlib.report_case_failures(ctx, mq, 'call sequences')
    # ---------------- (T) random histories -> trace validation
    tf = ctx.tmp('c01_trace.ndjson')
    n, steps = (90, 70) if q else (1500, 150)
    g = ctx.vh(['fstrace', '--out', tf, '--n', str(n), '--steps', str(steps), '--backends', 'mem,memview,memview2',
                '--seed', str(ctx.seed), '--names', '6' if q else '12', '--depth', '4' if q else '5'])
    v = vlib.validate_trace(ctx, 'fs', 'Trace_MemFS', 'Trace_MemFS.cfg', tf, what='random memfs histories')
    ctx.cov['evaluations'] += g['events']
    with open(tf) as f:
        for i, line in enumerate(f):
            if 40 <= i < 42:
                ctx.sample(json.loads(line))
    # ---------------- binding self-test: a corrupted accepted trace must be rejected
    if not v['rejected']:
        def corrupt(lines):
            for i, l in enumerate(lines):
                e = json.loads(l)
                if e.get('ev') == 'op' and e.get('name') in ('isfile', 'isdir', 'isexist') and i > len(lines) // 3:
                    e['res'] = [['true']] if e['res'] == [['false']] else [['false']]
                    lines = list(lines)
                    lines[i] = json.dumps(e)
                    return lines, 'flip the result of a query at line %d' % (i + 1)
            return lines[:-1] + ['{"ev":"inspect","h":99999,"now":[]}'], 'inspect an unknown handle'
        vlib.selftest_trace_rejects(ctx, 'fs', 'Trace_MemFS', 'Trace_MemFS.cfg', tf, corrupt)

        def drop(lines):
            for i, l in enumerate(lines):
                e = json.loads(l)
                if e.get('ev') == 'op' and e.get('name') in ('write', 'mkdir') and e['res'] == [['ok']] and i > 10 \
                        and json.loads(lines[i - 1]).get('tree') != e.get('tree'):
                    return lines[:i] + lines[i + 1:], 'remove the event of a successful mutation at line %d' % (i + 1)
            return lines[1:], 'remove first event'
        vlib.selftest_trace_rejects(ctx, 'fs', 'Trace_MemFS', 'Trace_MemFS.cfg', tf, drop)
    ctx.assumptions += [
        'contents are compared as opaque tokens through a token<->bytes dictionary kept by the harness',
        'file modes and modification times are not part of the statement and are not compared',
        'unspecified corners U1-U6 of FsTree.tla are nondeterministic in the specification',
    ]
