"""X07 (extension, beyond the listed properties) -- gio.Input, the buffered reader behind app.Input
(terminal input, task bodies, Repeater, BufferInput): ReadWord, ReadLine and the raw Read over one
byte stream that the underlying reader delivers in chunks of its own choosing.
(M) Input.tla: the abstract meaning of the three calls as a cursor in the stream; every token
    stream of <= 4 (thorough 5) tokens over {7-character word, 1-character word, space, LF
    (thorough: CR)}, every set of cut positions, every sequence of 3 calls: InOrder (bytes are
    delivered in order, at most once, only white space is passed over); the "rawread" variant
    (code before fix 1c54d78: Read bypassed the buffer) must violate it.
(R) every case on a real gio.Input over a reader that delivers exactly the model's chunks, and
    over three more chunkings of the same stream (all at once, byte by byte, two bytes at a
    time), with buffer sizes 16 (the minimum) and 64: result text, EOF flag, no other error,
    no panic -- so the results are those of the abstract meaning whatever the chunking; every
    second run reads through a bufferio.BufferInput (Tee: same results, the buffer holds
    exactly what the calls returned)."""
import json
import vlib

MANIFEST = dict(technique='extension', text='', note='')
CFG = 'SPECIFICATION Spec\nCONSTANTS\n  Tokens = {%s}\n  MaxTokens = %d\n  MaxOps = 3\n  Variant = "%s"\n  Emit = %s\nINVARIANT InOrder\nCHECK_DEADLOCK FALSE\n'


def run(ctx):
    q = ctx.quick
    toks = '"W", "x", "s", "n"' if q else '"W", "x", "s", "n", "r"'
    r = ctx.tlc_must_pass('ext', 'Input', 'mc.cfg', workers=8, timeout=3000, files={'mc.cfg': CFG % (toks, 4 if q else 5, 'current', 'TRUE')}, name='input streams, chunkings, call sequences')
    ctx.cov['exhaustive'] = True
    rv = ctx.tlc('ext', 'Input', 'mc.cfg', workers=2, timeout=600, files={'mc.cfg': CFG % ('"x", "s"', 3, 'rawread', 'FALSE')}, name='rawread variant (must violate InOrder)')
    ctx.cov['states'] -= rv['distinct']; ctx.cov['transitions'] -= rv['generated']
    if 'InOrder' not in rv['violated']:
        raise vlib.Infra('spec self-test failed: a Read that bypasses the buffer keeps the bytes in order')
    every = 1 if q else 8
    shards, n, taken = vlib.shard_lines(ctx, r['out'], 12, marker='\\"k\\":\\"inp\\"', every=every, offset=ctx.seed % every)
    m = vlib.run_sharded(ctx, lambda p: ['inpcases', '--in', p], shards)
    ctx.cov['replay'].append(dict(what='streams x chunkings x call sequences on a real gio.Input (4 chunkings, 2 buffer sizes each)', model_cases=n, executed=m['executed'], runs=m.get('calls', 0), failures=m['failures_by_key']))
    ctx.cov['evaluations'] += m.get('calls', m['executed'])
    ctx.cov['distinct_nontrivial'] += m['executed']
    for s in m['samples'][:1]:
        ctx.sample(json.loads(s))
    vlib.report_case_failures(ctx, m, 'gio.Input')
    ctx.cov['rule'] = 'cases = finished behaviours printed by TLC (thorough: every 8th, offset = seed); a case is not run with a buffer shorter than its longest line'
    ctx.assumptions += ['single goroutine per Input', 'readers that fail with an error other than EOF are not driven']
