"""C13 -- data scope: child overlays parent, locked sections are atomic.
(M) DataScope.tla: parent <- child maps under RW mutexes; threads doing locked
    read-modify-write increments and plain Set/Get through the child; invariants
    NoLostUpdate, OneHolder, ChildSetLeavesParent, ChildOverlays, termination; the
    "nolock" variant (LockData without the mutex) must violate NoLostUpdate; the
    get-or-create idiom of the scope-bound services (Lock ; Get ; create if absent ;
    Commit) with OneInstance, and its "checkoutside" variant (plain read before the
    locked section, no second look inside) which must violate it.
(T) real chains of 1-3 data scopes driven by 2-5 goroutines (plain get/set, locked
    sections) with call/ret events; Trace_DataScope.tla decides linearizability with
    respect to the overlay semantics: TLC places every call's effect between its two
    events, the scope's mutex must be free for a plain effect, so nothing can take
    effect inside another goroutine's locked section; final values are checked too.
    The three get-or-create services built on the data lock (tasks.Unit.FromScope,
    envs.Unit.Envs, waits.ForScope) must hand one instance to all concurrent callers --
    also on a scope decorated to yield the processor after every data-scope call, which
    widens any window between a read and the locked section that should contain it."""
import json
import vlib

MANIFEST = dict(
    technique='TLA+ model of overlay lookup and the data lock checked by TLC (with regression variant); linearizability of recorded concurrent histories decided by a TLA+ trace spec (effects as internal steps, high-water acceptance); concurrent get-or-create services compared by instance identity',
    text='The model is exhaustive for 3 incrementers + 2 plain writers on parent and child. Real histories (chains up to depth 3, up to 5 goroutines, unique written values) are accepted only if some placement of every call\'s effect between its call and return explains all returned values and the final maps -- which fails exactly when an update under the lock is lost or a plain operation takes effect inside a locked section.',
    note='A child Get that misses is two steps (child, then parent) as in the code. The get-or-create services are also driven through a scope decorator that yields after every data-scope call (inert for code that reads under the lock), so a check made outside the locked section shows within a few rounds.')


def run(ctx):
    q = ctx.quick
    for v, must in (('current', False), ('nolock', True)):
        for sc in ('C', 'P'):
            cfg = ('SPECIFICATION Spec\nCONSTANTS\n  Incs = {1, 2, 3}\n  Setters = {4, 5}\n  Getters = {6, 7}\n  IncScope = "%s"\n  Variant = "%s"\n'
                   'INVARIANTS NoLostUpdate OneHolder ChildSetLeavesParent ChildOverlays OneInstance\n%s' % (sc, v, '' if must else 'PROPERTY Terminates\n'))
            if not must:
                ctx.tlc_must_pass('scope', 'DataScope', 'mc.cfg', workers=4, timeout=300, files={'mc.cfg': cfg}, name='DataScope %s on %s' % (v, sc))
            else:
                r = ctx.tlc('scope', 'DataScope', 'mc.cfg', workers=2, timeout=300, files={'mc.cfg': cfg}, name='nolock variant on %s (must violate NoLostUpdate)' % sc)
                ctx.cov['states'] -= r['distinct']; ctx.cov['transitions'] -= r['generated']
                if 'NoLostUpdate' not in r['violated']:
                    raise vlib.Infra('spec self-test failed: nolock variant does not violate NoLostUpdate')
    # regression variant of the get-or-create idiom: the check made with a plain read before the locked section
    cfg = ('SPECIFICATION Spec\nCONSTANTS\n  Incs = {1}\n  Setters = {}\n  Getters = {6, 7}\n  IncScope = "P"\n  Variant = "checkoutside"\n'
           'INVARIANTS OneInstance\n')
    rg = ctx.tlc('scope', 'DataScope', 'mc.cfg', workers=2, timeout=300, files={'mc.cfg': cfg}, name='checkoutside variant (must violate OneInstance)')
    ctx.cov['states'] -= rg['distinct']; ctx.cov['transitions'] -= rg['generated']
    if 'OneInstance' not in rg['violated']:
        raise vlib.Infra('spec self-test failed: the checkoutside variant does not create two instances')
    ctx.cov['exhaustive'] = True
    tf = ctx.tmp('c13.ndjson')
    g = ctx.vh(['datatrace', '--out', tf, '--n', '300' if q else '6000', '--seed', str(ctx.seed)])
    v = vlib.validate_trace(ctx, 'scope', 'Trace_DataScope', 'Trace_DataScope.cfg', tf, what='concurrent data-scope histories',
                            key_of=lambda e: 'trace:%s:%s' % (e.get('ev'), e.get('op', '')), depthfirst=True, timeout=3000)
    ctx.cov['evaluations'] += v['events']
    m = ctx.vh(['getorcreate', '--rounds', '100' if q else '2000'])
    ctx.cov['replay'].append(dict(what='get-or-create services', executed=m['executed'], failures=m['failures_by_key']))
    ctx.cov['evaluations'] += m['executed']
    vlib.report_case_failures(ctx, m, 'get-or-create services')
    ctx.cov['distinct_nontrivial'] = v['histories'] + m['executed']
    ctx.cov['rule'] = 'one history = chain depth, goroutine count, op mix by seed (unique written values); one service round = service x goroutine count'
    with open(tf) as f:
        for i, line in enumerate(f):
            if i in (0, 3):
                ctx.sample(json.loads(line))
    if not v['rejected']:
        def lose(lines):
            for i, l in enumerate(lines):
                if '"ev":"final"' in l and '"k":"cnt"' in l:
                    e = json.loads(l)
                    if e['v'] >= 2000:
                        e['v'] -= 1000
                        lines = list(lines); lines[i] = json.dumps(e)
                        return lines, 'one locked increment lost in the final counter (line %d)' % (i + 1)
            return lines, 'none'
        vlib.selftest_trace_rejects(ctx, 'scope', 'Trace_DataScope', 'Trace_DataScope.cfg', tf, lose, depthfirst=True)
    ctx.assumptions += ['a goroutine holding a data lock does not call the plain API of the same scope (it would block itself)',
                        'values are small integers, "unset" is nil']
