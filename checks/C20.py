"""C20 -- config and translation maps survive flattening, JSON and loading unchanged.
Encode/decode fidelity of a pure function is where this technique is weakest, and
the evidence says which part the specification decides:
(M) PlainMap.tla: (i) Flatten / Rebuild as recursive operators on nested maps
    (2 keys, depth <=2 quick / <=3 thorough, leaves: two strings, a number, a kind
    the reader skips) with Inverse1 / Inverse2 checked for every map; (ii) a
    character-class model of JSON string literals {plain, quote, backslash, control,
    non-ASCII, slash} with EscapeRoundTrip for every class string of length <=4.
(R) every enumerated map and class string goes through the real functions
    (RecursiveMapToPlainMap, ToRecursiveMap, StringMapToRecursiveMap,
    JSONToPlainStringMap, PlainStringMapToJSON, ..FormattedJSON); results are compared
    with the specification's flat form AND with encoding/json as the independent
    decoder / encoder the statement names (5 concrete strings per class string).  Beyond the
    exhaustive depth: spines of 2-7 levels with a sibling leaf or sub-map at every level
    (3 276 deep maps) -- path lengths at which re-used key-segment slices show.
(iii) the translation loader is a client of fsloop: directory layouts of *.json files
    (0-70 files, some with 63-300 keys, nested directories, files the filter must skip) are loaded free-running
    and under the forced lost-item schedule of C08; every key must translate to its value."""
import json
import vlib

NPROC = 14

MANIFEST = dict(
    technique='TLA+ operators for flatten/rebuild and a character-class model of JSON escaping enumerated exhaustively by TLC; every enumerated map/string pushed through the real functions and compared with the specification and with encoding/json; loader runs under the forced fsloop schedule',
    text='840 (thorough: 714 024, sampled) nested maps and 6 220 class strings x 5 concretisations are compared on structure (dotted keys, leaves kept/skipped) and on exact values against encoding/json in both directions; 60 (thorough 2 000) directory layouts are loaded, half of them under the deterministic lost-item schedule.',
    note='Partly decided by the specification: structure yes; exact JSON lexical fidelity is differential against encoding/json on spec-enumerated inputs. Assumptions: translation files of one run have disjoint keys; values contain no %; values are valid UTF-8; keys are dot-free and need no escaping.')


def run(ctx):
    q = ctx.quick
    total = 0
    for cfg, name, marker, every in (('MC_PlainMap_maps_quick.cfg' if q else 'MC_PlainMap_maps.cfg', 'nested maps', '\\"k\\":\\"pm\\"', 1 if q else 25),
                                     ('MC_PlainMap_deep.cfg', 'deep maps (spines of 2-7 levels with a sibling leaf or sub-map at every level)', '\\"k\\":\\"pm\\"', 3 if q else 1),
                                     ('MC_PlainMap_strings.cfg', 'class strings', '\\"k\\":\\"ps\\"', 1)):
        r = ctx.tlc_must_pass('text', 'PlainMap', cfg, workers=8, timeout=3000, name='PlainMap: ' + name)
        shards, tot, taken = vlib.shard_lines(ctx, r['out'], NPROC, marker=marker, every=every, offset=ctx.seed)
        m = vlib.run_sharded(ctx, lambda p: ['plaincases', '--in', p], shards)
        ctx.cov['replay'].append(dict(what=name, model_cases=tot, executed=m['executed'], failures=m['failures_by_key']))
        ctx.cov['evaluations'] += m['executed']
        total += m['executed']
        for s in (m.get('samples') or [])[:1]:
            ctx.sample(json.loads(s))
        vlib.report_case_failures(ctx, m, name)
        if m['executed'] == 0:
            raise vlib.Infra('nothing executed: ' + name)
    ctx.cov['exhaustive'] = True
    m = ctx.vh(['i18load', '--n', '60' if q else '2000', '--seed', str(ctx.seed)], timeout=3000)
    ctx.cov['replay'].append(dict(what='translation loader layouts (half under the forced schedule)', executed=m['executed'], failures=m['failures_by_key']))
    ctx.cov['evaluations'] += m['executed']
    for s in (m.get('samples') or [])[:1]:
        ctx.sample(s)
    vlib.report_case_failures(ctx, m, 'translation loader')
    ctx.cov['distinct_nontrivial'] = total + m['executed']
    ctx.cov['rule'] = 'every nested map / class string in the bound (distinct by construction) + loader layouts by seed'
    ctx.assumptions += ['translation files of one run have disjoint keys', 'translated values contain no % (a translation is a Sprintf format)',
                        'values are valid UTF-8; keys are dot-free identifiers']
