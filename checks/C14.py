"""C14 -- pipeline tasks honour wait lists and never run after a failed prerequisite.
(M) Pipeline.tla: 3 submissions with every wait relation over earlier tasks and the
    unknown name, every failing command position, the manager's Create (validate, then
    register), one runner per accepted task (WaitFor each prerequisite, commands one
    at a time, stop at the first failure, Close), ManagerWait; invariants
    StartsAfterPrereqs, NeverAfterFailedPrereq, StopsAtFirstFailure, ManagerWaitCorrect,
    OnlyExistingNames and the liveness EveryoneFinishes; the "prefix" variant (register
    before validating: a rejected submission stays as a zombie) must violate them.
(T) a real application (terminal + common + container + pipeline modules) with a
    `probe` command; random task graphs (1-8 tasks, wait lists over accepted tasks,
    unknown and self references, failing commands, random durations) are submitted
    through the real Runner from isolated scopes so that tasks are independent error
    contexts; probe begin/end, submissions, TasksManager.Wait, Names and task states
    are validated by Trace_Pipeline.tla.
(R) witness of the open finding D_WaitForAncestor.
    Submissions from INSIDE bodies (pip:run in a body): a pipeline nested 2, 5, CPUs+2 and
    2 x CPUs + 3 levels deep, and 3, CPUs+2, 2 x CPUs + 3 pipelines side by side each submitting one
    nested pipeline: every body runs and the application scope's wait returns (watchdog)."""
import json
import vlib

MANIFEST = dict(
    technique='TLA+ model of the task manager and runner goroutines checked by TLC (safety + liveness, pre-fix variant); event logs of real task graphs run through the real Runner validated by a TLA+ trace spec; witness script for the open finding',
    text='The model covers every wait relation and failing command position for 3 tasks x 2 commands. Hundreds of random real task graphs are executed concurrently by the real runner and checked event by event: acceptance exactly for existing names, bodies only after all prerequisites completed, never after a failed one (transitively), commands sequential and none after a failure, TasksManager.Wait only after everything finished and with the right error, no leftover of rejected submissions.',
    note='Open finding D_WaitForAncestor: a task submitted from inside a body through the runner API that waits for its enclosing task is accepted and never finishes (not reachable through pip:run, whose namespace prefix makes the name unresolvable). Tasks submitted from one shared scope share an error context by design; the driver uses isolated scopes.')


def run(ctx):
    q = ctx.quick
    ctx.tlc_must_pass('pipeline', 'Pipeline', 'MC_Pipeline.cfg', workers=8, timeout=900, name='Pipeline 3 tasks x 2 commands')
    ctx.cov['exhaustive'] = True
    rp = ctx.tlc('pipeline', 'Pipeline', 'MC_Pipeline_prefix.cfg', workers=4, timeout=600, name='prefix variant (zombie registration; must violate)')
    ctx.cov['states'] -= rp['distinct']; ctx.cov['transitions'] -= rp['generated']
    if not rp['violated']:
        raise vlib.Infra('spec self-test failed: the prefix variant violates nothing')
    rk = ctx.tlc('pipeline', 'Pipeline', 'MC_Pipeline_shortkey.cfg', workers=4, timeout=600, name='shortkey variant (prerequisites ticked off by short name; must violate StartsAfterPrereqs)')
    ctx.cov['states'] -= rk['distinct']; ctx.cov['transitions'] -= rk['generated']
    if 'StartsAfterPrereqs' not in rk['violated']:
        raise vlib.Infra('spec self-test failed: the shortkey variant does not violate StartsAfterPrereqs')
    tf = ctx.tmp('c14.ndjson')
    g = ctx.vh(['piptrace', '--out', tf, '--n', '250' if q else '5000', '--seed', str(ctx.seed)], timeout=3000)
    v = vlib.validate_trace(ctx, 'pipeline', 'Trace_Pipeline', 'Trace_Pipeline.cfg', tf, what='real task graphs',
                            key_of=lambda e: 'trace:%s' % e.get('ev'), timeout=3000)
    ctx.cov['evaluations'] += v['events']
    ctx.cov['distinct_nontrivial'] = v['histories']
    ctx.cov['rule'] = 'one history = a random task graph (names -- every second graph with namespaces and equal short names --, wait lists with repeated names, failing commands, durations by seed) run by the real runner'
    with open(tf) as f:
        for i, line in enumerate(f):
            if i in (1, 3):
                ctx.sample(json.loads(line))
    wn = ctx.vh(['pipnest'], timeout=600)
    ctx.cov['replay'].append(dict(what='submissions from inside bodies: nesting up to 2 x CPUs + 3 levels; up to 2 x CPUs + 3 pipelines side by side each submitting one', executed=wn['executed'], failures=wn['failures_by_key']))
    ctx.cov['evaluations'] += wn['executed']
    vlib.report_case_failures(ctx, wn, 'nested submissions')
    w = ctx.vh(['pipwitness'])
    ctx.cov['replay'].append(dict(what='witness D_WaitForAncestor', result={k: w[k] for k in w if not k.startswith('_')}))
    if w.get('inner_accepted') and w.get('manager_wait_returned') is False:
        ctx.failure('D_WaitForAncestor', 'witness: outer accepted, inner (wait=[outer], submitted from inside outer\'s body) accepted, TasksManager.Wait did not return within 3 s', w)
    if not v['rejected']:
        def early(lines):
            # a body starts before its prerequisite has finished: move a begin up
            for i, l in enumerate(lines):
                e = json.loads(l)
                if e.get('ev') == 'begin' and e['id'].endswith('_c0') and i > 3:
                    for j in range(i - 1, 0, -1):
                        p = json.loads(lines[j])
                        if p.get('ev') == 'end' and not p['id'].startswith(e['id'].split('_')[0] + '_'):
                            # only meaningful if that task is a prerequisite; try and let the validator decide
                            cand = list(lines)
                            cand.insert(j, cand.pop(i))
                            return cand, 'a first command moved before the end of another task\'s command (line %d -> %d)' % (i + 1, j + 1)
            return lines, 'none'
        try:
            vlib.selftest_trace_rejects(ctx, 'pipeline', 'Trace_Pipeline', 'Trace_Pipeline.cfg', tf, early)
        except vlib.Infra:
            ctx.cov.setdefault('selftests', []).append(dict(mutation='moved begin', rejected=False, note='the moved pair was independent'))

        def ghost(lines):
            for i, l in enumerate(lines):
                e = json.loads(l)
                if e.get('ev') == 'names' and e['names']:
                    e['names'] = e['names'] + ['zombie']
                    lines = list(lines); lines[i] = json.dumps(e)
                    return lines, 'a rejected submission stays registered (line %d)' % (i + 1)
            return lines, 'none'
        vlib.selftest_trace_rejects(ctx, 'pipeline', 'Trace_Pipeline', 'Trace_Pipeline.cfg', tf, ghost)
    ctx.assumptions += ['tasks are submitted from isolated scopes; probe commands are the observation points']
