"""C08 -- the concurrent tree walk visits every selected node exactly once and then stops.
(M) JobSync.tla: the quota Pool (Add reserves min(n, free), Done, Wait) and the
    Lifecycle (strict errors kill, steps) -- every sequence of 5 calls replayed on the
    real types; PoolProof.tla proves the Pool invariant with TLAPS for ANY quota and any
    number of calls (24 obligations).  FsLoop.tla: one action per atomic step of producers, the two bounded channels,
    polling consumers and the goroutine announcing completion; TLC checks
    AtMostOnce, NoLoss, MaxConcurrency, WaitAfterLastCallback, ErrorRecorded and
    (under fairness) termination for several tree shapes x 1-3 consumers x
    capacity 1-2 x an optional failing callback; the "prefix" variant (statement
    order before the fix) must violate NoLoss.
(R) the counterexample of the prefix variant is the script forced on the REAL
    goroutines through the verif hooks: every consumer is held between its two
    reads while the queues are empty, the producers (held at a gated ReadDir) then
    run to completion, close is announced, the consumers continue.  On correct
    code every node still gets its callback; with the old order they are lost.
(T) free-running real loops over random trees (filters, failing callbacks, 0..NumCPU
    consumers/producers, a 1500-file directory > channel capacity, GOMAXPROCS
    1/2/4/N, schedule noise at the hook sites) are validated by Trace_FsLoop.tla."""
import json, os, shutil, subprocess, tempfile
import vlib


def tlaps(ctx, text, name):
    """run tlapm on a scratch copy of PoolProof.tla; returns True iff every obligation is proved"""
    d = tempfile.mkdtemp(prefix='tlaps_', dir=ctx.scratch)
    with open(os.path.join(d, 'PoolProof.tla'), 'w') as f:
        f.write(text)
    p = subprocess.run(['timeout', '600', 'tlapm', '--threads', '8', 'PoolProof.tla'], cwd=d, stdout=subprocess.PIPE, stderr=subprocess.STDOUT, text=True)
    out = p.stdout
    shutil.rmtree(d, ignore_errors=True)
    if 'obligations proved' in out and 'failed' not in out:
        return True
    if 'failed' in out or 'obligation' in out:
        return False
    raise vlib.Infra('tlapm run "%s" gave no verdict: %s' % (name, out[-1500:]))

MANIFEST = dict(
    technique='TLA+ model of the fsloop producer/consumer/closer handshake checked by TLC (safety + liveness, regression variant); its counterexample schedule forced on the real goroutines through build-tag hooks and a gated source; free-running loops validated by a TLA+ trace spec',
    text='Exhaustive over 6 tree shapes x 1-3 consumers x channel capacity 1-2 (x failing callback) at the granularity of single reads of the step and of the queue lengths; the lost-item schedule that 320 000 stress runs did not hit is 13 states from Init in the model and is replayed deterministically on the real code (42 scripted runs). Hundreds of free-running loops are checked event by event (exactly once, concurrency bound, Wait after the last callback, errors recorded).',
    note='Trusted: the two hook sites are where the model says (a dead hook makes the script report infra failure, exit 2, never a verdict). Free-running traces are validated against the property layer only (hook events of lock-free steps are not totally ordered).')

CONFIGS = [(t, c, cap, f) for t in (1, 2, 3, 4, 5, 6) for c in (1, 2) for cap in (1, 2) for f in (0,)] + \
          [(3, 2, 2, 2), (3, 2, 1, 1), (2, 3, 2, 0), (4, 3, 1, 3)]


def cfg(t, c, cap, f, variant='current', props=True, faillist=99):
    return ('SPECIFICATION Spec\nCONSTANTS\n  NCons = %d\n  Cap = %d\n  Variant = "%s"\n  TreeId = %d\n  FailNode = %d\n  FailList = %d\n'
            'INVARIANTS AtMostOnce NoLoss MaxConcurrency WaitAfterLastCallback ErrorRecorded ListingErrorRecorded\n%s' % (
                c, cap, variant, t, f, faillist, 'PROPERTY Terminates\n' if props else ''))


def run(ctx):
    q = ctx.quick
    configs = CONFIGS if not q else [x for x in CONFIGS if x[1] <= 2 and x[0] in (2, 3, 4, 6)][:8] + [(3, 2, 2, 2)]
    for (t, c, cap, f) in configs:
        name = 'FsLoop tree=%d consumers=%d cap=%d fail=%d' % (t, c, cap, f)
        ctx.tlc_must_pass('loop', 'FsLoop', 'mc.cfg', workers=4, timeout=900, files={'mc.cfg': cfg(t, c, cap, f)}, name=name)
    for (t, c, cap, fl) in ((3, 2, 2, 1), (4, 2, 1, 2), (4, 1, 2, 1)):
        ctx.tlc_must_pass('loop', 'FsLoop', 'mc.cfg', workers=4, timeout=900, files={'mc.cfg': cfg(t, c, cap, 0, faillist=fl)},
                          name='FsLoop tree=%d consumers=%d cap=%d failing listing of node %d' % (t, c, cap, fl))
    ctx.cov['exhaustive'] = True
    rp = ctx.tlc('loop', 'FsLoop', 'mc.cfg', workers=2, timeout=300, files={'mc.cfg': cfg(3, 2, 2, 0, 'prefix', False)},
                 name='prefix variant (must violate NoLoss)')
    ctx.cov['states'] -= rp['distinct']; ctx.cov['transitions'] -= rp['generated']
    if 'NoLoss' not in rp['violated']:
        raise vlib.Infra('spec self-test failed: the prefix variant does not violate NoLoss')
    # ---- the quota pool and the lifecycle the loop is built on (JobSync.tla): every call sequence, replayed
    for strict in ('TRUE', 'FALSE'):
        rj = ctx.tlc_must_pass('loop', 'JobSync', 'MC_JobSync_%s.cfg' % strict, workers=4, timeout=900, name='JobSync all call sequences <=5 (strict=%s)' % strict)
        shards, tot, taken = vlib.shard_lines(ctx, rj['out'], 14, marker='\\"k\\":\\"jobsync\\"', every=4 if q else 1, offset=ctx.seed)
        mj = vlib.run_sharded(ctx, lambda p: ['jobsync', '--in', p], shards)
        ctx.cov['replay'].append(dict(what='JobSync call sequences strict=%s' % strict, model_cases=tot, executed=mj['executed'], failures=mj['failures_by_key']))
        ctx.cov['evaluations'] += mj['executed']
        vlib.report_case_failures(ctx, mj, 'Pool / Lifecycle call sequences')
    # ---- the Pool for ANY quota and any number of calls: a TLAPS proof (PoolProof.tla); self-test: an Add without the cap
    proof = open(os.path.join(vlib.SPEC, 'loop', 'PoolProof.tla')).read()
    if not tlaps(ctx, proof, 'PoolProof'):
        raise vlib.Infra('the TLAPS proof of PoolProof.tla no longer goes through')
    uncapped = proof.replace("counter' = counter + Min(n, Max - counter) /\\ last' = Min(n, Max - counter)", "counter' = counter + n /\\ last' = n")
    if uncapped == proof or tlaps(ctx, uncapped, 'PoolProof without the cap'):
        raise vlib.Infra('spec self-test failed: the proof goes through for an Add that ignores the quota')
    ctx.cov['replay'].append(dict(what='TLAPS: Pool invariant (0 <= reserved <= Max, Add bounded) proved for any Max and any number of calls; the proof fails for an Add without the cap'))
    # ---- (R) the counterexample schedule on the real goroutines
    m = ctx.vh(['loopscript'])
    ctx.cov['replay'].append(dict(what='property-directed schedule on the real loop', executed=m['executed'], failures=m['failures_by_key']))
    ctx.cov['evaluations'] += m['executed']
    for s in (m.get('samples') or [])[:1]:
        ctx.sample(s)
    vlib.report_case_failures(ctx, m, 'scripted schedule')
    # ---- (T) free-running loops
    tf = ctx.tmp('c08.ndjson')
    n = 150 if q else 2500
    g = ctx.vh(['looptrace', '--out', tf, '--n', str(n), '--seed', str(ctx.seed), '--wide', '1500', '--maxnodes', '60' if q else '300'])
    v = vlib.validate_trace(ctx, 'loop', 'Trace_FsLoop', 'Trace_FsLoop.cfg', tf, what='free-running loops',
                            key_of=lambda e: 'trace:' + str(e.get('ev')), timeout=3000)
    ctx.cov['evaluations'] += v['events']
    ctx.cov['distinct_nontrivial'] = m['executed'] + v['histories']
    ctx.cov['rule'] = 'scripted runs (shape x consumers x producers) + free runs (random tree, filters, limits, GOMAXPROCS); each distinct by construction/seed'
    with open(tf) as f:
        ctx.sample(json.loads(f.readline()))
    if not v['rejected']:
        def drop(lines):
            for i, l in enumerate(lines):
                if '"ev":"begin"' in l and i > 5:
                    return lines[:i] + lines[i + 1:], 'remove one begin event (line %d)' % (i + 1)
            return lines, 'none'
        vlib.selftest_trace_rejects(ctx, 'loop', 'Trace_FsLoop', 'Trace_FsLoop.cfg', tf, drop)

        def dup(lines):
            for i, l in enumerate(lines):
                if '"ev":"end"' in l and i > 5:
                    j = i
                    while j > 0 and '"ev":"begin"' not in lines[j]:
                        j -= 1
                    return lines[:i + 1] + [lines[j], lines[i]] + lines[i + 1:], 'repeat one callback (line %d)' % (i + 1)
            return lines, 'none'
        vlib.selftest_trace_rejects(ctx, 'loop', 'Trace_FsLoop', 'Trace_FsLoop.cfg', tf, dup)
    ctx.assumptions += ['channel capacity 1000 is larger than every scripted tree (the producers can finish while the consumers are held)',
                        'the loop lifetime limit (2 min) is never reached by the driven trees']
