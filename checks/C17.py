"""C17 -- command-line splitting is total, byte-preserving and reversible for quoted input.
(M) ArgSplit.tla: the tokenizer as a byte-at-a-time machine (modes plain / quote /
    heredoc marker / heredoc body; flags escaped, separated); for EVERY input up to 5
    (thorough: 6) symbols over 10 significant byte classes and for the prefix a=<<
    followed by every input up to 6 symbols: Total, BytePreserving, StopsAtNewline,
    PlainWordsUnchanged, HeredocClause; ASSUME Reversible: every list of <=2 arguments
    of <=2 bytes over {letter, blank, tab, newline, quote, '=', '<', non-ASCII},
    rendered with the reference quoting function and split again, comes back, the
    command ends at its newline and the next byte is left unread.
    ArgInject.tla: named / positional / "--" mapping for every list of <=2 arguments, and
    for long lists (<= 13 arguments, each positional or named: $10, $11, ... exist)
    over {-,=,a,b}^<=3.
(R) every enumerated input is fed to the real ReadArguments through a reader that
    knows how many bytes were taken: arguments (as bytes), eof/err status and the
    unread remainder are compared; InjectArgs results are compared on a data scope.
(T) random long inputs (multi-byte UTF-8, 0xFF, quotes, heredoc introducers) for
    totality; pairs of rendered commands read back-to-back from ONE reader.
    The terminal's entry point that reads ONE command from a caller's reader
    (termexec.RunCommandFromReader) is driven with scripts of 2-3 commands (quoted, with a
    heredoc argument, longer than 4096 bytes) through readers without ReadByte: every command
    runs, in order, and the reader is left at the next command."""
import json
import vlib

NPROC = 14

MANIFEST = dict(
    technique='TLA+ transcription of the tokenizer state machine and of the argument mapping, exhaustively enumerated by TLC (invariants + reversibility assumption); every enumerated input replayed on the real function ("one implementation test per input"); random long inputs for totality and round trip',
    text='111 111 inputs (all strings of length <=5 over 10 byte classes; 1 111 111 in the thorough tier) and 55 987 heredoc inputs are each compared with the real ReadArguments on arguments, status and unread bytes; 7 311 argument lists with InjectArgs. The two defects the model exposed at once (a leading backslash indexes args[-1]; bytes >= 0x80 are re-encoded as two bytes) were repaired.',
    note='A function-level property: the specification is the reference tokenizer, the binding is differential. Inside quotes a doubled backslash cannot express a literal backslash (observation, the statement is silent); rendered arguments therefore exclude backslashes.')


def run(ctx):
    q = ctx.quick
    total = 0
    for mod, cfg, name, every in (('ArgSplit', 'MC_ArgSplit.cfg' if q else 'MC_ArgSplit_thorough.cfg', 'all inputs', 1 if q else 3),
                                  ('ArgSplit', 'MC_ArgSplit_heredoc.cfg', 'heredoc inputs', 1),
                                  ('ArgInject', 'MC_ArgInject.cfg', 'argument mapping', 1),
                                  ('ArgInject', 'MC_ArgInject_long.cfg', 'argument mapping, long lists', 1)):
        r = ctx.tlc_must_pass('text', mod, cfg, workers=8, timeout=3000, name='%s: %s' % (mod, name))
        marker = '\\"k\\":\\"inject\\"' if mod == 'ArgInject' else '\\"k\\":\\"arg\\"'
        shards, tot, taken = vlib.shard_lines(ctx, r['out'], NPROC, marker=marker, every=every, offset=ctx.seed)
        m = vlib.run_sharded(ctx, lambda p: ['argcases', '--in', p], shards)
        ctx.cov['replay'].append(dict(what=name, model_cases=tot, executed=m['executed'], failures=m['failures_by_key']))
        ctx.cov['evaluations'] += m['executed']
        total += m['executed']
        for s in (m.get('samples') or [])[:1]:
            ctx.sample(json.loads(s))
        vlib.report_case_failures(ctx, m, name)
        if m['executed'] == 0:
            raise vlib.Infra('nothing executed for ' + name)
    # the terminal's own entry point for ONE command from a caller's reader
    we = ctx.vh(['argentry'], timeout=600)
    ctx.cov['replay'].append(dict(what='termexec.RunCommandFromReader: scripts of 2-3 commands through readers without ReadByte (all at once, bytewise) and a strings.Reader', executed=we['executed'], failures=we['failures_by_key']))
    ctx.cov['evaluations'] += we['executed']
    vlib.report_case_failures(ctx, we, 'entry point')
    ctx.cov['exhaustive'] = True
    m = ctx.vh(['argrandom', '--n', '20000' if q else '400000', '--seed', str(ctx.seed)])
    ctx.cov['replay'].append(dict(what='random inputs and rendered command pairs', executed=m['executed'], failures=m['failures_by_key']))
    ctx.cov['evaluations'] += m['executed']
    vlib.report_case_failures(ctx, m, 'random inputs')
    ctx.cov['distinct_nontrivial'] = total
    ctx.cov['rule'] = 'every string over the byte-class alphabet up to the bound (distinct by construction) + random inputs by seed'
    ctx.assumptions += ['byte classes: blank, tab, newline, quote, backslash, =, <, two letters, 0xFF; other bytes behave like letters or like 0xFF']
