"""C04 -- streams and cross-filespace copies are byte-exact and replace old content.
(M) Stream.tla: writer/reader handles on one file (Replaces, ReadsBack) for every
    pre-existing content x chunk sequence x read-buffer pattern; the "append"
    variant (behaviour of the writers before the fix) must violate Replaces.
    CopyHelper.tla: the copy helpers as node-by-node transfers in arbitrary walk
    order with one injected failure (OkMeansComplete, NoFaultMeansOk,
    KeepsUnrelated); the "swallow" variant must violate OkMeansComplete.
(R) every Stream scenario runs on mem, disk, AES-GCM-over-mem, tagged-cipher-over-
    disk and cache stores through real handles; every CopyHelper scenario (source
    tree x destination pre-state x helper) runs on rotating store pairs: once
    without fault, then once per primitive call of either side (Reader, Read,
    Writer, Write, Close, MkdirAll, ReadDir, Filespace ...) with that call failing;
    verdict from the real error result vs the real destination tree.
    The copy helpers are also called by 8 goroutines at once on distinct files (after a
    few sequential copies): every destination must be byte-exact (the helpers share
    nothing that the statement mentions; the statement does not quantify over schedules,
    so this is free-running, not model-driven)."""
import os, json
import vlib

NPROC = 14

MANIFEST = dict(
    technique='TLA+ models of stream handles and of the copy helpers with single fault injection, checked by TLC (incl. regression variants); every TLC scenario executed on real stores through a fault-injecting Filespace decorator',
    text='All 640 stream scenarios of the model (4 pre-existing states x <=3 chunks of {empty, short, 70 KB} x 4 buffer patterns) run on 5 real stores; all 900 copy scenarios (every well-formed source tree of <=3 nodes over 2 names/depth 2 x 3 destination pre-states x 4 helpers) run on rotating pairs of the 25 store pairs with EVERY single fault position of every primitive call enumerated on the real call sequence. The verdict is the real result versus the real destination bytes.',
    note='Faults are injected at the Filespace API (a failed Close leaves a truncated file); partial writes of the host OS and faults inside io.Copy below the API are not injectable. Quick tier samples copy scenarios by seed.')


def run(ctx):
    q = ctx.quick
    dtmp = ctx.tmp('d')
    os.makedirs(dtmp)
    # ---------------- streams
    r = ctx.tlc_must_pass('stream', 'Stream', 'MC_Stream.cfg', workers=2, timeout=600, name='Stream handles')
    ra = ctx.tlc('stream', 'Stream', 'MC_Stream_append.cfg', workers=1, timeout=300, name='append variant (must violate Replaces)')
    ctx.cov['states'] -= ra['distinct']; ctx.cov['transitions'] -= ra['generated']
    if 'Replaces' not in ra['violated']:
        raise vlib.Infra('spec self-test failed: the append variant does not violate Replaces')
    shards, total, taken = vlib.shard_lines(ctx, r['out'], NPROC, marker='\\"k\\":\\"stream\\"', every=1, offset=ctx.seed)
    m = vlib.run_sharded(ctx, lambda p: ['streams', '--in', p, '--tmp', dtmp], shards)
    ctx.cov['replay'].append(dict(what='stream scenarios', model_scenarios=total, executed=m['executed'], failures=m['failures_by_key']))
    ctx.cov['evaluations'] += m['executed']
    ctx.cov['distinct_nontrivial'] += m['executed']
    for s in m['samples'][:1]:
        ctx.sample(json.loads(s))
    vlib.report_case_failures(ctx, m, 'stream scenarios')
    # ---------------- copy helpers with fault injection
    r2 = ctx.tlc_must_pass('stream', 'CopyHelper', 'MC_CopyHelper.cfg', workers=4, timeout=900, name='CopyHelper with one fault')
    rs = ctx.tlc('stream', 'CopyHelper', 'MC_CopyHelper_swallow.cfg', workers=2, timeout=300, name='swallow variant (must violate OkMeansComplete)')
    ctx.cov['states'] -= rs['distinct']; ctx.cov['transitions'] -= rs['generated']
    if 'OkMeansComplete' not in rs['violated']:
        raise vlib.Infra('spec self-test failed: the swallow variant does not violate OkMeansComplete')
    shards, total, taken = vlib.shard_lines(ctx, r2['out'], NPROC, marker='\\"k\\":\\"copy\\"', every=1, offset=ctx.seed)
    rounds = 1 if q else 4   # thorough: rotate the store pairs 4 times
    for rnd in range(rounds):
        pairs = []
        kinds = ['mem', 'disk', 'crypt', 'cryptx', 'cache']
        allp = ['%s>%s' % (a, b) for a in kinds for b in kinds]
        off = (ctx.seed + rnd * 7) % len(allp)
        rot = allp[off:] + allp[:off]
        m = vlib.run_sharded(ctx, lambda p: ['copies', '--in', p, '--tmp', dtmp, '--pairs', ','.join(rot)], shards)
        ctx.cov['replay'].append(dict(what='copy scenarios round %d' % rnd, model_scenarios=total, executed=m['executed'],
                                      runs_incl_fault_positions=m.get('calls', 0), failures=m['failures_by_key']))
        ctx.cov['evaluations'] += m.get('calls', 0)
        ctx.cov['distinct_nontrivial'] += m['executed']
        for s in m['samples'][:1]:
            ctx.sample(json.loads(s))
        vlib.report_case_failures(ctx, m, 'copy scenarios')
        if m['executed'] == 0:
            raise vlib.Infra('no copy scenario executed')
    # ---------------- the copy helpers used by several goroutines at once on distinct files
    mp = ctx.vh(['copypar', '--rounds', '40' if q else '400'], timeout=3000)
    ctx.cov['replay'].append(dict(what='parallel copies of distinct files (mem>mem, mem>encrypted)', executed=mp['executed'], failures=mp['failures_by_key']))
    ctx.cov['evaluations'] += mp['executed']
    vlib.report_case_failures(ctx, mp, 'parallel copies')
    ctx.cov['exhaustive'] = not q
    ctx.cov['traces_validated_against_impl'] = 0
    ctx.cov['rule'] = ('scenarios enumerated by TLC (quick: every 2nd stream / 3rd copy scenario by seed); copy scenarios are expanded by the harness '
                       'to one run per primitive call of either side failing; distinct by construction')
    ctx.assumptions += ['fault = the k-th call of one method on one side returns an error; a failed Close leaves a truncated marker in the file',
                        'contents: empty, 5 bytes, 70 001 bytes; pre-existing: absent, empty, 3 bytes, ~117 KB']
