"""C10 -- dependency container: lazy singletons, fixed precedence, safe failure.
(M) DI.tla: the provider as an explicit resolution stack machine (four tables,
    blocked flag, cycle-detection stack, nested Gets made by factories whose
    behaviour is fixed by a dependency graph with required/optional edges and a
    failing subset); all graphs with <=1 edge per name over 2 names x every failing
    subset x every sequence of <=3 definitions and <=2 Gets; invariants
    StackEmptyWhenQuiet (failure isolation), Precedence (explicit beats default in
    every order), NoRecursion (cycles end in an error), OnceBuilt, LazyFactories; the
    "prefix" variant (code before the fix) must violate Precedence and
    StackEmptyWhenQuiet.
(R) every API history TLC completes (286 000) is replayed on a real Provider with
    generated factories (counting, resolving their edges through the provider they
    are given, failing as told): result of every call, origin tag of every instance,
    singleton identity, factory invocation counters; Gets alternate between Get,
    InjectTo with a required field and InjectTo with an optional field.  Struct
    injection (InjectBegin / one Get per field / abort on a required failure / extra
    injectors last) is explored for <=2 definitions and replayed with structs built by
    reflection; the extra injectors (a multi-injector of a map injector and a data-scope
    injector, each with a required and an optional key) in six combinations of keys: which fields
    are set, with which instance, the result, and that nothing after an aborting
    field is touched (what a FAILED InjectTo leaves in the fields resolved before the
    failure is not fixed by the statement: the instance or nothing, never another one).
    A third bound gives ONE factory two dependencies (every pair of required / optional
    edges over 3 names with explicit factories, every failing subset, every request): a
    tolerated failure followed by a sibling request, and cycles through the second edge.
    A fourth gives a CHAIN of 20 names (each factory requests the next; all edges required or
    all optional; the last factory may fail) and every pair of requests along it.
    Thorough/quick: simulated deep behaviours over 3 names (cycles of length 3,
    6 definitions, 6 Gets)."""
import json
import vlib

NPROC = 14

MANIFEST = dict(
    technique='TLA+ stack-machine model of the provider checked by TLC (with the pre-fix variant); every completed API history of the model replayed on the real Provider with generated factories; simulated deep behaviours over 3 names',
    text='Exhaustive for 2 names: 100 factory-behaviour configurations x all definition/Get sequences in the bound (303 000 states, 286 000 histories, each executed on the real code comparing every result, instance origin, identity and factory invocation counts). Beyond the bound, random behaviours of the same specification over 3 names (incl. 3-cycles) are replayed the same way.',
    note='Factories are harness closures. InjectTo is exercised through one-field structs (required and optional tag) and, in a smaller bound and in the simulated behaviours, through structs of 2-3 tagged fields followed by extra injectors (a multi-injector holding a map injector); the extra injectors are a multi-injector holding a map injector and a data-scope injector, each with a required and an optional key, in six combinations of present / absent keys.')


def run(ctx):
    q = ctx.quick
    r = ctx.tlc_must_pass('di', 'DI', 'MC_DI_emit.cfg', workers=8, timeout=1800, name='DI exhaustive 2 names (emits histories)')
    ctx.cov['exhaustive'] = True
    for cfg, inv in (('MC_DI_prefix.cfg', 'Precedence'), ('MC_DI_prefix_stack.cfg', 'StackEmptyWhenQuiet')):
        rp = ctx.tlc('di', 'DI', cfg, workers=4, timeout=600, name='prefix variant (must violate %s)' % inv)
        ctx.cov['states'] -= rp['distinct']; ctx.cov['transitions'] -= rp['generated']
        if inv not in rp['violated']:
            raise vlib.Infra('spec self-test failed: the prefix variant does not violate %s' % inv)
    shards, total, taken = vlib.shard_lines(ctx, r['out'], NPROC, marker='\\"k\\":\\"di\\"', every=3 if q else 1, offset=ctx.seed)
    m = vlib.run_sharded(ctx, lambda p: ['dicases', '--in', p], shards)
    ctx.cov['replay'].append(dict(what='API histories of the exhaustive model', model_histories=total, executed=m['executed'], failures=m['failures_by_key']))
    vlib.report_case_failures(ctx, m, 'API histories')
    # struct injection (several tagged fields + extra injectors): every history of the smaller bound that contains an InjectTo
    ri = ctx.tlc_must_pass('di', 'DI', 'MC_DI_inj.cfg', workers=8, timeout=1800, name='DI with struct injection (2 names, <=2 definitions, <=2 requests of which any may be an InjectTo with 2 fields)')
    shards_i, total_i, taken_i = vlib.shard_lines(ctx, ri['out'], NPROC, marker='\\"call\\":\\"inject\\"', every=5 if q else 1, offset=ctx.seed)
    mi = vlib.run_sharded(ctx, lambda p: ['dicases', '--in', p], shards_i)
    ctx.cov['replay'].append(dict(what='API histories with struct injection (each run with and without the extra injector\'s key)', model_histories=total_i, executed=mi['executed'], failures=mi['failures_by_key']))
    vlib.report_case_failures(ctx, mi, 'struct injection histories')
    ctx.cov['evaluations'] += mi['executed']
    ctx.cov['distinct_nontrivial'] += mi['executed']
    # factories that request TWO dependencies (a tolerated failure followed by a sibling request, cycles through the second edge)
    rw = ctx.tlc_must_pass('di', 'DI', 'MC_DI_wide.cfg', workers=8, timeout=1800, name='DI with a two-dependency factory (3 names with explicit factories, every graph, failing subset and request)')
    shards_w, total_w, taken_w = vlib.shard_lines(ctx, rw['out'], NPROC, marker='\\"k\\":\\"di\\"', every=2 if q else 1, offset=ctx.seed)
    mw = vlib.run_sharded(ctx, lambda p: ['dicases', '--in', p], shards_w)
    ctx.cov['replay'].append(dict(what='API histories with a two-dependency factory', model_histories=total_w, executed=mw['executed'], failures=mw['failures_by_key']))
    vlib.report_case_failures(ctx, mw, 'two-dependency factory histories')
    ctx.cov['evaluations'] += mw['executed']
    ctx.cov['distinct_nontrivial'] += mw['executed']
    # a LONG chain: 20 names, the factory of each requests the next (all required / all optional), the last may fail
    rc = ctx.tlc_must_pass('di', 'DI', 'MC_DI_chain.cfg', workers=8, timeout=1800, name='DI with a chain of 20 names (every pair of requests)')
    shards_c, total_c, taken_c = vlib.shard_lines(ctx, rc['out'], NPROC, marker='\\"k\\":\\"di\\"')
    mc = vlib.run_sharded(ctx, lambda p: ['dicases', '--in', p], shards_c)
    ctx.cov['replay'].append(dict(what='API histories over a chain of 20 names', model_histories=total_c, executed=mc['executed'], failures=mc['failures_by_key']))
    vlib.report_case_failures(ctx, mc, 'chain histories')
    ctx.cov['evaluations'] += mc['executed']
    ctx.cov['distinct_nontrivial'] += mc['executed']
    rs = ctx.tlc('di', 'DI', 'MC_DI_sim.cfg', workers=1, timeout=900, simulate='num=%d' % (300 if q else 6000),
                 extra=['-depth', '60', '-seed', str(ctx.seed)], name='DI simulated behaviours, 3 names')
    if rs['error'] and 'timeout' not in str(rs['error']):
        raise vlib.Infra('simulation failed: %s' % rs['error'])
    if rs['violated']:
        raise vlib.Infra('the specification itself violates %s in simulation' % rs['violated'])
    shards2, total2, taken2 = vlib.shard_lines(ctx, rs['out'], NPROC, marker='\\"k\\":\\"di\\"')
    m2 = vlib.run_sharded(ctx, lambda p: ['dicases', '--in', p], shards2)
    ctx.cov['replay'].append(dict(what='simulated behaviours over 3 names', model_histories=total2, executed=m2['executed'], failures=m2['failures_by_key']))
    vlib.report_case_failures(ctx, m2, 'simulated histories (3 names)')
    ctx.cov['evaluations'] += m['executed'] + m2['executed']
    ctx.cov['distinct_nontrivial'] = m['executed'] + m2['executed']
    ctx.cov['rule'] = 'one case = one completed API history of the model (prefix-closed: every prefix is a case too); distinct by construction'
    for s in (m.get('samples') or [])[:1] + (m2.get('samples') or [])[:1]:
        ctx.sample(json.loads(s))
    if m['executed'] == 0 or m2['executed'] == 0:
        raise vlib.Infra('nothing executed')
    ctx.assumptions += ['factories are deterministic (fail or succeed as configured) and resolve their edges through the provider passed to them']
