"""X06 (extension, beyond the listed properties) -- varutil.RandString, the source of every
correlation id (scope.NewChild), application id, container name and heredoc terminator.
(M) RandString.tla layer A: the shared math/rand source (an additive lagged-Fibonacci register
    whose Int63 is six loads and stores) called by 2 (thorough 3) goroutines, every
    interleaving: IndexInRange; Sync = "none" (code before fix 7f1b36c: no lock) must violate
    it, Sync = "mutex" must satisfy it.  Layer B: the letter extraction (a 63-bit word cut into
    letters, indices outside the pool rejected, string filled from its last position) over
    pools of 1 .. 91 characters: Shape, PoolReachable; Width = "fixed" (code before fix
    6bd494e: always 6 bits) must violate PoolReachable for the 91 characters of StrongBytes.
    RandSourceInd.tla (Apalache): the locked source restated with types and an inductive
    invariant -- IndexInRange for ANY number of calls by three goroutines with the real
    register length 607 (Init => IndInv, IndInv /\ Next => IndInv'); without the lock guard
    the invariant must not be inductive.
(R) every behaviour of layer B (letter stream -> string; accepted / rejected letters, runs of
    rejections up to the word boundary) on the real function, the package's source replaced
    through the verif hook: the string and the number of words drawn; every letter value fed
    to pools of 1 .. 91 characters: every character of the pool must turn up; 16 goroutines
    call the real function on the real source for 2 s (thorough 10 s): no panic, every result
    well formed."""
import json, os, shutil, subprocess, tempfile
import vlib


def apalache(ctx, src_text, init, inv, length, name):
    """run apalache-mc check on a scratch copy; returns 'ok' | 'violation'; anything else is infrastructure"""
    d = tempfile.mkdtemp(prefix='apa_', dir=ctx.scratch)
    with open(os.path.join(d, 'RandSourceInd.tla'), 'w') as f:
        f.write(src_text)
    p = subprocess.run(['timeout', '900', 'apalache-mc', 'check', '--init=' + init, '--inv=' + inv, '--length=%d' % length,
                        '--out-dir=' + os.path.join(d, 'out'), 'RandSourceInd.tla'], cwd=d, stdout=subprocess.PIPE, stderr=subprocess.STDOUT, text=True)
    out = p.stdout
    shutil.rmtree(d, ignore_errors=True)
    if 'EXITCODE: OK' in out and 'NoError' in out or ('EXITCODE: OK' in out and 'no error' in out):
        return 'ok'
    if 'EXITCODE: ERROR (12)' in out or 'violat' in out:
        return 'violation'
    raise vlib.Infra('apalache run "%s" failed: %s' % (name, out[-1500:]))

MANIFEST = dict(technique='extension', text='', note='')
CFG = ('SPECIFICATION Spec\nCONSTANTS\n  Procs = {%s}\n  Len_ = 3\n  Calls = %d\n  Sync = "%s"\n  Pools = {%s}\n  Ns = {%s}\n  Width = "%s"\n  Emit = %s\n  Layer = "%s"\n'
       'INVARIANTS %s\nCHECK_DEADLOCK FALSE\n')


def run(ctx):
    q = ctx.quick
    procs = '"g1", "g2"' if q else '"g1", "g2", "g3"'
    ctx.tlc_must_pass('ext', 'RandString', 'mc.cfg', workers=8, timeout=3000,
                      files={'mc.cfg': CFG % (procs, 2, 'mutex', '1', '0', 'fit', 'FALSE', 'A', 'IndexInRange')}, name='shared source under a lock')
    rv = ctx.tlc('ext', 'RandString', 'mc.cfg', workers=2, timeout=600, files={'mc.cfg': CFG % ('"g1", "g2"', 2, 'none', '1', '0', 'fit', 'FALSE', 'A', 'IndexInRange')}, name='unlocked source (must violate IndexInRange)')
    ctx.cov['states'] -= rv['distinct']; ctx.cov['transitions'] -= rv['generated']
    if 'IndexInRange' not in rv['violated']:
        raise vlib.Infra('spec self-test failed: the unlocked source keeps its indices in range')
    # the same layer as an INDUCTIVE invariant (Apalache): any number of calls by three goroutines, the real register length
    src = open(os.path.join(vlib.SPEC, 'ext', 'RandSourceInd.tla')).read()
    if apalache(ctx, src, 'Init', 'IndInv', 0, 'Init => IndInv') != 'ok' or apalache(ctx, src, 'IndInit', 'IndInv', 1, 'IndInv inductive') != 'ok':
        raise vlib.Infra('the inductive invariant of RandSourceInd.tla does not hold on the specification itself')
    unlocked = src.replace('pc[p] = "idle" /\\ lock = "free" /\\ lock\' = p', 'pc[p] = "idle" /\\ lock\' = p')
    if unlocked == src or apalache(ctx, unlocked, 'IndInit', 'IndInv', 1, 'unlocked variant') != 'violation':
        raise vlib.Infra('spec self-test failed: without the lock guard the invariant is still inductive')
    ctx.cov['replay'].append(dict(what='Apalache: IndInv of RandSourceInd.tla is inductive (3 goroutines, register length 607, any number of calls); not inductive without the lock guard'))
    pools = '1, 2, 10, 62, 64, 65, 91' if q else '1, 2, 3, 4, 10, 26, 36, 62, 64, 65, 91'
    ns = '0, 1, 2, 3, 11' if q else '0, 1, 2, 3, 4, 11, 23'
    r = ctx.tlc_must_pass('ext', 'RandString', 'mc.cfg', workers=8, timeout=3000,
                          files={'mc.cfg': CFG % ('"g1"', 0, 'mutex', pools, ns, 'fit', 'TRUE', 'B', 'Shape PoolReachable')}, name='letter extraction')
    ctx.cov['exhaustive'] = True
    rv = ctx.tlc('ext', 'RandString', 'mc.cfg', workers=2, timeout=600, files={'mc.cfg': CFG % ('"g1"', 0, 'mutex', '91', '1', 'fixed', 'FALSE', 'B', 'Shape PoolReachable')}, name='fixed 6-bit letters (must violate PoolReachable)')
    ctx.cov['states'] -= rv['distinct']; ctx.cov['transitions'] -= rv['generated']
    if 'PoolReachable' not in rv['violated']:
        raise vlib.Infra('spec self-test failed: 6-bit letters reach all 91 characters')
    shards, n, taken = vlib.shard_lines(ctx, r['out'], 8, marker='\\"k\\":\\"rand\\"')
    m = vlib.run_sharded(ctx, lambda p: ['randcases', '--in', p], shards)
    ctx.cov['replay'].append(dict(what='letter streams on the real RandString (source replaced through the verif hook)', model_cases=n, executed=m['executed'], failures=m['failures_by_key']))
    ctx.cov['evaluations'] += m['executed']
    ctx.cov['distinct_nontrivial'] += m['executed']
    for s in m['samples'][:1]:
        ctx.sample(json.loads(s))
    vlib.report_case_failures(ctx, m, 'RandString letter streams')
    w = ctx.vh(['randwitness', '--g', '16', '--ms', '2000' if q else '10000'], timeout=120)
    ctx.cov['replay'].append(dict(what='16 goroutines on the real source', goroutines=w['goroutines'], calls=w['calls'], panics=w['panics'], malformed=w['malformed']))
    ctx.cov['evaluations'] += w['calls']
    if w['panics'] or w['malformed']:
        ctx.failure('concurrent-panic', 'RandString called from %d goroutines: %d panics (first: %s), %d malformed results in %d calls' % (w['goroutines'], w['panics'], w['first'], w['malformed'], w['calls']), w)
    ctx.cov['rule'] = 'cases = finished behaviours of layer B printed by TLC, all replayed'
    ctx.assumptions += ['pool non-empty (an empty pool offers no letter to accept: the loop does not end)', 'words of the stream are chosen by the model; the statistical quality of math/rand is not examined']
