"""X05 (extension, beyond the listed properties) -- where the output of pipeline tasks goes
(gio MultiOutput / Logger / Repeater, bufferio Broadcast / Buffer, tasks.Task, tasks.TaskManager,
pip:logs, pip:summary).
(M) TaskLog.tla: two concurrent tasks, every interleaving of submissions, writes (stream x
    Printf-with-arguments / Write x payload kind: plain, with a '%', multi-line, blank) and
    ends, <= 2 (thorough 3) writes; Verbatim (every sink and both printing commands hold the
    payload unchanged), PerTask (the manager's frames of a task = its non-blank writes, in
    order, under its name), Split, Status (one "started" line, then one final line), Banners;
    the variants "reformat" (code before fix 3cf3487) and "fmtlogs" (before 157e987) must
    violate Verbatim.
(R) every finished behaviour (quick: an evenly spread sample) on a real application: the
    tasks are submitted, write and end in the model's global order (each write is a terminal
    command of the task body that waits for its turn, watchdog on every wait); then the
    context streams, OBroadcast, the IOBroadcast segments, the manager's log with the time
    stamps removed, the status log, pip:logs and pip:summary are compared with the model's;
    plus Verbatim adapter by adapter (Output, MultiOutput, Logger, Repeater, its error
    side, Broadcast, BufferOutput; Printf with arguments and Write; fix 3aa5b3c)."""
import json
import vlib

MANIFEST = dict(technique='extension', text='', note='')
CFG = ('SPECIFICATION Spec\nCONSTANTS\n  Tasks = {"ta", "tb"}\n  MaxEmits = %d\n  Kinds = {%s}\n  Variant = "%s"\n  Emit = %s\n'
       'INVARIANTS Verbatim PerTask Split Status Banners\nCHECK_DEADLOCK FALSE\n')
KINDS = '"plain", "pct", "multi", "blank"'


def run(ctx):
    quick = ctx.quick
    r = ctx.tlc_must_pass('ext', 'TaskLog', 'mc.cfg', workers=8, timeout=3000,
                          files={'mc.cfg': CFG % (2 if quick else 3, KINDS if quick else '"plain", "pct", "blank"', 'current', 'TRUE')}, name='task output routing')
    ctx.cov['exhaustive'] = True
    for variant in ('reformat', 'fmtlogs'):
        rv = ctx.tlc('ext', 'TaskLog', 'mc.cfg', workers=2, timeout=300, files={'mc.cfg': CFG % (1, '"plain", "pct"', variant, 'FALSE')}, name='%s variant (must violate Verbatim)' % variant)
        ctx.cov['states'] -= rv['distinct']; ctx.cov['transitions'] -= rv['generated']
        if 'Verbatim' not in rv['violated']:
            raise vlib.Infra('spec self-test failed: the %s variant keeps every payload verbatim' % variant)
    every = 4 if quick else 10
    shards, n, taken = vlib.shard_lines(ctx, r['out'], 12, marker='\\"k\\":\\"tlog\\"', every=every, offset=ctx.seed % every)
    m = vlib.run_sharded(ctx, lambda p: ['tasklog', '--in', p], shards)
    ctx.cov['replay'].append(dict(what='finished behaviours forced on a real application; every sink compared', model_cases=n, executed=m['executed'], failures=m['failures_by_key']))
    ctx.cov['evaluations'] += m['executed']
    ctx.cov['distinct_nontrivial'] += m['executed']
    for s in m['samples'][:1]:
        ctx.sample(json.loads(s))
    vlib.report_case_failures(ctx, m, 'task output routing')
    ctx.cov['rule'] = 'cases = finished behaviours printed by TLC; every %dth is replayed (offset = seed); the text of input segments (the echoed command) is not compared' % every
    ctx.assumptions += ['one write per terminal command; tasks without wait lists or locks (C14, C15 cover those)', 'time stamps of the manager log are removed before comparing']
