"""C02 -- the disk filespace obeys the same contract as the in-memory one.
Equivalence is by transitivity through the specification: inside the
preconditions PreC of FsTree.tla the specification has exactly one outcome, and
memfs (C01) and diskfs (here) must both produce it; outside them the disk
backend may answer differently but must fail cleanly (no panic, nothing
changed outside the addressed paths, nothing changed in the host directory
above the root).
(M) TLC explores MemFS.tla (same model as C01, now also emitting pre/addressed);
(R) every TLC transition is replayed on a real diskfs in a scratch directory
    (root and child view) and on memfs under the same rule;
(T) random histories on disk / disk view / mem are validated by Trace_MemFS.tla
    (its Allowed operator has the clean-failure branch for events marked pre, and the
    named corner U7: a disk filespace that removed its own root directory -- logged
    with every event -- refuses calls cleanly until a call re-creates it; the root may
    disappear only by a successful Remove / RemoveAll of the root itself).
(R2) MemFSSeq.tla restricted to the preconditions: every sequence of 3 (thorough 4) mutating
    calls through the API of a fresh disk filespace / disk view / memfs; every second case
    with string-prefix-related names (sub / sub.old / su)."""
import os, json
import vlib

NPROC = 14

MANIFEST = dict(
    technique='TLA+ reference model with explicit preconditions (PreC, CleanChange) checked by TLC; TLC transitions replayed on real diskfs and memfs; recorded disk histories validated by the TLA+ trace spec',
    text='Every transition of the exhaustive MemFS model (2 names x 2 contents x depth 2, raw spellings) is executed on a fresh disk filespace (root and child view) in a scratch directory: inside the preconditions result and whole tree must equal the unique specified outcome (the same one memfs is held to in C01, hence backend equivalence); outside them only clean failure is required, and the host directory above the root is fingerprinted before/after every call. Random long histories on disk, disk view and memfs are validated line by line by TLC.',
    note='Assumption of the check (not of the statement): a directory is never copied into itself (filepath.Walk behaviour there is host specific). Permissions, symlinks and non-Linux hosts are not driven. ReadDir is compared as a set.')


def run(ctx):
    q = ctx.quick
    cfg = 'MC_MemFS_quick.cfg' if q else 'MC_MemFS_thorough.cfg'
    r = ctx.tlc_must_pass('fs', 'MemFS', cfg, workers=8, timeout=3000, name='MemFS exhaustive (with C02 preconditions)')
    ctx.cov['exhaustive'] = True
    dtmp = ctx.tmp('disk')
    os.makedirs(dtmp)
    total = 0
    for backends, every in ((['disk'], 6 if q else 1), (['diskview'], 12 if q else 2), (['mem'], 6 if q else 2)):
        shards, total, taken = vlib.shard_lines(ctx, r['out'], NPROC, every=every, offset=ctx.seed)
        m = vlib.run_sharded(ctx, lambda p: ['fscases', '--in', p, '--backends', ','.join(backends), '--workers', '1',
                                             '--tmp', dtmp, '--diskpre'], shards)
        ctx.cov['replay'].append(dict(backends=backends, model_transitions=total, executed=m['executed'],
                                      outside_preconditions=m.get('clean_runs', 0), skipped_assumption=m['skipped_pre'],
                                      failures=m['failures_by_key'], ops=m['ops'], hangs=m['hangs']))
        ctx.cov['evaluations'] += m['executed']
        ctx.cov['distinct_nontrivial'] += m['executed']
        for s in m['samples'][:1]:
            ctx.sample(json.loads(s))
        vlib.report_case_failures(ctx, m, 'replay of TLC transitions on %s' % ','.join(backends))
        if m['executed'] == 0:
            raise vlib.Infra('no case executed')
    # ---------------- (R2) call SEQUENCES through the API (the state is reached by the calls themselves)
    rq = ctx.tlc_must_pass('fs', 'MemFSSeq', 'MC_MemFSSeq_pre_%s.cfg' % ('quick' if q else 'thorough'), workers=8, timeout=1800, name='MemFSSeq: every sequence of %d mutating calls' % (3 if q else 4))
    shq, totq, takq = vlib.shard_lines(ctx, rq['out'], NPROC, marker='\\"k\\":\\"seq\\"')
    mq = vlib.run_sharded(ctx, lambda p: ['fsseq', '--in', p, '--backends', 'disk,diskview,mem', '--tmp', dtmp], shq)
    ctx.cov['replay'].append(dict(what='call sequences through the API (disk family)', model_sequences=totq, executed=mq['executed'], failures=mq['failures_by_key']))
    ctx.cov['evaluations'] += mq['executed']
    ctx.cov['distinct_nontrivial'] += mq['executed']
    vlib.report_case_failures(ctx, mq, 'call sequences')
    ctx.cov['rule'] = ('cases = (reachable abstract tree, call, raw spelling) expanded by TLC, sampled by seed in the quick tier; '
                       'distinct by construction; each compares result, whole tree and the host directory fingerprint')
    tf = ctx.tmp('c02_trace.ndjson')
    n, steps = (60, 60) if q else (900, 120)
    g = ctx.vh(['fstrace', '--out', tf, '--n', str(n), '--steps', str(steps), '--backends', 'disk,diskview,mem',
                '--tmp', dtmp, '--diskpre', '--seed', str(ctx.seed), '--names', '6' if q else '10', '--depth', '4' if q else '5'])
    v = vlib.validate_trace(ctx, 'fs', 'Trace_MemFS', 'Trace_MemFS.cfg', tf, what='random disk/mem histories under PreC')
    ctx.cov['evaluations'] += g['events']
    gone = 0
    with open(tf) as f:
        for i, line in enumerate(f):
            if 30 <= i < 32:
                ctx.sample(json.loads(line))
            if '"rootgone":true' in line:
                gone += 1
    ctx.cov['traces'].append(dict(what='events recorded while the backend\'s own root directory was gone (corner U7)', events=gone))
    if not v['rejected']:
        def gone_unjustified(lines):
            for i, l in enumerate(lines):
                if i > 5 and '"rootgone":false' in l and '"tree":[]' in l and '"name":"is' in l:
                    lines = list(lines)
                    lines[i] = l.replace('"rootgone":false', '"rootgone":true')
                    return lines, 'a query is logged as having removed the root directory (line %d)' % (i + 1)
            return lines, 'none'
        vlib.selftest_trace_rejects(ctx, 'fs', 'Trace_MemFS', 'Trace_MemFS.cfg', tf, gone_unjustified)
    if not v['rejected'] and not q:
        def corrupt(lines):
            for i, l in enumerate(lines):
                e = json.loads(l)
                if e.get('ev') == 'op' and e.get('name') == 'read' and e['res'][0][0] == 'data' and i > len(lines) // 4:
                    e['res'] = [['data', 'not-what-was-written']]
                    lines = list(lines)
                    lines[i] = json.dumps(e)
                    return lines, 'replace the data returned by a read at line %d' % (i + 1)
            return lines[:-1] + ['{"ev":"inspect","h":99999,"now":[]}'], 'inspect an unknown handle'
        vlib.selftest_trace_rejects(ctx, 'fs', 'Trace_MemFS', 'Trace_MemFS.cfg', tf, corrupt)
    ctx.assumptions += [
        'a directory is never copied into itself (check assumption, outside the statement)',
        'scratch directory on the local Linux file system; permissions and symlinks not driven',
        'ReadDir compared as a set; modes and times not compared',
    ]
