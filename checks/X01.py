"""X01 (extension, beyond the listed properties) -- event scopes (app/scope/eventscope).
(M) EventScope.tla: a chain of three event scopes; On appends, Trigger runs the root's
    listeners first, then down to the triggered scope, each list in registration order,
    stops at the first failing listener and returns its failure; RootFirst,
    NothingBelowOrBeside, StopsAtFirstFailure for every registration state of <= 3
    (thorough 4) listeners over two events.
    EventScopeLock.tla: the reader/writer lock around the lists with a listener that calls
    On itself; "snapshot" (list copied under the lock, listeners run outside) returns for
    every interleaving of two triggers; "heldlock" (code before fix 9cbbe8b) deadlocks.
(R) every (registration state, Trigger) of the model on bare event scopes and on full
    scopes (whose default event scope is a child of the parent's); the deadlock schedule on
    four kinds of real scope under a watchdog."""
import json
import vlib

MANIFEST = dict(technique='extension', text='', note='')


def run(ctx):
    quick = ctx.quick
    cfg = 'SPECIFICATION Spec\nCONSTANTS\n  MaxReg = %d\nINVARIANTS RootFirst NothingBelowOrBeside StopsAtFirstFailure\nCHECK_DEADLOCK FALSE\n' % (3 if quick else 4)
    r = ctx.tlc_must_pass('ext', 'EventScope', 'mc.cfg', workers=4, timeout=1200, files={'mc.cfg': cfg}, name='EventScope registration states')
    ctx.cov['exhaustive'] = True
    lock = 'SPECIFICATION Spec\nCONSTANTS\n  Variant = "%s"\n  Triggers = {1, 2}\nINVARIANT LockSane\nPROPERTY EveryoneReturns\n'
    ctx.tlc_must_pass('ext', 'EventScopeLock', 'l.cfg', workers=2, timeout=300, files={'l.cfg': lock % 'snapshot'}, name='lock layer, snapshot')
    rh = ctx.tlc('ext', 'EventScopeLock', 'l.cfg', workers=2, timeout=300, files={'l.cfg': lock % 'heldlock'}, name='lock layer, heldlock (must deadlock)')
    ctx.cov['states'] -= rh['distinct']; ctx.cov['transitions'] -= rh['generated']
    if not rh['deadlock']:
        raise vlib.Infra('spec self-test failed: the heldlock variant does not deadlock')
    shards, n, taken = vlib.shard_lines(ctx, r['out'], 8, marker='\\"k\\":\\"ev\\"')
    m = vlib.run_sharded(ctx, lambda p: ['evcases', '--in', p], shards)
    ctx.cov['replay'].append(dict(what='(registration state, Trigger) cases on event scopes and full scopes', model_cases=n, executed=m['executed'], failures=m['failures_by_key']))
    ctx.cov['evaluations'] += m['executed']
    ctx.cov['distinct_nontrivial'] += m['executed']
    for s in m['samples'][:1]:
        ctx.sample(json.loads(s))
    vlib.report_case_failures(ctx, m, 'event cases')
    w = ctx.vh(['evwitness'], timeout=300)
    ctx.cov['replay'].append(dict(what='listener that registers a listener', executed=w['executed'], failures=w['failures_by_key']))
    ctx.cov['evaluations'] += w['executed']
    vlib.report_case_failures(ctx, w, 're-entrant On')
    ctx.cov['rule'] = 'cases = TLC transitions (deduplicated), each run on two kinds of real scope chains'
