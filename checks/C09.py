"""C09 -- the in-memory filespace stays consistent under concurrent use.
(M) MemFSConc.tla (implementation layer: directory index mutex, directory outer
    lock, file data lock held by stream handles): two stream copies in one directory
    -- no deadlock with the fixed lock order, deadlock with the old one (regression
    variant); WriteFile(d/x) against Remove(d) -- TLC shows the lost write
    (NoLostWrite violated): open finding D_RemoveVsCreate; a stream copy into a NEW file
    against ReadFile -- the reader never sees the empty node (NoEmptyRead), it does when
    the node becomes visible before it is locked (regression variant, fixed defect).
(R) both model schedules on the real code: the stream-copy pair under a watchdog,
    and Remove(d) parked at the remove.checked hook while WriteFile / MkdirAll
    beneath d complete (deterministic witness of the finding); Writer on a new file
    (parked before it locks the node where the code still has such a point) against
    ReadFile, and ReadFile against an open writer handle; a directory copy racing with
    removals of the directory's children (MemCopyDir.tla): the copy must hold the
    children of one instant (all minus a prefix of the removal order, each once).
(T) 2-6 goroutines with random mixes of write / stream write / read / mkdir / remove /
    recursive remove / list / copy / queries on shared paths, GOMAXPROCS 1/2/4/N;
    Trace_MemFSLin.tla decides linearizability with respect to FsTree (every call's
    effect between its call and return, parents created level by level, unique
    written values so a torn or mixed read matches nothing; a file copy -- also from a
    source that is being written or stream-written at that moment -- is a read of one
    complete value followed later by the write of the destination), with the documented
    deviation enabled only where a Remove(dir) overlaps a creation beneath it.
(R2) further forced schedules: copy / copy of the parent directory while a stream writer has
    written part of a new value; Remove parked after its emptiness test with WriteFile beneath
    it and Copy of the parent started, then released -- all three must return (lock order)."""
import json
import vlib

MANIFEST = dict(
    technique='TLA+ lock-structure model of memfs (deadlock and lost-write schedules) checked by TLC; the model schedules forced on the real code (watchdog, hook gate); linearizability of recorded concurrent histories w.r.t. the FsTree specification decided by a TLA+ trace spec with the documented deviation as a named action',
    text='Recorded concurrent histories are accepted only if some placement of each call\'s effect between its call and return explains every result and the final tree under FsTree; values are unique per write so partial or mixed contents are rejected; panics are recovered and hangs reported with goroutine dumps. The Writer lock-order deadlock (fixed) and the remove-vs-create lost write (open finding) are 55- and 8-state counterexamples of the lock model and are replayed deterministically.',
    note='Open finding D_RemoveVsCreate (Remove tests emptiness without a lock; a creation beneath the directory that overlaps the Remove is lost). Unspecified corner: a creation may fail when another goroutine creates the same node concurrently. Usage assumption: a goroutine holding a stream handle calls nothing else on that file before closing it. The Go memory model below the mutex level is not modelled.')


def mc(sc, v, inv='NoLostWrite'):
    return 'SPECIFICATION Spec\nCONSTANTS\n  Scenario = "%s"\n  Variant = "%s"\nINVARIANT %s\n' % (sc, v, inv)


def run(ctx):
    q = ctx.quick
    ctx.tlc_must_pass('fs', 'MemFSConc', 'mc.cfg', workers=2, timeout=300, files={'mc.cfg': mc('sc_sc', 'current')}, name='two stream copies, fixed lock order')
    r1 = ctx.tlc('fs', 'MemFSConc', 'mc.cfg', workers=2, timeout=300, files={'mc.cfg': mc('sc_sc', 'prefix')}, name='two stream copies, old lock order (must deadlock)')
    r2 = ctx.tlc('fs', 'MemFSConc', 'mc.cfg', workers=2, timeout=300, files={'mc.cfg': mc('wf_rm', 'current')}, name='WriteFile vs Remove (documents D_RemoveVsCreate: NoLostWrite violated)')
    ctx.tlc_must_pass('fs', 'MemFSConc', 'mc.cfg', workers=2, timeout=300, files={'mc.cfg': mc('sc_rd', 'current', 'NoEmptyRead')}, name='stream copy into a new file vs ReadFile, new node locked at birth')
    r3 = ctx.tlc('fs', 'MemFSConc', 'mc.cfg', workers=2, timeout=300, files={'mc.cfg': mc('sc_rd', 'unlockednew', 'NoEmptyRead')}, name='stream copy into a new file vs ReadFile, node visible before it is locked (must violate NoEmptyRead)')
    if 'NoEmptyRead' not in r3['violated']:
        raise vlib.Infra('spec self-test failed: a new node visible before it is locked is not read empty in the model')
    for r in (r1, r2, r3):
        ctx.cov['states'] -= r['distinct']; ctx.cov['transitions'] -= r['generated']
    if not r1['deadlock']:
        raise vlib.Infra('spec self-test failed: the old lock order does not deadlock in the model')
    if 'NoLostWrite' not in r2['violated']:
        raise vlib.Infra('spec self-test failed: the lock model no longer shows the remove-vs-create lost write')
    # directory copy against removals of its children: the children array is shifted in place by removals
    mcd = '---- MODULE MC ----\nEXTENDS MemCopyDir\nRm == <<2, 1, 4>>\n====\n'
    cdcfg = 'SPECIFICATION Spec\nCONSTANTS\n  N = 5\n  Removals <- Rm\n  Variant = "%s"\nINVARIANT SnapshotIsPrefix\nPROPERTY Terminates\n'
    ctx.tlc_must_pass('fs', 'MC', 'cd.cfg', workers=2, timeout=300, files={'MC.tla': mcd, 'cd.cfg': cdcfg % 'locked'}, name='directory copy vs child removals, index lock held during the walk')
    r4 = ctx.tlc('fs', 'MC', 'cd.cfg', workers=2, timeout=300, files={'MC.tla': mcd, 'cd.cfg': cdcfg % 'sharedhdr'}, name='directory copy walking the live array after unlocking (must violate SnapshotIsPrefix)')
    ctx.cov['states'] -= r4['distinct']; ctx.cov['transitions'] -= r4['generated']
    if 'SnapshotIsPrefix' not in r4['violated']:
        raise vlib.Infra('spec self-test failed: walking the live array does not tear the directory copy in the model')
    m = ctx.vh(['memwitness'])
    ctx.cov['replay'].append(dict(what='model schedules on the real code', executed=m['executed'], failures=m['failures_by_key'], known=m.get('known')))
    ctx.cov['evaluations'] += m['executed']
    vlib.report_case_failures(ctx, m, 'model schedules')
    for k, v in (m.get('known') or {}).items():
        ctx.failure(k, 'witness schedule: %s' % m['known_examples'].get(k), m['known_examples'].get(k))
    tf = ctx.tmp('c09.ndjson')
    g = ctx.vh(['memconc', '--out', tf, '--n', '250' if q else '5000', '--seed', str(ctx.seed)], timeout=3000)
    v = vlib.validate_trace(ctx, 'fs', 'Trace_MemFSLin', 'Trace_MemFSLin_dev.cfg', tf, what='concurrent memfs histories',
                            key_of=lambda e: 'lin:%s:%s' % (e.get('ev'), e.get('name', '')), depthfirst=True, timeout=1500, max_rounds=4)
    ctx.cov['evaluations'] += v['events']
    ctx.cov['distinct_nontrivial'] = v['histories'] + m['executed']
    ctx.cov['rule'] = 'one history = goroutine count, op mix and paths by seed, unique written values'
    with open(tf) as f:
        for i, line in enumerate(f):
            if i in (0, 2):
                ctx.sample(json.loads(line))
    if not v['rejected']:
        def torn(lines):
            for i, l in enumerate(lines):
                e = json.loads(l)
                if e.get('ev') == 'ret' and e.get('name') == 'read' and e['res'][0][0] == 'data' and i > 20:
                    e['res'] = [['data', '?deadbeef']]
                    lines = list(lines); lines[i] = json.dumps(e)
                    return lines, 'a read returns bytes nobody wrote (line %d)' % (i + 1)
            return lines, 'none'
        vlib.selftest_trace_rejects(ctx, 'fs', 'Trace_MemFSLin', 'Trace_MemFSLin_dev.cfg', tf, torn, depthfirst=True)
    ctx.assumptions += ['a goroutine that holds a stream handle calls nothing else on the same file before closing it',
                        'a file copy is two steps (complete source value read, destination written later), as in the code; only file copies are driven concurrently']
