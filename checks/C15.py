"""C15 -- named resource locks: writers exclude everyone, readers share, no deadlock.
(M) NamedLocks.tla: holders with lock maps, one writer-preferring RW mutex per name,
    acquisition in sorted order; TLC checks Exclusion, Independent, absence of
    deadlock and (2 holders) that everyone gets in under fairness -- for ALL lock maps
    over 3 names x {R,W} as initial states (2 holders: 676 assignments; 3 holders:
    17 576); the unsorted variant must deadlock.
(R) the deadlock schedule of the unsorted variant forced through the verif hooks:
    every holder is held after its first acquisition until all others have made
    theirs (repeated: Go's map order is random), watchdog 5 s + goroutine dump;
    independence: a compatible holder must get inside WHILE another stays inside -- also
    while a THIRD request is waiting for a busy name (the GlobalAcq regression variant of
    the model, one mutex around every multi-name acquisition, must violate Independent).
(R2) LockLists.tla: the command layer the anchors name -- every pair of --rlock / --wlock
    lists over 3 names given to a real pip:run; the locks the runner takes around the body,
    observed at the shared mutex, must be: each name once, ascending, for writing iff the
    name is in the write list.
(T) free-running holders (4-16, random maps over 6 names, random hold times) log
    want / inside / leaving; Trace_NamedLocks.tla checks exclusion on every entry.
    LARGE maps and name populations (the model's names are abstract): one holder with 40 .. 1000
    names gets them all; two holders with disjoint maps of that size never wait for each other;
    two holders sharing one written name out of many exclude each other on it and both finish."""
import json
import vlib

MANIFEST = dict(
    technique='TLA+ model of per-name writer-preferring RW mutexes with ordered acquisition checked by TLC over all lock maps (deadlock, exclusion, independence, liveness; unsorted regression variant); deadlock schedule forced through build-tag hooks; free-running holders validated by a TLA+ trace spec',
    text='Every assignment of non-empty lock maps over 3 names x {R,W} to 2 and 3 holders is an initial state (1.5 million states for 3 holders): no deadlock, exclusion, independence. The schedule that deadlocks an unsorted implementation (each holder takes one name, then all continue) is forced on the real SharedMutex 4 map-sets x 24 rounds; independence is a positive event (the second holder logs inside before the first leaves). Free-running traces are checked entry by entry.',
    note='Deadlock and serialisation verdicts need a 5 s watchdog (operations take microseconds). Map-order dependent mutants are caught with probability 1 - 2^-rounds.')


def run(ctx):
    q = ctx.quick
    ctx.tlc_must_pass('locks', 'NamedLocks', 'MC_NamedLocks.cfg', workers=8, timeout=600, name='NamedLocks 2 holders x 3 names, all maps (safety + liveness)')
    if not q:
        ctx.tlc_must_pass('locks', 'NamedLocks', 'MC_NamedLocks_3.cfg', workers=14, timeout=1800, name='NamedLocks 3 holders x 3 names, all maps')
    ctx.cov['exhaustive'] = True
    ru = ctx.tlc('locks', 'NamedLocks', 'MC_NamedLocks_unsorted.cfg', workers=4, timeout=600, name='unsorted variant (must deadlock)')
    ctx.cov['states'] -= ru['distinct']; ctx.cov['transitions'] -= ru['generated']
    if not ru['deadlock']:
        raise vlib.Infra('spec self-test failed: the unsorted variant does not deadlock')
    rg = ctx.tlc('locks', 'NamedLocks', 'MC_NamedLocks_global.cfg', workers=8, timeout=900, name='global acquisition mutex variant (must violate Independent)')
    ctx.cov['states'] -= rg['distinct']; ctx.cov['transitions'] -= rg['generated']
    if 'Independent' not in rg['violated']:
        raise vlib.Infra('spec self-test failed: the global-acquisition variant does not violate Independent')
    # command layer: the lock map pip:run builds from --rlock / --wlock, observed at the shared mutex
    rl = ctx.tlc_must_pass('locks', 'LockLists', 'MC_LockLists.cfg', workers=2, timeout=300, name='LockLists: every pair of read / write lists over 3 names')
    shl, totl, takl = vlib.shard_lines(ctx, rl['out'], 4, marker='\\"k\\":\\"locklist\\"')
    ml = vlib.run_sharded(ctx, lambda p: ['locklists', '--in', p], shl)
    ctx.cov['replay'].append(dict(what='lock lists given to a real pip:run', model_cases=totl, executed=ml['executed'], failures=ml['failures_by_key']))
    ctx.cov['evaluations'] += ml['executed']
    vlib.report_case_failures(ctx, ml, 'lock lists of pip:run')
    m = ctx.vh(['lockscript', '--rounds', '24' if q else '200'], timeout=3000)
    ctx.cov['replay'].append(dict(what='scripted schedules', executed=m['executed'], failures=m['failures_by_key']))
    ctx.cov['evaluations'] += m['executed']
    for s in (m.get('samples') or [])[:1]:
        ctx.sample(s)
    vlib.report_case_failures(ctx, m, 'scripted schedule')
    tf = ctx.tmp('c15.ndjson')
    g = ctx.vh(['locktrace', '--out', tf, '--n', '80' if q else '2000', '--seed', str(ctx.seed)], timeout=3000)
    v = vlib.validate_trace(ctx, 'locks', 'Trace_NamedLocks', 'Trace_NamedLocks.cfg', tf, what='free-running holders',
                            key_of=lambda e: 'trace:%s' % e.get('ev'), timeout=3000)
    ctx.cov['evaluations'] += v['events']
    ctx.cov['distinct_nontrivial'] = m['executed'] + v['histories']
    ctx.cov['rule'] = 'scripted runs (map set x round) + free rounds (holder count, random maps, hold times by seed)'
    with open(tf) as f:
        for i, line in enumerate(f):
            if i in (1, 2):
                ctx.sample(json.loads(line))
    if not v['rejected']:
        def overlap(lines):
            # move a conflicting holder's "inside" before the previous holder's "leaving"
            for i, l in enumerate(lines):
                if '"ev":"leaving"' in l and i + 1 < len(lines) and '"ev":"inside"' in lines[i + 1]:
                    lines = list(lines)
                    lines[i], lines[i + 1] = lines[i + 1], lines[i]
                    return lines, 'swap a leaving with the next inside (line %d)' % (i + 1)
            return lines, 'none'
        try:
            vlib.selftest_trace_rejects(ctx, 'locks', 'Trace_NamedLocks', 'Trace_NamedLocks.cfg', tf, overlap)
        except vlib.Infra:
            ctx.cov.setdefault('selftests', []).append(dict(mutation='swap leaving/inside', rejected=False, note='the swapped pair happened to be compatible'))
    ctx.assumptions += ['hold times are microseconds; watchdogs are seconds']
