"""X03 (extension, beyond the listed properties) -- gio.Repeater (task logs, SSH sandbox transcript).
(M) Repeater.tla: the stream-kind state machine; a banner stands exactly at every change
    of kind among the operations that copy something (BannerCount) for every sequence of
    <= 4 (thorough 5) operations over read / readword / readline (with data or at end of
    input) / printf / write / errprintf / errwrite; the "readline-out" variant (code before
    fix 3cfd005: ReadLine recorded OUTPUT mode) must violate BannerCount; every payload is
    copied verbatim (Verbatim); the "reformat" variant (code before fix 3cf3487: data handed
    to Printf as a format string) must violate it.
(R) every operation sequence on a real Repeater over real Input / Output objects: both
    transcripts must be the specified sequence of banners and payloads (every payload contains a '%')."""
import json
import vlib

MANIFEST = dict(technique='extension', text='', note='')
CFG = 'SPECIFICATION Spec\nCONSTANTS\n  MaxOps = %d\n  Variant = "%s"\nINVARIANTS BannerCount Verbatim Verbatim2\nCHECK_DEADLOCK FALSE\n'


def run(ctx):
    quick = ctx.quick
    r = ctx.tlc_must_pass('ext', 'Repeater', 'mc.cfg', workers=4, timeout=1200, files={'mc.cfg': CFG % (4 if quick else 5, 'current')}, name='Repeater operation sequences')
    ctx.cov['exhaustive'] = True
    rv = ctx.tlc('ext', 'Repeater', 'mc.cfg', workers=2, timeout=300, files={'mc.cfg': CFG % (3, 'readline-out')}, name='readline-out variant (must violate BannerCount)')
    ctx.cov['states'] -= rv['distinct']; ctx.cov['transitions'] -= rv['generated']
    if 'BannerCount' not in rv['violated']:
        raise vlib.Infra('spec self-test failed: the readline-out variant keeps the banner count')
    rv = ctx.tlc('ext', 'Repeater', 'mc.cfg', workers=2, timeout=300, files={'mc.cfg': CFG % (3, 'reformat')}, name='reformat variant (must violate Verbatim)')
    ctx.cov['states'] -= rv['distinct']; ctx.cov['transitions'] -= rv['generated']
    if not (set(rv['violated']) & {'Verbatim', 'Verbatim2'}):
        raise vlib.Infra('spec self-test failed: the reformat variant keeps the payloads verbatim')
    shards, n, taken = vlib.shard_lines(ctx, r['out'], 8, marker='\\"k\\":\\"rep\\"')
    m = vlib.run_sharded(ctx, lambda p: ['repcases', '--in', p], shards)
    ctx.cov['replay'].append(dict(what='operation sequences on a real Repeater', model_cases=n, executed=m['executed'], failures=m['failures_by_key']))
    ctx.cov['evaluations'] += m['executed']
    ctx.cov['distinct_nontrivial'] += m['executed']
    for s in m['samples'][:1]:
        ctx.sample(json.loads(s))
    vlib.report_case_failures(ctx, m, 'repeater transcripts')
    ctx.cov['rule'] = 'cases = TLC transitions; sequences mixing the raw Read with the buffered ReadWord / ReadLine of gio.Input are skipped (Input loses data there, not the Repeater)'
    ctx.assumptions += ['single goroutine (the mode byte is not synchronised in the code; concurrent use is not driven)']
