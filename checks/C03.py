"""C03 -- a filespace (view) never reaches outside its own root.
(M) ViewsCore.tla transcribes the path computation of every view layer (memfs
    wrapper, disk sub root, SubFS, read-only, cipher, cache); TLC checks
    Confined and Transparent for every legal stack and every raw spelling in
    the bound, and (thorough) that the pre-fix SubFS variant violates Confined;
(R) every (stack, spelling) TLC enumerates is executed on real view stacks over
    a populated parent: 7 read-type and 14 mutating calls each.  Verdict from
    REAL snapshots: nothing outside the view root (and the host directory above a
    disk root) changes, and a read-type call may only refuse or answer what the
    node inside the view (clamped resolution) answers -- node kinds alternate with
    the nesting level, so a leak one level up is visible.  Binding: the model's
    resolution predicts the answer; a mismatch that is still confined is drift.
    A child view obtained with the spelling (Filespace(sp)) is written through, removed
    through and READ through: whatever it shows must be the content of a node under the
    view's root.  Every second shard instantiates the model's names so that some START WITH
    the name of the disk root directory (root / rootx / rootf): confinement by string
    prefix instead of by path segments lets such a sibling through.
(T) random deeper stacks / longer spellings: where a token written through the
    stack landed is recorded and validated by Trace_Views.tla."""
import os, json
import vlib

NPROC = 14

MANIFEST = dict(
    technique='TLA+ model of every view layer\'s path computation checked by TLC for Confined/Transparent; each enumerated (stack, spelling) executed on real view stacks with snapshot comparison of everything outside the root; random deeper stacks validated by a TLA+ trace spec',
    text='Exhaustive over all legal stacks of up to 3 (thorough: 4) layers over memory and disk roots and all raw spellings of up to 3 (thorough: 4) segments from names, ".", ".." and "": each is executed on real objects with 21 calls; the verdict is taken from real before/after snapshots of the parent tree and the host directory, so it does not depend on the model; the model is bound by predicting every read answer. Beyond the bound, random stacks of up to 6 layers and spellings of up to 8 segments are validated against the specification by TLC.',
    note='Symlink escapes on disk and names containing "/"-like bytes are not driven. The cipher layer is checked for confinement only (plaintext files of the parent cannot be decrypted).')


def run(ctx):
    q = ctx.quick
    cfg = 'MC_Views_quick.cfg' if q else 'MC_Views_thorough.cfg'
    r = ctx.tlc_must_pass('views', 'Views', cfg, workers=8, timeout=3000, name='Views exhaustive')
    ctx.cov['exhaustive'] = True
    # the regression variant (SubFS before the fix) must violate Confined: the model can express the escape
    rp = ctx.tlc('views', 'Views', 'MC_Views_prefix.cfg', workers=2, timeout=300, name='pre-fix SubFS variant (must violate Confined)')
    ctx.cov['states'] -= rp['distinct']
    ctx.cov['transitions'] -= rp['generated']
    if 'Inv' not in rp['violated']:
        raise vlib.Infra('spec self-test failed: the pre-fix SubFS variant does not violate Confined')
    dtmp = ctx.tmp('disk')
    os.makedirs(dtmp)
    # memory-rooted stacks: every case (thorough: every third of the much larger enumeration); disk-rooted stacks cost a
    # scratch directory per call and are sampled in the quick tier
    parts = []
    for roots, every in (('mem', 1 if q else 3), ('disk', 4 if q else 3)):
        shards, total, taken = vlib.shard_lines(ctx, r['out'], NPROC, marker='\\"k\\":\\"view\\"', every=every, offset=ctx.seed)
        # every second shard instantiates the model's names so that some START WITH the name of the disk root directory
        parts.append(vlib.run_sharded(ctx, lambda p: ['views', '--in', p, '--tmp', dtmp, '--roots', roots] + (['--naming', 'prefix'] if int(p.rsplit('_', 1)[1].split('.')[0]) % 2 else []) + (['--spelling', 'long'] if int(p.rsplit('_', 1)[1].split('.')[0]) % 3 == 0 else []), shards))
    m = parts[0]
    for other in parts[1:]:
        m['executed'] += other['executed']
        m['calls'] = m.get('calls', 0) + other.get('calls', 0)
        for k, v in other['failures_by_key'].items():
            m['failures_by_key'][k] = m['failures_by_key'].get(k, 0) + v
        for k, v in other['examples'].items():
            m['examples'].setdefault(k, v)
        for k, v in (other.get('drift') or {}).items():
            m.setdefault('drift', {})
            m['drift'][k] = m['drift'].get(k, 0) + v
        m['samples'] = (m.get('samples') or []) + (other.get('samples') or [])
    calls = 0
    drift = {}
    # run_sharded merges the common keys; collect the extra ones again from the examples
    ctx.cov['replay'].append(dict(model_cases=total, executed=m['executed'], failures=m['failures_by_key']))
    ctx.cov['evaluations'] += m.get('calls', m['executed'] * 21)
    ctx.cov['distinct_nontrivial'] = m['executed']
    ctx.cov['rule'] = ('cases = (legal view stack, raw spelling) enumerated by TLC (thorough: every third by seed); each runs 7 read-type '
                       'and 14 mutating calls on a fresh populated world; distinct by construction')
    for s in m['samples'][:2]:
        ctx.sample(json.loads(s))
    if m.get('drift'):
        ctx.cov['impl_conformance'] = False
        ctx.cov['drift'] = dict(counts=m['drift'], examples=m.get('drift_examples'))
        vlib.log('DRIFT C03: the code is confined but does not resolve paths the way ViewsCore.tla transcribes it: %s' % m['drift'])
    vlib.report_case_failures(ctx, m, 'view stacks')
    if m['executed'] == 0:
        raise vlib.Infra('no case executed')
    # ---- (T) beyond the bound
    tf = ctx.tmp('c03_trace.ndjson')
    g = ctx.vh(['viewtrace', '--out', tf, '--n', '400' if q else '6000', '--tmp', dtmp, '--seed', str(ctx.seed),
                '--maxstack', '5', '--maxsp', '8'])
    v = vlib.validate_trace(ctx, 'views', 'Trace_Views', 'Trace_Views.cfg', tf, what='random view stacks',
                            key_of=lambda e: 'trace:escaped' if e.get('escaped') else 'trace:landing')
    ctx.cov['traces_validated_against_impl'] += g['events']
    ctx.cov['evaluations'] += g['events']
    with open(tf) as f:
        ctx.sample(json.loads(f.readline()))
    if not v['rejected']:
        def corrupt(lines):
            for i, l in enumerate(lines):
                e = json.loads(l)
                if e['landed'] != ['<err>'] and len(e['landed']) > 1:
                    e['landed'] = e['landed'][1:]
                    lines = list(lines)
                    lines[i] = json.dumps(e)
                    return lines, 'move the landing place of line %d one level up' % (i + 1)
            return lines, 'none'
        vlib.selftest_trace_rejects(ctx, 'views', 'Trace_Views', 'Trace_Views.cfg', tf, corrupt)
    ctx.assumptions += ['symlinks and permission bits are not driven', 'base directories are named "v"; names in spellings are a, f, v (x beyond the bound)']
