"""C05 -- encrypted filespace: round trip, secrecy, integrity, no crash on bad data.
(M) CryptFS.tla is SYMBOLIC (stored value = term Enc(cipher, key, nonce, plain)):
    TLC checks RoundTrip, Integrity, NeverWrongData, Secrecy, FreshNonce for every
    combination of writer/reader configuration (cipher, secret, salt, host flag),
    write path, read path, plaintext class and tamper class, and prints each as a
    scenario with its expected outcome (data / err / any).
(R) every scenario runs on the real EncryptFS over memory and disk; the harness
    expands "truncate" to every length and "flip" to every single byte position of
    the real stored bytes, looks for the plaintext in the raw bytes and compares
    two writes of equal data.  Name-space operations: the C01 conformance cases
    (FsTree transitions) are replayed through an encrypted filespace.
    The caller behaves like a real one: ONE slice per secret / salt (with spare capacity)
    is handed to every filespace it builds and must stay untouched; streams are written
    through one reused buffer that is overwritten as soon as Write has returned.
What the specification does NOT decide: cryptographic strength (AES-GCM, the KDF,
the RNG) -- nonce freshness is observed as inequality of outputs only."""
import os, json
import vlib

NPROC = 14

MANIFEST = dict(
    technique='symbolic TLA+ model of the encrypted filespace (terms, keys, nonces, tamper classes) checked by TLC; every scenario expanded by the harness to every truncation length / byte flip of the real stored bytes; FsTree transitions replayed through the encrypted filespace for the name-space clause',
    text='24 576 scenarios (2 ciphers x 2 secrets x 2 salts x host flag for writer and reader, 2 write paths, 2 read paths, 6 plaintext sizes 0/1/15/16/17/4096, 4 tamper classes) are executed on real EncryptFS objects over memory and disk; truncation and bit flips are enumerated over the real stored bytes (all positions up to 160 bytes, head/tail/every 251st beyond; all positions in the thorough tier). Expected outcome comes from the symbolic model; a panic is recovered and is a violation.',
    note='Partly decided by the specification: protocol combinatorics yes, cryptographic strength no. A reader differing only in the host-binding flag is an unspecified corner (HostID() is the empty string today, recorded as an observation in DESIGN.md).')


def run(ctx):
    q = ctx.quick
    dtmp = ctx.tmp('d')
    os.makedirs(dtmp)
    r = ctx.tlc_must_pass('crypt', 'CryptFS', 'MC_CryptFS.cfg', workers=4, timeout=900, name='CryptFS symbolic')
    ctx.cov['exhaustive'] = True
    shards, total, taken = vlib.shard_lines(ctx, r['out'], NPROC, marker='\\"k\\":\\"crypt\\"', every=3 if q else 1, offset=ctx.seed)
    m = vlib.run_sharded(ctx, lambda p: ['crypt', '--in', p, '--tmp', dtmp] + ([] if q else ['--all']), shards)
    ctx.cov['replay'].append(dict(what='crypt scenarios', model_scenarios=total, executed=m['executed'], reads=m.get('calls', 0), failures=m['failures_by_key']))
    ctx.cov['evaluations'] += m.get('calls', 0)
    ctx.cov['distinct_nontrivial'] = m['executed']
    for s in m['samples'][:2]:
        ctx.sample(json.loads(s))
    vlib.report_case_failures(ctx, m, 'crypt scenarios')
    if m['executed'] == 0:
        raise vlib.Infra('nothing executed')
    # name-space operations behave exactly as on the underlying filespace: FsTree transitions through EncryptFS
    r2 = ctx.tlc_must_pass('fs', 'MemFS', 'MC_MemFS_quick.cfg', workers=8, timeout=900, name='MemFS transitions for the name-space clause')
    shards, total2, taken2 = vlib.shard_lines(ctx, r2['out'], NPROC, every=8 if q else 2, offset=ctx.seed)
    m2 = vlib.run_sharded(ctx, lambda p: ['fscases', '--in', p, '--backends', 'crypt,cryptx', '--workers', '1'], shards)
    ctx.cov['replay'].append(dict(what='FsTree transitions through EncryptFS', executed=m2['executed'], failures=m2['failures_by_key']))
    ctx.cov['evaluations'] += m2['executed']
    vlib.report_case_failures(ctx, m2, 'FsTree transitions through EncryptFS')
    ctx.cov['rule'] = ('scenarios enumerated by TLC (quick: every 3rd by seed); each expanded to one read per truncation length / flipped byte; '
                       'distinct_nontrivial counts scenarios, evaluations counts reads')
    ctx.assumptions += ['AES-GCM, SHA3 and crypto/rand are trusted; only inequality of two encryptions of equal data is observed',
                        'secrecy = the first 8 plaintext bytes do not occur in the stored bytes (plaintexts >= 8 bytes)']
