"""Shared driver for C06 (commit) and C07 (read-your-writes): one model, one replay;
each property reports its own failures and known findings.
Histories are explored THROUGH the two deviations that concern one of the properties only
(CONSTRAINT Explorable): D_RemoveRemote is about the view (CommitExactRR / FaultReportedRR hold
through it), D_OrderLost is about Commit (ViewEqIdealOL holds through it); so "remove, remove
recursively, commit" and "write, remove recursively, write again, read" are compared too.
Besides the two-level model: a deep SPINE (a, a/b, a/b/a, a/b/b; <= 4 operations, every
transition replayed) and a second instantiation of the names (sub / sub.old: one a string
prefix of the other) for every Commit transition and a quarter of the others."""
import os, json
import vlib

NPROC = 14


def run_cache(ctx, prop):
    q = ctx.quick
    # ---- (M) exhaustive, clean region: RemoteUntouched CommitExact FaultReported CleanCommitNeverFails ViewEqIdeal
    r = ctx.tlc_must_pass('cache', 'Cache', 'MC_Cache_emit.cfg', workers=8, timeout=1800, name='Cache: <=2 ops, <=2 commits, every fault position (emits cases)')
    if not q:
        ctx.tlc_must_pass('cache', 'Cache', 'MC_Cache_thorough.cfg', workers=14, timeout=3000, name='Cache: <=3 ops, <=2 commits, every fault position')
        ctx.tlc_must_pass('cache', 'Cache', 'MC_Cache_deep.cfg', workers=14, timeout=3000, name='Cache: <=4 ops, 1 commit')
    ctx.cov['exhaustive'] = True
    # ---- (R) every transition out of a clean state (incl. the first step into each deviation region)
    shards, total, taken = vlib.shard_lines(ctx, r['out'], NPROC, marker='\\"k\\":\\"cache\\"', every=4 if q else 1, offset=ctx.seed)
    m = vlib.run_sharded(ctx, lambda p: ['cachecases', '--in', p], shards)
    merged = [m]
    ctx.cov['replay'].append(dict(what='transitions of the exhaustive model', model_transitions=total, executed=m['executed'], failures=m['failures_by_key']))
    # ---- a deep spine (three levels, <=4 ops): every transition, names instantiated plainly and as prefix-related names
    rsp = ctx.tlc_must_pass('cache', 'Cache', 'MC_Cache_spine.cfg', workers=8, timeout=1800, name='Cache: spine a, a/b, a/b/a, a/b/b, <=4 ops, 1 commit (emits cases)')
    shards_s, total_s, taken_s = vlib.shard_lines(ctx, rsp['out'], NPROC, marker='\\"k\\":\\"cache\\"')
    ms = vlib.run_sharded(ctx, lambda p: ['cachecases', '--in', p] + (['--naming', 'prefix'] if int(p.rsplit('_', 1)[1].split('.')[0]) % 2 else []), shards_s)
    merged.append(ms)
    ctx.cov['replay'].append(dict(what='transitions of the spine model (three levels)', model_transitions=total_s, executed=ms['executed'], failures=ms['failures_by_key']))
    # prefix-related names for the two-level model as well
    # (every transition that is a Commit -- there the remote is compared -- and every fourth of the others)
    all_lines = [l for l in r['out'].splitlines(True) if '\\"k\\":\\"cache\\"' in l]
    commit_text = ''.join(l for i, l in enumerate(all_lines) if '\\"name\\":\\"commit\\"' in l or i % 4 == ctx.seed % 4)
    shards_p, total_p, taken_p = vlib.shard_lines(ctx, commit_text, NPROC, marker='\\"k\\":\\"cache\\"')
    mp = vlib.run_sharded(ctx, lambda p: ['cachecases', '--in', p, '--naming', 'prefix'], shards_p)
    merged.append(mp)
    ctx.cov['replay'].append(dict(what='transitions of the exhaustive model, names sub / sub.old', executed=mp['executed'], failures=mp['failures_by_key']))
    # ---- deep random behaviours of the model (7 ops, 3 commits, faults), one case per step
    rs = ctx.tlc('cache', 'Cache', 'MC_Cache_sim.cfg', workers=1, timeout=900, simulate='num=%d' % (600 if q else 12000),
                 extra=['-depth', '14', '-seed', str(ctx.seed)], name='Cache: simulated deep behaviours')
    if rs['error'] and 'timeout' not in str(rs['error']):
        raise vlib.Infra('simulation failed: %s' % rs['error'])
    shards2, total2, taken2 = vlib.shard_lines(ctx, rs['out'], NPROC, marker='\\"k\\":\\"cache\\"')
    m2 = vlib.run_sharded(ctx, lambda p: ['cachecases', '--in', p], shards2)
    merged.append(m2)
    ctx.cov['replay'].append(dict(what='steps of simulated deep behaviours', model_steps=total2, executed=m2['executed'], failures=m2['failures_by_key']))
    executed = m['executed'] + m2['executed']
    ctx.cov['evaluations'] += executed
    ctx.cov['distinct_nontrivial'] = executed
    ctx.cov['rule'] = ('cases = model transitions (witness prefix + one cache call or Commit with a fault position); each replays the prefix on a real '
                       'Cache over a fault-injecting remote and compares result, remote, buffer, journals and 6 read-type calls on every path')
    for mm in merged:
        for s in (mm.get('samples') or [])[:1]:
            ctx.sample(s)
    # ---- verdicts: only this property's keys
    for mm in merged:
        mine = dict(mm)
        mine['failures_by_key'] = {k: v for k, v in mm['failures_by_key'].items() if k.startswith(prop) or k.startswith('panic') or k.startswith('infra') or k == 'remote-inconsistent'}
        vlib.report_case_failures(ctx, mine, 'cache replay')
    # documented deviations observed exactly as the implementation model predicts
    drift = {}
    for mm in merged:
        for k, v in (mm.get('known') or {}).items():
            if k.startswith(prop + ':'):
                ctx.failure(k.split(':', 1)[1], 'observed %d time(s) exactly as the implementation model documents it, e.g. %s' % (
                    v, (mm.get('known_examples') or {}).get(k, '')[:700]), (mm.get('known_examples') or {}).get(k, ''))
        for k, v in (mm.get('drift') or {}).items():
            drift[k] = drift.get(k, 0) + v
    ctx.cov['clean_cases'] = sum(mm.get('clean_cases', 0) for mm in merged)
    ctx.cov['deviation_cases'] = sum(mm.get('deviation_cases', 0) for mm in merged)
    if drift:
        ctx.cov['impl_conformance'] = False
        ctx.cov['drift'] = dict(counts=drift, examples=[e for mm in merged for e in (mm.get('drift_examples') or [])][:3])
        vlib.log('DRIFT %s: the real cache no longer follows the implementation layer of Cache.tla step by step: %s' % (prop, drift))
    ctx.assumptions += ['remote = in-memory filespace behind a fault-injecting decorator; a fault = the k-th mutating remote call (Remove, RemoveAll, MkdirAll, Writer) fails before taking effect',
                        'operation set: write, writer, mkdir, remove, recursive remove, file copy, directory copy onto a destination whose existing nodes do not clash in kind with the copied ones; canonical paths (spellings are C03)',
                        'a file is never copied onto itself (finding D_SelfCopyDeadlock)']
    return merged
