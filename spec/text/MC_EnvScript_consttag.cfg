SPECIFICATION Spec
CONSTANTS
  MaxTok = 2
  Variant = "consttag"
  Emit = FALSE
INVARIANT Inv
CHECK_DEADLOCK FALSE
