SPECIFICATION Spec
CONSTANTS
  MaxLen = 5
  Emit = TRUE
  Mode = "all"
  Alphabet = {"sp", "tab", "nl", "q", "bs", "eq", "lt", "a", "E", "hi"}
INVARIANT Inv
CHECK_DEADLOCK FALSE
