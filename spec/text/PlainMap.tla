------------------------------- MODULE PlainMap -------------------------------
(* C20: configuration / translation maps.
   (i)  Flatten (nested map -> dotted keys) and Rebuild are mutually inverse on
        nested maps with dot-free keys and no empty sub-maps, and on prefix-free flat
        maps; leaves are "x","y" (strings), "n1" (a number) or "skip" (a leaf kind
        the JSON reader ignores: bool / null / array).
   (ii) a character-class model of JSON string literals: Escape / Unescape over
        {plain, quote, backslash, control, non-ASCII, slash}; Unescape(Escape(s)) = s.
   (iii) the translation loader is a client of FsLoop (C08): every *.json file of a
        directory tree is selected and merged -- checked on the real loader with the
        same forced schedule.
   TLC enumerates all nested maps over 2 keys up to depth 3 and all class strings up
   to length 4 and prints them as cases; the real functions are compared with these
   operators AND with encoding/json as the independent reference the statement names. *)
EXTENDS Naturals, Sequences, FiniteSets, TLC, Json

CONSTANTS Keys, MaxDepth, MaxStr, Emit, Part,
          MaxDeep     \* Part = "deep": spines of this many levels with a sibling (none / leaf / sub-map) at every level
Leaves == {"x", "y", "n1", "skip"}
\* A nested map is a NODE: [leaf, kids]; a leaf has kids = <<>>, an inner map has leaf = "" and kids = a non-empty
\* function from keys to nodes (uniformly typed records, so TLC can put leaves and sub-maps in one set).
LeafNode(l) == [leaf |-> l, kids |-> << >>]
RECURSIVE Nodes(_)
Nodes(d) == { LeafNode(l) : l \in Leaves } \cup
            (IF d = 0 THEN {} ELSE { [leaf |-> "", kids |-> f] : f \in UNION { [S -> Nodes(d - 1)] : S \in (SUBSET Keys) \ {{}} } })
Maps(d) == { n \in Nodes(d) : n.leaf = "" }
\* deep maps: a spine a.a.a...x of d levels; at every level the spine node may have a sibling b that is a leaf or a
\* small sub-map -- path lengths well beyond the exhaustive depth, where slices of key segments get re-used
SibChoices == { << >>, ("b" :> LeafNode("y")), ("b" :> [leaf |-> "", kids |-> ("a" :> LeafNode("n1") @@ "b" :> LeafNode("x"))]) }
RECURSIVE Spine(_)
Spine(d) == IF d = 0 THEN { LeafNode("x") }
            ELSE UNION { { [leaf |-> "", kids |-> ("a" :> t) @@ sib] : sib \in SibChoices } : t \in Spine(d - 1) }
IsLeaf(n) == n.leaf # ""
\* flat map: function from key paths (sequences) to leaves
RECURSIVE FlatPairs(_, _)
FlatPairs(n, prefix) == UNION { IF IsLeaf(n.kids[k]) THEN { <<Append(prefix, k), n.kids[k].leaf>> } ELSE FlatPairs(n.kids[k], Append(prefix, k)) : k \in DOMAIN n.kids }
PairFor(ps, p) == CHOOSE x \in ps : x[1] = p
Flatten(n) == LET ps == FlatPairs(n, <<>>) IN [p \in { x[1] : x \in ps } |-> PairFor(ps, p)[2]]
RECURSIVE Rebuild(_)
Rebuild(f) == LET heads == { p[1] : p \in DOMAIN f } IN
              [leaf |-> "", kids |->
                 [k \in heads |-> IF <<k>> \in DOMAIN f THEN LeafNode(f[<<k>>])
                                  ELSE Rebuild([q \in { Tail(p) : p \in { p \in DOMAIN f : p[1] = k } } |-> f[<<k>> \o q]])]]
PrefixFree(f) == \A p, q \in DOMAIN f : p # q => ~(Len(p) < Len(q) /\ SubSeq(q, 1, Len(p)) = p)
\* what the JSON reader keeps: string and number leaves
Readable(f) == [p \in { p \in DOMAIN f : f[p] # "skip" } |-> f[p]]

\* ---- JSON string literals over character classes
Classes == {"plain", "quote", "bslash", "ctl", "hi", "slash"}
Strs == UNION { [1..n -> Classes] : n \in 0..MaxStr }
RECURSIVE Escape(_)
Escape(s) == IF s = <<>> THEN <<>> ELSE
             (CASE Head(s) = "quote" -> <<"E", "quote">> [] Head(s) = "bslash" -> <<"E", "bslash">>
                [] Head(s) = "ctl" -> <<"E", "u">> [] OTHER -> <<Head(s)>>) \o Escape(Tail(s))
RECURSIVE Unescape(_)
Unescape(e) == IF e = <<>> THEN <<>> ELSE
               IF Head(e) = "E" THEN <<(IF e[2] = "u" THEN "ctl" ELSE e[2])>> \o Unescape(Tail(Tail(e)))
               ELSE <<Head(e)>> \o Unescape(Tail(e))
ValidLiteral(e) == \A i \in 1..Len(e) : e[i] \notin {"ctl"} /\ (e[i] \in {"quote", "bslash"} => (i > 1 /\ e[i-1] = "E"))

VARIABLES m, s
Init == (IF Part = "maps" THEN m \in Maps(MaxDepth) /\ s = <<>>
         ELSE IF Part = "deep" THEN m \in UNION { Spine(d) : d \in 2..MaxDeep } /\ s = <<>>
         ELSE m \in Maps(1) /\ s \in Strs)
Next == UNCHANGED <<m, s>>
Spec == Init /\ [][Next]_<<m, s>>
Inverse1 == Rebuild(Flatten(m)) = m
Inverse2 == PrefixFree(Flatten(m)) /\ Flatten(Rebuild(Flatten(m))) = Flatten(m)
EscapeRoundTrip == Unescape(Escape(s)) = s /\ ValidLiteral(Escape(s))
FlatJson(f) == { [path |-> p, leaf |-> f[p]] : p \in DOMAIN f }
EmitCase == Emit => PrintT(IF Part \in {"maps", "deep"} THEN ToJson([k |-> "pm", nested |-> m, flat |-> FlatJson(Flatten(m)), readable |-> FlatJson(Readable(Flatten(m)))])
                          ELSE ToJson([k |-> "ps", str |-> s, escaped |-> Escape(s)]))
Inv == Inverse1 /\ Inverse2 /\ EscapeRoundTrip /\ EmitCase
=============================================================================
