SPECIFICATION Spec
CONSTANTS
  Keys = {"a", "b"}
  MaxDepth = 2
  MaxStr = 0
  Emit = TRUE
  MaxDeep = 7
  Part = "deep"
INVARIANT Inv
CHECK_DEADLOCK FALSE
