------------------------------ MODULE EnvScript ------------------------------
(* C18: the start-up script that feeds environment values to a sandbox shell.
   THIN by design -- the decisive fact is how the real /bin/sh reads the script,
   which the harness establishes by executing it.  The specification says four
   things: (1) the builders' output grammar, per variable
          K=$(cat <<'TAG'  /  value lines  /  TAG  /  )  /  export K
   (2) a heredoc with a QUOTED delimiter is literal up to a line equal to TAG,
   while an unquoted one expands $VAR, `cmd`, $(cmd) and backslashes,
   (3) $( ) strips trailing newlines, (4) names must be identifiers.
   Values are sequences of TOKENS: "dollar" ($CANARYVAR), "bq" (`touch c`), "cmd"
   ($(touch c)), "sq", "dq", "bs", "nl", "tab" (a leading tab is what <<- would strip), "EOF" (the three letters), "a", "semi".
   TLC checks Decode(Build(env)) = env up to trailing newlines and that nothing ran,
   for every map of <=2 variables with values of <=MaxTok tokens; Variant
   "unquoted" (SSH builder before the fix) and "consttag" (terminator = the constant
   EOF) must violate it. *)
EXTENDS Naturals, Sequences, FiniteSets, TLC, Json

CONSTANTS MaxTok, Variant, Emit
Tokens == {"dollar", "bq", "cmd", "sq", "dq", "bs", "nl", "tab", "EOF", "a", "semi"}
Values == UNION { [1..n -> Tokens] : n \in 0..MaxTok }
Active == {"dollar", "bq", "cmd", "bs"}            \* interpreted inside an unquoted heredoc
Runs == {"bq", "cmd"}                                \* would run a command
Tag == IF Variant = "consttag" THEN <<"EOF">> ELSE <<"TAG">>

\* split a value into lines at "nl"
RECURSIVE Lines(_, _)
Lines(v, cur) == IF v = <<>> THEN <<cur>> ELSE IF Head(v) = "nl" THEN <<cur>> \o Lines(Tail(v), <<>>) ELSE Lines(Tail(v), Append(cur, Head(v)))
\* the heredoc body as the shell sees it: lines up to (not including) the first line equal to the tag
RECURSIVE Upto(_)
Upto(ls) == IF ls = <<>> \/ Head(ls) = Tag THEN <<>> ELSE <<Head(ls)>> \o Upto(Tail(ls))
RECURSIVE Join(_)
Join(ls) == IF ls = <<>> THEN <<>> ELSE Head(ls) \o (IF Len(ls) > 1 THEN <<"nl">> ELSE <<>>) \o Join(Tail(ls))
RECURSIVE StripNL(_)
StripNL(v) == IF v # <<>> /\ v[Len(v)] = "nl" THEN StripNL(SubSeq(v, 1, Len(v) - 1)) ELSE v
Expand(v) == IF Variant = "unquoted" THEN SelectSeq(v, LAMBDA t : t \notin Active) ELSE v     \* active tokens do not survive as data
\* the script lines of one variable and what the shell assigns from them
BodyLines(v) == Lines(v, <<>>) \o <<Tag>>
Assigned(v) == StripNL(Expand(Join(Upto(BodyLines(v)))))
Ran(v) == Variant = "unquoted" /\ \E i \in 1..Len(Join(Upto(BodyLines(v)))) : Join(Upto(BodyLines(v)))[i] \in Runs
\* what is left after the terminating line would be executed as shell text (only when the value ended the heredoc early)
Leaks(v) == Len(Upto(BodyLines(v))) < Len(Lines(v, <<>>))

VARIABLES v1, v2
Init == v1 \in Values /\ v2 \in Values
Next == UNCHANGED <<v1, v2>>
Spec == Init /\ [][Next]_<<v1, v2>>
Verbatim == Assigned(v1) = StripNL(v1) /\ Assigned(v2) = StripNL(v2)
NothingRuns == ~Ran(v1) /\ ~Ran(v2) /\ ~Leaks(v1) /\ ~Leaks(v2)
EmitCase == Emit => PrintT(ToJson([k |-> "env", A |-> v1, B |-> v2, expectA |-> StripNL(v1), expectB |-> StripNL(v2)]))
Inv == Verbatim /\ NothingRuns /\ EmitCase
=============================================================================
