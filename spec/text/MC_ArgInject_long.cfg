SPECIFICATION Spec
CONSTANTS
  MaxArgLen = 3
  MaxArgs = 13
  Emit = TRUE
  Mode = "long"
INVARIANT Inv
CHECK_DEADLOCK FALSE
