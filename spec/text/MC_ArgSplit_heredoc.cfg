SPECIFICATION Spec
CONSTANTS
  MaxLen = 6
  Emit = TRUE
  Mode = "heredoc"
  Alphabet = {"sp", "nl", "q", "a", "E", "hi"}
INVARIANT Inv
CHECK_DEADLOCK FALSE
