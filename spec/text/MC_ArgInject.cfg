SPECIFICATION Spec
CONSTANTS
  MaxArgLen = 3
  MaxArgs = 2
  Emit = TRUE
INVARIANT Inv
CHECK_DEADLOCK FALSE
