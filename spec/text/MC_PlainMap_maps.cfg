SPECIFICATION Spec
CONSTANTS
  Keys = {"a", "b"}
  MaxDepth = 3
  MaxStr = 0
  Emit = TRUE
  MaxDeep = 0
  Part = "maps"
INVARIANT Inv
CHECK_DEADLOCK FALSE
