------------------------------ MODULE ArgSplit ------------------------------
(* C17: command-line splitting (varutil.ReadArguments) as a byte-at-a-time machine.
   Input: a sequence of byte SYMBOLS: "sp" blank, "tab", "nl", "q" double quote,
   "bs" backslash, "eq" '=', "lt" '<', letters "a" "E", and "hi" (a non-ASCII byte).
   Modes: plain, quote, marker (after name=<<), body (heredoc text).
   Run(input) = [args, status, rest]: status "nl" (stopped exactly at the command's
   newline, rest = the unread bytes), "eof" (input exhausted), "err".
   An argument is a sequence of symbols (so a non-ASCII byte stays ONE symbol:
   byte preservation).  Escapes: outside quotes a backslash makes the next byte
   literal (backslash-newline continues the line, an escaped blank still separates);
   inside quotes a backslash is dropped and the next non-backslash byte is literal.
   TLC enumerates every input up to a bound and prints the expected result. *)
EXTENDS Naturals, Sequences, FiniteSets, TLC, Json

CONSTANTS MaxLen, Emit, Alphabet, Mode

Letters == {"a", "E"}
Blank(c) == c \in {"sp", "tab"}
EndsWith(s, suf) == Len(s) >= Len(suf) /\ SubSeq(s, Len(s) - Len(suf) + 1, Len(s)) = suf
DropLast(s, n) == SubSeq(s, 1, Len(s) - n)
RECURSIVE TrimL(_)
TrimL(s) == IF s # <<>> /\ Blank(Head(s)) THEN TrimL(Tail(s)) ELSE s
RECURSIVE TrimR(_)
TrimR(s) == IF s # <<>> /\ Blank(s[Len(s)]) THEN TrimR(DropLast(s, 1)) ELSE s
Trim(s) == TrimR(TrimL(s))
SetLast(args, v) == [args EXCEPT ![Len(args)] = v]
Cur(args) == args[Len(args)]

S0 == [mode |-> "plain", esc |-> FALSE, sep |-> TRUE, args |-> <<>>, mk |-> <<>>, val |-> <<>>, base |-> <<>>, status |-> "run"]

Step(st, c) ==
  CASE st.mode = "plain" ->
         IF c = "nl" THEN (IF st.esc THEN [st EXCEPT !.esc = FALSE] ELSE [st EXCEPT !.status = "nl"])
         ELSE IF Blank(c) THEN [st EXCEPT !.esc = FALSE, !.sep = TRUE]
         ELSE IF ~st.esc /\ c = "bs" THEN [st EXCEPT !.esc = TRUE]
         ELSE LET a == IF st.sep THEN Append(st.args, <<>>) ELSE st.args IN
              IF ~st.esc /\ c = "q" THEN [st EXCEPT !.args = a, !.mode = "quote", !.sep = FALSE]
              ELSE IF ~st.esc /\ c = "lt" /\ EndsWith(Cur(a), <<"eq", "lt">>)
                   THEN [st EXCEPT !.args = a, !.mode = "marker", !.base = DropLast(Cur(a), 1), !.mk = <<>>]
              ELSE [st EXCEPT !.args = SetLast(a, Append(Cur(a), c)), !.esc = FALSE, !.sep = FALSE]
    [] st.mode = "quote" ->
         IF ~st.esc /\ c = "q" THEN [st EXCEPT !.mode = "plain", !.esc = FALSE, !.sep = FALSE]
         ELSE IF c = "bs" THEN [st EXCEPT !.esc = TRUE]
         ELSE [st EXCEPT !.args = SetLast(st.args, Append(Cur(st.args), c)), !.esc = FALSE]
    [] st.mode = "marker" ->
         IF c = "nl" THEN (IF st.mk = <<>> THEN [st EXCEPT !.status = "err"] ELSE [st EXCEPT !.mode = "body", !.val = <<>>])
         ELSE IF c \in Letters THEN [st EXCEPT !.mk = Append(st.mk, c)]
         ELSE IF Blank(c) THEN st
         ELSE [st EXCEPT !.status = "err"]
    [] OTHER ->   \* body
         LET v == Append(st.val, c) IN
         IF EndsWith(v, <<"nl">> \o st.mk)
         THEN [st EXCEPT !.mode = "plain", !.val = <<>>,
                         !.args = SetLast(st.args, st.base \o Trim(DropLast(v, Len(st.mk) + 1)))]
         ELSE [st EXCEPT !.val = v]

RECURSIVE RunFrom(_, _, _)
RunFrom(input, i, st) ==
  IF st.status # "run" THEN [args |-> IF st.status = "err" THEN <<>> ELSE st.args, status |-> st.status, rest |-> SubSeq(input, i, Len(input))]
  ELSE IF i > Len(input) THEN
       IF st.mode = "plain" THEN [args |-> st.args, status |-> "eof", rest |-> <<>>]
       ELSE [args |-> <<>>, status |-> "err", rest |-> <<>>]
  ELSE RunFrom(input, i + 1, Step(st, input[i]))
Run(input) == RunFrom(input, 1, S0)

\* ---- the reference quoting function and the clauses of the property
RECURSIVE EscQ(_)
EscQ(s) == IF s = <<>> THEN <<>> ELSE (IF Head(s) = "q" THEN <<"bs", "q">> ELSE <<Head(s)>>) \o EscQ(Tail(s))
Quote(a) == <<"q">> \o EscQ(a) \o <<"q">>
RECURSIVE Render(_)
Render(args) == IF args = <<>> THEN <<>> ELSE Quote(Head(args)) \o (IF Len(args) > 1 THEN <<"sp">> ELSE <<>>) \o Render(Tail(args))
RECURSIVE Flatten(_)
Flatten(args) == IF args = <<>> THEN <<>> ELSE Head(args) \o Flatten(Tail(args))
RECURSIVE IsSubseq(_, _)
IsSubseq(a, b) == IF a = <<>> THEN TRUE ELSE IF b = <<>> THEN FALSE
                  ELSE IF Head(a) = Head(b) THEN IsSubseq(Tail(a), Tail(b)) ELSE IsSubseq(a, Tail(b))

VARIABLE input
\* Mode "all": every input up to MaxLen; Mode "heredoc": the prefix  a=<<  followed by every input up to MaxLen
Inputs == IF Mode = "heredoc" THEN { <<"a", "eq", "lt", "lt">> \o s : s \in UNION { [1..n -> Alphabet] : n \in 0..MaxLen } }
          ELSE UNION { [1..n -> Alphabet] : n \in 0..MaxLen }
Init == input \in Inputs
Next == UNCHANGED input
Spec == Init /\ [][Next]_input

R == Run(input)
Total == R.status \in {"nl", "eof", "err"}
BytePreserving == R.status # "err" => IsSubseq(Flatten(R.args), input)
StopsAtNewline == R.status = "nl" => Len(R.rest) < Len(input) /\ input[Len(input) - Len(R.rest)] = "nl"
\* a heredoc argument is the text between the marker lines, trimmed of surrounding blanks
HeredocClause == (Mode = "heredoc" /\ R.status # "err" /\ R.args # <<>>) => SubSeq(R.args[1], 1, 2) = <<"a", "eq">>
PlainWordsUnchanged == (\A i \in 1..Len(input) : input[i] \in {"a", "E", "hi", "eq", "sp", "tab"}) =>
                          /\ R.status = "eof"
                          /\ Flatten(R.args) = SelectSeq(input, LAMBDA c : ~Blank(c))
EmitCase == Emit => PrintT(ToJson([k |-> "arg", input |-> input, args |-> R.args, status |-> R.status, rest |-> R.rest]))
Inv == Total /\ BytePreserving /\ StopsAtNewline /\ PlainWordsUnchanged /\ HeredocClause /\ EmitCase

\* reversibility: every argument list over a small alphabet, rendered and split again
ArgAlphabet == {"a", "sp", "q", "hi", "eq", "tab", "nl", "lt"}
SmallArgs == UNION { [1..n -> ArgAlphabet] : n \in 0..2 }
ArgLists == UNION { [1..n -> SmallArgs] : n \in 1..2 }
Reversible == \A al \in ArgLists : LET r == Run(Render(al) \o <<"nl", "a">>) IN r.args = al /\ r.status = "nl" /\ r.rest = <<"a">>
ASSUME Reversible
=============================================================================
