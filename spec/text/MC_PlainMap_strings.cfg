SPECIFICATION Spec
CONSTANTS
  Keys = {"a"}
  MaxDepth = 1
  MaxStr = 4
  Emit = TRUE
  MaxDeep = 0
  Part = "strings"
INVARIANT Inv
CHECK_DEADLOCK FALSE
