SPECIFICATION Spec
CONSTANTS
  Keys = {"a"}
  MaxDepth = 1
  MaxStr = 4
  Emit = TRUE
  Part = "strings"
INVARIANT Inv
CHECK_DEADLOCK FALSE
