SPECIFICATION Spec
CONSTANTS
  MaxTok = 2
  Variant = "quoted"
  Emit = TRUE
INVARIANT Inv
CHECK_DEADLOCK FALSE
