SPECIFICATION Spec
CONSTANTS
  MaxTok = 3
  Variant = "quoted"
  Emit = TRUE
INVARIANT Inv
CHECK_DEADLOCK FALSE
