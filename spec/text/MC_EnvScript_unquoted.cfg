SPECIFICATION Spec
CONSTANTS
  MaxTok = 2
  Variant = "unquoted"
  Emit = FALSE
INVARIANT Inv
CHECK_DEADLOCK FALSE
