------------------------------ MODULE ArgInject ------------------------------
(* C17, second half: mapping of split arguments into the argument data scope
   (argscope.InjectArgs).  Arguments are sequences of symbols over {"-","=","a","b"}.
   Everything after the first "--" goes to the key "--" unchanged; an argument
   containing "=" is named: up to two leading "-" are dropped, key = text before
   the first "=", value = text after it; the others are positional $0, $1, ... in
   order.  A later named argument with the same key overrides an earlier one.
   Mode = "full": every list of <= MaxArgs arguments of <= MaxArgLen symbols.
   Mode = "long": long lists (<= MaxArgs, e.g. 13) whose i-th argument is either
   positional ("a" at odd, "b" at even positions) or the named "a=b": more than ten
   positional arguments ($10, $11, ...), named ones in between. *)
EXTENDS Naturals, Sequences, FiniteSets, TLC, Json
CONSTANTS MaxArgLen, MaxArgs, Emit, Mode
Sym == {"-", "eq", "a", "b"}
Args == UNION { [1..n -> Sym] : n \in 0..MaxArgLen }
PosAt(i) == IF i % 2 = 1 THEN <<"a">> ELSE <<"b">>
NamedAB == <<"a", "eq", "b">>
Lists == IF Mode = "long"
         THEN UNION { { f \in [1..n -> {<<"a">>, <<"b">>, NamedAB}] : \A i \in 1..n : f[i] \in {PosAt(i), NamedAB} } : n \in 0..MaxArgs }
         ELSE UNION { [1..n -> Args] : n \in 0..MaxArgs }
DD == <<"-", "-">>
IdxDD(l) == IF \E i \in 1..Len(l) : l[i] = DD THEN CHOOSE i \in 1..Len(l) : l[i] = DD /\ \A j \in 1..(i-1) : l[j] # DD ELSE 0
Before(l) == IF IdxDD(l) = 0 THEN l ELSE SubSeq(l, 1, IdxDD(l) - 1)
After(l) == IF IdxDD(l) = 0 THEN <<>> ELSE SubSeq(l, IdxDD(l) + 1, Len(l))
HasEq(a) == \E i \in 1..Len(a) : a[i] = "eq"
Strip1(a) == IF a # <<>> /\ Head(a) = "-" THEN Tail(a) ELSE a
Stripped(a) == Strip1(Strip1(a))
EqPos(a) == CHOOSE i \in 1..Len(a) : a[i] = "eq" /\ \A j \in 1..(i-1) : a[j] # "eq"
KeyOf(a) == SubSeq(Stripped(a), 1, EqPos(Stripped(a)) - 1)
ValOf(a) == SubSeq(Stripped(a), EqPos(Stripped(a)) + 1, Len(Stripped(a)))
Positional(l) == SelectSeq(Before(l), LAMBDA a : ~HasEq(a))
NamedSeq(l) == SelectSeq(Before(l), LAMBDA a : HasEq(a))
\* last definition of a key wins
Named(l) == LET ns == NamedSeq(l) IN
            { [k |-> KeyOf(ns[i]), v |-> ValOf(ns[i])] : i \in { i \in 1..Len(ns) : \A j \in (i+1)..Len(ns) : KeyOf(ns[j]) # KeyOf(ns[i]) } }
VARIABLE l
Init == l \in Lists
Next == UNCHANGED l
Spec == Init /\ [][Next]_l
\* every argument is accounted for exactly once
Partition == Len(Positional(l)) + Len(NamedSeq(l)) + Len(After(l)) + (IF IdxDD(l) = 0 THEN 0 ELSE 1) = Len(l)
EmitCase == Emit => PrintT(ToJson([k |-> "inject", args |-> l, named |-> Named(l), pos |-> Positional(l), tail |-> After(l)]))
Inv == Partition /\ EmitCase
=============================================================================
