SPECIFICATION Spec
CONSTANTS
  Chunks = {"e", "s", "L"}
  PreStates = {"none", "empty", "short", "long"}
  MaxChunks = 3
  BufPatterns = {"one", "small", "mixed", "huge"}
  Variant = "replace"
  Emit = TRUE
INVARIANTS Replaces ReadsBack OneHandle
