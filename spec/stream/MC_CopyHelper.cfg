SPECIFICATION Spec
CONSTANTS
  Names = {"a", "b"}
  MaxDepth = 2
  MaxNodes = 3
  Variant = "current"
  Emit = TRUE
INVARIANTS OkMeansComplete NoFaultMeansOk KeepsUnrelated
