----------------------------- MODULE CopyHelper -----------------------------
(* C04, second half: the stream based copy helpers (fshelper.StreamCopy,
   Copier.Do, fshelper.Copy) as programs that transfer the nodes of a source
   tree one primitive call at a time, in the arbitrary order of the tree walk,
   with at most one injected failure.  Property: the helper reports an error
   whenever the destination is not a complete copy of the source
   (result ok => every source node is in the destination with equal content);
   stale destination content is replaced (longer content, and content of exactly
   the same length written after the source), unrelated destination content stays.
   Variant "swallow" (a helper that drops the walk's errors) is the regression
   model.  Each (source tree, destination pre-state, helper) is printed as a
   scenario; the harness expands every fault position on the real calls. *)
EXTENDS FsTree, TLC, Json

CONSTANTS Names, MaxDepth, MaxNodes, Variant, Emit

Paths == UNION { [1..n -> Names] : n \in 1..MaxDepth }
Shapes == { t \in UNION { [S -> {"D", "x", "y"}] : S \in { S \in SUBSET Paths : Cardinality(S) <= MaxNodes } } : Wf(t) }
DestPre == {"empty", "stale", "samelen", "extra"}
Helpers == {"fscopy", "copierdir", "copierfile", "streamcopy"}

VARIABLES src, dpre, helper, dest, fault, done, failed, res
vars == <<src, dpre, helper, dest, fault, done, failed, res>>

Files(t) == { p \in DOMAIN t : t[p] # "D" }
PreTree(t, pre) ==
  CASE pre = "empty" -> EmptyTree
    [] pre = "stale" -> [p \in Files(t) \cup UNION { ProperPrefixes(q) : q \in Files(t) } |-> IF p \in Files(t) THEN "stale-and-longer" ELSE "D"]
    \* every file is there already, written later than the source, with the SAME LENGTH but other bytes
    \* (a helper must not take size and time for content)
    [] pre = "samelen" -> [p \in Files(t) \cup UNION { ProperPrefixes(q) : q \in Files(t) } |-> IF p \in Files(t) THEN "same-" \o t[p] ELSE "D"]
    [] pre = "extra" -> (<<"zz">> :> "D" @@ <<"zz", "keep">> :> "k")
\* what the helper has to transfer
Work(t, h) == IF h \in {"copierfile", "streamcopy"} THEN { CHOOSE p \in Files(t) : TRUE } ELSE DOMAIN t

Init == /\ src \in Shapes /\ dpre \in DestPre /\ helper \in Helpers
        /\ (helper \in {"copierfile", "streamcopy"} => Files(src) # {})
        /\ dest = PreTree(src, dpre) /\ fault \in Work(src, helper) \cup {<<>>}   \* <<>> = no fault
        /\ done = {} /\ failed = FALSE /\ res = "running"
        /\ (Emit /\ fault = <<>> => PrintT(ToJson([k |-> "copy", src |-> { <<p, src[p]>> : p \in DOMAIN src }, dpre |-> dpre,
                                                    pre |-> { <<p, dest[p]>> : p \in DOMAIN dest }, helper |-> helper,
                                                    work |-> Work(src, helper)])))

Transfer(n) == /\ res = "running" /\ n \in Work(src, helper) \ done /\ ~failed
               /\ done' = done \cup {n}
               /\ IF n = fault THEN failed' = TRUE /\ UNCHANGED dest
                  ELSE /\ UNCHANGED failed
                       /\ dest' = Ext(MkDirs(dest, ProperPrefixes(n)), [x \in {n} |-> src[n]])
               /\ UNCHANGED <<src, dpre, helper, fault, res>>
Finish == /\ res = "running" /\ (failed \/ done = Work(src, helper))
          /\ res' = IF failed /\ Variant # "swallow" THEN "err" ELSE "ok"
          /\ UNCHANGED <<src, dpre, helper, dest, fault, done, failed>>
Next == (\E n \in DOMAIN src : Transfer(n)) \/ Finish \/ (res # "running" /\ UNCHANGED vars)
Spec == Init /\ [][Next]_vars

Complete == \A n \in Work(src, helper) : n \in DOMAIN dest /\ dest[n] = src[n]
OkMeansComplete == res = "ok" => Complete
NoFaultMeansOk == (res # "running" /\ fault = <<>>) => (res = "ok" /\ Complete)
KeepsUnrelated == dpre = "extra" => (<<"zz", "keep">> \in DOMAIN dest /\ dest[<<"zz", "keep">>] = "k")
=============================================================================
