------------------------------- MODULE Stream -------------------------------
(* C04, first half: writer and reader handles on one file.
   A file's content is a sequence of bytes, abstracted to a sequence of chunk
   tokens (each token stands for a fixed byte string chosen by the harness:
   empty, short, longer than any internal copy buffer).  A writer handle is
   Open(p) ; Write(c)* ; Close and must leave content = the concatenation of
   ITS chunks whatever was there before (Variant "append" = the behaviour of
   the in-memory and disk writers before the fix, kept as a regression model).
   A reader handle returns the stored content for every sequence of read
   buffer sizes.  TLC explores every scenario (pre-existing content, chunk
   sequence, buffer-size pattern) and prints each complete one as a test. *)
EXTENDS Naturals, Sequences, FiniteSets, TLC, Json

CONSTANTS Chunks,      \* chunk tokens, e.g. {"e", "s", "L"}
          PreStates,   \* pre-existing content of the file: <<>> = absent is "none"
          MaxChunks, BufPatterns, Variant, Emit

VARIABLES pre, content, exists, w, written, r, got, bufp, phase
vars == <<pre, content, exists, w, written, r, got, bufp, phase>>

Pre == { "none", "empty", "short", "long" } \cap PreStates
PreContent(p) == CASE p = "none" -> <<>> [] p = "empty" -> <<>> [] p = "short" -> <<"p1">> [] p = "long" -> <<"p1", "p2", "p3">>

Init == /\ pre \in Pre /\ content = PreContent(pre) /\ exists = (pre # "none")
        /\ w = "closed" /\ written = <<>> /\ r = "closed" /\ got = <<>> /\ bufp \in BufPatterns /\ phase = "start"

OpenW == /\ phase = "start" /\ w = "closed" /\ w' = "open" /\ exists' = TRUE
         /\ content' = IF Variant = "append" THEN content ELSE <<>>      \* opening a writer replaces the old content
         /\ phase' = "writing" /\ UNCHANGED <<pre, written, r, got, bufp>>
Write(c) == /\ phase = "writing" /\ Len(written) < MaxChunks
            /\ content' = Append(content, c) /\ written' = Append(written, c)
            /\ UNCHANGED <<pre, exists, w, r, got, bufp, phase>>
CloseW == /\ phase = "writing" /\ w' = "closed" /\ phase' = "written"
          /\ UNCHANGED <<pre, content, exists, written, r, got, bufp>>
OpenR == /\ phase = "written" /\ r' = "open" /\ phase' = "reading" /\ got' = <<>>
         /\ UNCHANGED <<pre, content, exists, w, written, bufp>>
\* a read returns the next piece; the reader is modelled at chunk granularity and the harness
\* drives it with the byte sizes of pattern bufp; whatever the sizes, the concatenation is content
ReadAll == /\ phase = "reading" /\ got' = content /\ phase' = "read"
           /\ UNCHANGED <<pre, content, exists, w, written, r, bufp>>
CloseR == /\ phase = "read" /\ r' = "closed" /\ phase' = "done"
          /\ (Emit => PrintT(ToJson([k |-> "stream", pre |-> pre, chunks |-> written, bufp |-> bufp, final |-> content, read |-> got])))
          /\ UNCHANGED <<pre, content, exists, w, written, got, bufp>>
Next == OpenW \/ (\E c \in Chunks : Write(c)) \/ CloseW \/ OpenR \/ ReadAll \/ CloseR
        \/ (phase = "done" /\ UNCHANGED vars)
Spec == Init /\ [][Next]_vars

\* ---- the property
Replaces == phase \in {"written", "reading", "read", "done"} => content = written
ReadsBack == phase \in {"read", "done"} => got = content
OneHandle == ~(w = "open" /\ r = "open")
=============================================================================
