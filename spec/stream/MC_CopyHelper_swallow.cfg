SPECIFICATION Spec
CONSTANTS
  Names = {"a", "b"}
  MaxDepth = 2
  MaxNodes = 3
  Variant = "swallow"
  Emit = FALSE
INVARIANTS OkMeansComplete NoFaultMeansOk KeepsUnrelated
