---------------------------- MODULE WaitGroupsGet ----------------------------
(* Extension X08, lock layer: the lazy creation of a named wait group.
   ScopeWaitManager.get(name):   lock ; wg = groups[name] ; if wg == nil { wg = new ; groups[name] = wg } ; unlock
   Workers call Add(name) ; (work) ; Done(name); a waiter calls Wait(name).  Each call first
   obtains the group object with get and then acts on THAT object.
   Variant "locked": get is one step (the code).  Variant "nolock": the lookup and the
   store are separate steps (a get without the mutex): two first users can create two
   objects, one of which is lost -- a waiter then watches a counter that a worker never
   touched and returns while that worker is still busy. *)
EXTENDS Naturals, FiniteSets, TLC
CONSTANTS Workers, Variant
VARIABLES groups,   \* 0 = no object yet, else the object id stored under the name
          nobj,     \* objects created so far
          objcnt,   \* object id -> counter
          pc, obj,  \* per process: program counter, object obtained by get
          busy,     \* ghost: workers between their Add and their Done
          early     \* ghost: the waiter returned while a worker was busy
W == "waiter"
Procs == Workers \cup {W}
vars == <<groups, nobj, objcnt, pc, obj, busy, early>>
MaxObj == Cardinality(Procs) * 2
Init == /\ groups = 0 /\ nobj = 0 /\ objcnt = [o \in 1..MaxObj |-> 0]
        /\ pc = [p \in Procs |-> "get1"] /\ obj = [p \in Procs |-> 0] /\ busy = {} /\ early = FALSE
After(p) == IF pc[p] = "get1" THEN (IF p = W THEN "wait" ELSE "add") ELSE "done"
Store(p) == IF pc[p] = "get1" THEN "store1" ELSE "store2"
\* get, locked: lookup and creation in one step
GetLocked(p) == /\ Variant = "locked" /\ pc[p] \in {"get1", "get2"}
                /\ IF groups = 0
                     THEN nobj' = nobj + 1 /\ groups' = nobj + 1 /\ obj' = [obj EXCEPT ![p] = nobj + 1]
                     ELSE UNCHANGED <<nobj, groups>> /\ obj' = [obj EXCEPT ![p] = groups]
                /\ pc' = [pc EXCEPT ![p] = After(p)] /\ UNCHANGED <<objcnt, busy, early>>
\* get, no lock: lookup ...
GetRead(p) == /\ Variant = "nolock" /\ pc[p] \in {"get1", "get2"}
              /\ IF groups = 0
                   THEN nobj' = nobj + 1 /\ obj' = [obj EXCEPT ![p] = nobj + 1] /\ pc' = [pc EXCEPT ![p] = Store(p)]
                   ELSE UNCHANGED nobj /\ obj' = [obj EXCEPT ![p] = groups] /\ pc' = [pc EXCEPT ![p] = After(p)]
              /\ UNCHANGED <<groups, objcnt, busy, early>>
\* ... and store
GetStore(p) == /\ pc[p] \in {"store1", "store2"} /\ groups' = obj[p]
               /\ pc' = [pc EXCEPT ![p] = IF pc[p] = "store1" THEN (IF p = W THEN "wait" ELSE "add") ELSE "done"]
               /\ UNCHANGED <<nobj, objcnt, obj, busy, early>>
DoAdd(p) == /\ pc[p] = "add" /\ objcnt' = [objcnt EXCEPT ![obj[p]] = @ + 1] /\ busy' = busy \cup {p}
            /\ pc' = [pc EXCEPT ![p] = "get2"] /\ UNCHANGED <<groups, nobj, obj, early>>
DoDone(p) == /\ pc[p] = "done" /\ objcnt[obj[p]] > 0
             /\ objcnt' = [objcnt EXCEPT ![obj[p]] = @ - 1] /\ busy' = busy \ {p}
             /\ pc' = [pc EXCEPT ![p] = "end"] /\ UNCHANGED <<groups, nobj, obj, early>>
DoWait == /\ pc[W] = "wait" /\ objcnt[obj[W]] = 0 /\ early' = (busy # {})
          /\ pc' = [pc EXCEPT ![W] = "end"] /\ UNCHANGED <<groups, nobj, objcnt, obj, busy>>
Next == (\E p \in Procs : GetLocked(p) \/ GetRead(p) \/ GetStore(p))
        \/ (\E p \in Workers : DoAdd(p) \/ DoDone(p)) \/ DoWait
        \/ ((\A p \in Procs : pc[p] = "end") /\ UNCHANGED vars)
Spec == Init /\ [][Next]_vars /\ WF_vars(Next)
\* ---- properties
NoEarlyReturn == ~early
OneObject == nobj <= 1
\* a Done never finds its counter at zero (sync.WaitGroup panics: negative counter)
NoNegative == \A p \in Workers : pc[p] = "done" => objcnt[obj[p]] > 0
EveryoneEnds == <>(\A p \in Procs : pc[p] = "end")
=============================================================================
