----------------------------- MODULE EventScope -----------------------------
(* Extension X01: event scopes (app/scope/eventscope), on which the close protocol of
   C11 and the kill / stop / error events rest.
   A chain of event scopes R <- C <- G (C = NewChild(R), G = NewChild(C)).  On(s, e, l)
   appends listener l to the list of event e at scope s.  Trigger(s, e) runs the
   listeners of e registered at the ROOT of s's chain first, then down to s itself,
   each list in registration order; it stops at the first listener that fails and
   returns that failure; listeners of other events and of scopes below s are not run.
   TLC enumerates every registration state of at most MaxReg listeners and every
   Trigger in it; each is emitted as a test for the real scopes. *)
EXTENDS Naturals, Sequences, FiniteSets, TLC, Json
CONSTANTS MaxReg
Scopes == <<"R", "C", "G">>                 \* index = depth
Events == {"e", "f"}
VARIABLES reg,        \* [scope index -> [event -> sequence of listener ids]]
          fails,      \* ids of the listeners that fail
          n
vars == <<reg, fails, n>>
Init == reg = [i \in 1..3 |-> [e \in Events |-> <<>>]] /\ fails = {} /\ n = 0
On(i, e, f) == /\ n < MaxReg /\ n' = n + 1
               /\ reg' = [reg EXCEPT ![i][e] = Append(@, n + 1)]
               /\ fails' = IF f THEN fails \cup {n + 1} ELSE fails
\* the listeners Trigger(i, e) would call, in order, if none failed
Chain(i, e) == IF i = 1 THEN reg[1][e] ELSE IF i = 2 THEN reg[1][e] \o reg[2][e] ELSE reg[1][e] \o reg[2][e] \o reg[3][e]
FirstFail(s) == IF \E k \in 1..Len(s) : s[k] \in fails THEN CHOOSE k \in 1..Len(s) : s[k] \in fails /\ \A j \in 1..(k - 1) : s[j] \notin fails ELSE 0
Called(i, e) == LET c == Chain(i, e)  k == FirstFail(c) IN IF k = 0 THEN c ELSE SubSeq(c, 1, k)
TriggerCase(i, e) == [k |-> "ev", reg |-> reg, fails |-> fails, scope |-> i, event |-> e,
                      calls |-> Called(i, e), err |-> FirstFail(Chain(i, e)) # 0]
Trigger(i, e) == /\ n > 0 /\ PrintT(ToJson(TriggerCase(i, e))) /\ UNCHANGED vars
Next == \E i \in 1..3, e \in Events : (\E f \in BOOLEAN : On(i, e, f)) \/ Trigger(i, e)
Spec == Init /\ [][Next]_vars
\* properties of the specified call sequence (checked for every state and trigger)
RootFirst == \A i \in 1..3, e \in Events : \A a, b \in 1..Len(Called(i, e)) :
               LET c == Called(i, e)
                   depth(x) == CHOOSE d \in 1..3 : \E k \in 1..Len(reg[d][e]) : reg[d][e][k] = x IN
               a < b => depth(c[a]) <= depth(c[b])
NothingBelowOrBeside == \A i \in 1..3, e \in Events : \A k \in 1..Len(Called(i, e)) :
               \E d \in 1..i : \E j \in 1..Len(reg[d][e]) : reg[d][e][j] = Called(i, e)[k]
StopsAtFirstFailure == \A i \in 1..3, e \in Events : \A k \in 1..Len(Called(i, e)) : (Called(i, e)[k] \in fails) => k = Len(Called(i, e))
=============================================================================
