------------------------------- MODULE Input -------------------------------
(* Extension X07: gio.Input, the buffered reader behind app.Input (terminal input,
   task bodies, Repeater, BufferInput): ReadWord, ReadLine and the raw Read over ONE
   byte stream that an io.Reader delivers in chunks of its own choosing.

   Abstract meaning (the position `pos` in the stream is the whole state):
     ReadWord  skips white characters (space, tab, CR, LF); the word is the maximal run
               of other characters; it ends BEFORE the white character that follows
               (result: word, nil) or at the end of the stream (word, EOF); nothing but
               white characters left: ("", EOF);
     ReadLine  skips separators (space, tab); the line runs up to the next CR / LF, which
               is consumed together with every CR / LF that follows it directly (line,
               nil); or to the end of the stream (line, EOF);
     Read(p)   with a one-byte p: the next byte (1, nil), or (0, EOF) at the end.
   What a user relies on, for every stream, every sequence of calls and EVERY way the
   reader cuts the stream into chunks:
     InOrder   the calls deliver the stream's bytes in order, each at most once, and
               what they pass over is white space only;
     ChunkFree the results are those of the abstract meaning -- they do not depend on
               the chunking, nor on which of the three calls came before.
     Tee       read through a bufferio.BufferInput, the calls return what the parent
               returns and the buffer holds exactly Delivered(hist) (checked on the real
               code; in the model it is the definition of Delivered);
   `chunks` is chosen freely at the start and never read by the abstract meaning: it is
   in the model so that every case names a chunking to be forced on the real reader.
   Variants (the code before the fixes; TLC must refute ChunkFree / InOrder on them):
     "rawread"   Read bypasses the buffer: after a ReadWord / ReadLine has buffered
                 the chunk, Read continues with the NEXT chunk (bytes lost, order broken). *)
EXTENDS Naturals, Sequences, FiniteSets, TLC, Json
CONSTANTS Tokens, MaxTokens, MaxOps, Variant, Emit
Expand(t) == CASE t = "W" -> <<"a", "b", "c", "d", "e", "f", "g">>
               [] t = "x" -> <<"x">>
               [] t = "s" -> <<" ">>
               [] t = "n" -> <<"\n">>
               [] t = "r" -> <<"\r">>
               [] OTHER -> <<"\t">>
RECURSIVE Flat(_)
Flat(ts) == IF ts = <<>> THEN <<>> ELSE Expand(Head(ts)) \o Flat(Tail(ts))
White(c) == c \in {" ", "\t", "\r", "\n"}
Sep(c) == c \in {" ", "\t"}
NL(c) == c \in {"\r", "\n"}
VARIABLES toks, chunks, pos, hist, cpos
vars == <<toks, chunks, pos, hist, cpos>>
\* cpos: (implementation, rawread variant only) the end of the chunk that the last buffered call pulled in
Stream == Flat(toks)
N == Len(Stream)
\* first index >= p whose character fails pred (N + 1 if none)
NotWhite(c) == ~White(c)
NotNL(c) == ~NL(c)
Is(c, k) == CASE k = "white" -> White(c) [] k = "notwhite" -> ~White(c) [] k = "sep" -> Sep(c) [] k = "notnl" -> ~NL(c) [] OTHER -> NL(c)
RECURSIVE Skip(_, _)
Skip(p, k) == IF p <= N /\ Is(Stream[p], k) THEN Skip(p + 1, k) ELSE p
Sub(a, b) == IF b < a THEN <<>> ELSE SubSeq(Stream, a, b)
\* chunkings: a set of cut positions (in tokens) -> the harness cuts the byte stream there
TokSeqs == UNION { [1..k -> Tokens] : k \in 0..MaxTokens }
Init == /\ toks \in TokSeqs /\ chunks \in SUBSET (1..(Len(toks) - 1))
        /\ pos = 1 /\ hist = <<>> /\ cpos = 1
Rec(op, res, eof) == hist' = Append(hist, [op |-> op, res |-> res, eof |-> eof])
More == Len(hist) < MaxOps
\* the byte position just after the chunk that contains byte position p (chunks are cut at token boundaries)
RECURSIVE TokStart(_)
TokStart(k) == IF k <= 1 THEN 1 ELSE TokStart(k - 1) + Len(Expand(toks[k - 1]))
CutBytes == { TokStart(k + 1) : k \in chunks } \cup {N + 1}
ChunkEnd(p) == IF p > N THEN N + 1 ELSE CHOOSE c \in CutBytes : c > p /\ \A d \in CutBytes : d > p => c <= d
Word == /\ More
        /\ LET a == Skip(pos, "white")
               b == Skip(a, "notwhite") IN
           /\ Rec("word", Sub(a, b - 1), b > N)
           /\ pos' = b /\ cpos' = IF b > cpos THEN ChunkEnd(b - 1) ELSE cpos
        /\ UNCHANGED <<toks, chunks>>
Line == /\ More
        /\ LET a == Skip(pos, "sep")
               b == Skip(a, "notnl")
               c == Skip(b, "nl") IN
           /\ Rec("line", Sub(a, b - 1), b > N)
           /\ pos' = c /\ cpos' = IF c > cpos THEN ChunkEnd(c - 1) ELSE cpos
        /\ UNCHANGED <<toks, chunks>>
Byte == /\ More
        /\ LET from == IF Variant = "rawread" /\ cpos > pos THEN cpos ELSE pos IN   \* rawread: continues after the buffered chunk
           /\ Rec("byte", IF from <= N THEN <<Stream[from]>> ELSE <<>>, from > N)
           /\ pos' = IF from <= N THEN from + 1 ELSE from
           /\ cpos' = IF Variant = "rawread" THEN pos' ELSE cpos
        /\ UNCHANGED <<toks, chunks>>
Case == [k |-> "inp", toks |-> toks, stream |-> Stream, chunks |-> CutBytes, hist |-> hist]
Done == /\ Len(hist) = MaxOps /\ UNCHANGED vars /\ (Emit => PrintT(ToJson(Case)))
Next == Word \/ Line \/ Byte \/ Done
Spec == Init /\ [][Next]_vars
-----------------------------------------------------------------------------
\* InOrder: the delivered characters, concatenated, form a subsequence of the stream in order, and every
\* character that was passed over is white
RECURSIVE Delivered(_)
Delivered(h) == IF h = <<>> THEN <<>> ELSE Delivered(SubSeq(h, 1, Len(h) - 1)) \o h[Len(h)].res
NonWhiteOf(s) == SelectSeq(s, NotWhite)
InOrder == LET d == NonWhiteOf(Delivered(hist))
               consumed == NonWhiteOf(Sub(1, pos - 1)) IN
           d = consumed
\* ChunkFree: every result equals the abstract meaning computed from the position alone; in the model this
\* is by construction for Variant = "current"; the rawread variant breaks InOrder (bytes skipped)
=============================================================================
