------------------------------ MODULE TaskLog ------------------------------
(* Extension X05: where the output of pipeline tasks goes.  Every task gets an IO whose
   output and error streams are copied, by a chain of gio / bufferio adapters
   (MultiOutput -> Broadcast -> Buffer, Logger, Repeater), into
     ctxo[t], ctxe[t]  the output / error stream handed in with the submission,
     tO[t]             the task's output log         (Task.OBroadcast),
     tIO[t]            the task's transcript         (Task.IOBroadcast): input, output and
                       error segments, a banner at every change of kind,
     mO                the manager's log             (TasksManager.OBroadcast): one frame
                       "~~~ [time] <task> :" per non-blank write,
     st                the status log                (TasksManager.StatusBroadcast): one
                       "started" line at submission, one final line when the task ends,
   and two commands print them: pip:logs (mO) and pip:summary (every task's transcript).
   Tasks run concurrently; one step of the model is one write of one task (the
   adapters hold their locks per write), so TLC explores every interleaving.

   What a user relies on:
     Verbatim     every sink holds the written payload unchanged -- whatever bytes it
                  consists of (a '%', a newline) and whichever call wrote it (Printf with
                  arguments or Write); so do the two printing commands;
     PerTask      the manager's frames of task t are exactly t's non-blank writes, in t's
                  order, and carry t's name (no loss, no duplication, no cross attribution);
     Status       every task has exactly one "started" line, then exactly one final line;
     the transcript's banners stand exactly at the changes of kind (Repeater.tla, X03).

   Variants (the code before the fixes; TLC must refute Verbatim on each):
     "reformat"   Repeater.Printf / PrintErrf hand the FORMATTED text to Printf again as a
                  format string: a '%' in the payload is mangled in the transcript;
     "fmtlogs"    pip:logs and pip:summary hand the whole log to Printf as a format string.
   Every finished behaviour is printed as a conformance case: the harness forces the same
   global order of writes on a real application and compares every sink. *)
EXTENDS Naturals, Sequences, FiniteSets, TLC, Json
CONSTANTS Tasks, MaxEmits, Kinds, Variant, Emit
Streams == {"out", "err"}
Vias == {"printf", "write"}
VARIABLES phase, n, ctxo, ctxe, tO, tIO, mode, mO, st, order
vars == <<phase, n, ctxo, ctxe, tO, tIO, mode, mO, st, order>>
Init == /\ phase = [t \in Tasks |-> "new"] /\ n = 0
        /\ ctxo = [t \in Tasks |-> <<>>] /\ ctxe = [t \in Tasks |-> <<>>]
        /\ tO = [t \in Tasks |-> <<>>] /\ tIO = [t \in Tasks |-> <<>>] /\ mode = [t \in Tasks |-> "null"]
        /\ mO = <<>> /\ st = <<>> /\ order = <<>>
\* payload kinds whose bytes a formatter would change
Fragile(k) == k \in {"pct", "verb"}
\* what a sink holds for one write: the payload id, and whether it is still verbatim
Item(i, k, ok) == [i |-> i, k |-> k, ok |-> ok]
Start(t) == /\ phase[t] = "new" /\ phase' = [phase EXCEPT ![t] = "run"]
            /\ st' = Append(st, [t |-> t, what |-> "started"])
            /\ order' = Append(order, [a |-> "start", t |-> t])
            /\ UNCHANGED <<n, ctxo, ctxe, tO, tIO, mode, mO>>
\* the task reads its next command from its input: the transcript shows it in an input segment
Segment(t, kind, item) == IF mode[t] # kind THEN <<[b |-> kind], item>> ELSE <<item>>
DoEmit(t, s, v, k) ==
  /\ phase[t] = "run" /\ n < MaxEmits /\ n' = n + 1
  /\ LET i == n + 1
         plain == Item(i, k, TRUE)
         \* the transcript copy goes through the Repeater: Printf there re-formats in the "reformat" variant
         trans == Item(i, k, ~(Variant = "reformat" /\ v = "printf" /\ Fragile(k))) IN
     /\ IF s = "out" THEN ctxo' = [ctxo EXCEPT ![t] = Append(@, plain)] /\ UNCHANGED ctxe
                     ELSE ctxe' = [ctxe EXCEPT ![t] = Append(@, plain)] /\ UNCHANGED ctxo
     /\ tO' = [tO EXCEPT ![t] = Append(@, plain)]
     \* every command is read from the input first (an input segment), then writes
     /\ tIO' = [tIO EXCEPT ![t] = @ \o (IF mode[t] # "in" THEN <<[b |-> "in"]>> ELSE <<>>) \o <<[cmd |-> i]>> \o <<[b |-> s], trans>>]
     /\ mode' = [mode EXCEPT ![t] = s]
     /\ mO' = IF k = "blank" THEN mO ELSE Append(mO, [t |-> t, item |-> plain])
     /\ order' = Append(order, [a |-> "emit", t |-> t, i |-> i, s |-> s, v |-> v, k |-> k])
  /\ UNCHANGED <<phase, st>>
Finish(t) == /\ phase[t] = "run" /\ phase' = [phase EXCEPT ![t] = "done"]
             /\ st' = Append(st, [t |-> t, what |-> "success"])
             /\ tIO' = [tIO EXCEPT ![t] = @ \o (IF mode[t] # "in" THEN <<[b |-> "in"]>> ELSE <<>>) \o <<[cmd |-> 0]>>]
             /\ mode' = [mode EXCEPT ![t] = "in"]
             /\ order' = Append(order, [a |-> "finish", t |-> t])
             /\ UNCHANGED <<n, ctxo, ctxe, tO, mO>>
AllDone == \A t \in Tasks : phase[t] = "done"
\* the printing commands
Printed(item) == IF Variant = "fmtlogs" /\ Fragile(item.k) THEN [item EXCEPT !.ok = FALSE] ELSE item
Logs == [j \in 1..Len(mO) |-> [t |-> mO[j].t, item |-> Printed(mO[j].item)]]
Summary(t) == [j \in 1..Len(tIO[t]) |-> IF "i" \in DOMAIN tIO[t][j] THEN Printed(tIO[t][j]) ELSE tIO[t][j]]
Case == [k |-> "tlog", order |-> order, ctxo |-> ctxo, ctxe |-> ctxe, tO |-> tO, tIO |-> tIO, mO |-> mO, st |-> st]
Done == /\ AllDone /\ UNCHANGED vars
        /\ (Emit => PrintT(ToJson(Case)))
Next == (\E t \in Tasks : Start(t) \/ Finish(t) \/ \E s \in Streams, v \in Vias, k \in Kinds : DoEmit(t, s, v, k)) \/ Done
Spec == Init /\ [][Next]_vars
-----------------------------------------------------------------------------
Items(seq) == { seq[j] : j \in { j \in 1..Len(seq) : "i" \in DOMAIN seq[j] } }
Verbatim ==
  /\ \A t \in Tasks : \A x \in Items(ctxo[t]) \cup Items(ctxe[t]) \cup Items(tO[t]) \cup Items(tIO[t]) : x.ok
  /\ \A j \in 1..Len(mO) : mO[j].item.ok
  /\ \A j \in 1..Len(Logs) : Logs[j].item.ok
  /\ \A t \in Tasks : \A x \in Items(Summary(t)) : x.ok
\* the manager's frames of t = t's non-blank writes in order
Ids(seq) == [j \in 1..Len(seq) |-> seq[j].i]
PerTask == \A t \in Tasks :
   LET frames == SelectSeq(mO, LAMBDA f : f.t = t)
       writes == SelectSeq(tO[t], LAMBDA x : x.k # "blank") IN
   [j \in 1..Len(frames) |-> frames[j].item.i] = Ids(writes)
\* the output log of t = its two context streams merged in write order
Split == \A t \in Tasks : Len(tO[t]) = Len(ctxo[t]) + Len(ctxe[t])
           /\ \A j \in 1..Len(tO[t]) : tO[t][j] \in Items(ctxo[t]) \cup Items(ctxe[t])
Status == \A t \in Tasks :
   LET mine == SelectSeq(st, LAMBDA r : r.t = t) IN
   CASE phase[t] = "new" -> mine = <<>>
     [] phase[t] = "run" -> Len(mine) = 1 /\ mine[1].what = "started"
     [] OTHER -> Len(mine) = 2 /\ mine[1].what = "started" /\ mine[2].what # "started"
\* banners of a transcript stand exactly at changes of kind
Banners == \A t \in Tasks : \A j \in 1..Len(tIO[t]) :
   ("b" \in DOMAIN tIO[t][j]) => (j < Len(tIO[t]) /\ "b" \notin DOMAIN tIO[t][j + 1]
                                  /\ \A h \in 1..(j - 1) : (\A g \in (h + 1)..(j - 1) : "b" \notin DOMAIN tIO[t][g]) /\ "b" \in DOMAIN tIO[t][h] => tIO[t][h].b # tIO[t][j].b)
=============================================================================
