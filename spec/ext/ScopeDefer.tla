------------------------------ MODULE ScopeDefer ------------------------------
(* Extension X09: files to be removed when a scope event happens (app/scope/scopedefer).
   RemoveOn(scope, event, file) registers the file; Trigger(event) on the scope removes
   every file registered for THAT event.  FileDefer.Remove goes through all its files,
   collects the failures and reports them together: a file that cannot be removed (it is
   gone already) must not keep the others.
   Variant "shared": one FileDefer per (scope, event), kept in the scope's data under a key
   and extended by later RemoveOn calls -- what the code means to do.
   Variant "perfile": the FileDefer is looked up but never stored, so every RemoveOn makes
   a listener of its own, and the event scope stops at the first listener that fails
   (EventScope.tla, StopsAtFirstFailure): the files registered after a missing one stay. *)
EXTENDS Naturals, Sequences, FiniteSets, TLC, Json
CONSTANTS Files, Events, MaxOps, Variant
VARIABLES exists,   \* file -> BOOLEAN (in the filespace)
          reg,      \* sequence of <<event, file>> in registration order
          hist      \* <<[op, e, f, err, left]>>
vars == <<exists, reg, hist>>
Init == exists = [f \in Files |-> TRUE] /\ reg = <<>> /\ hist = <<>>
Left(ex) == { f \in Files : ex[f] }
RegFor(e) == SelectSeq(reg, LAMBDA r : r[1] = e)
\* listeners of event e in order: "shared" one listener with all files, "perfile" one each
RECURSIVE RunPerFile(_, _)
RunPerFile(rs, ex) ==      \* returns <<exists', failed>>; stops at the first failure
    IF rs = <<>> THEN <<ex, FALSE>>
    ELSE LET f == Head(rs)[2] IN
         IF ex[f] THEN RunPerFile(Tail(rs), [ex EXCEPT ![f] = FALSE]) ELSE <<ex, TRUE>>
RECURSIVE RunShared(_, _, _)
RunShared(rs, ex, failed) ==   \* goes through all files whatever fails
    IF rs = <<>> THEN <<ex, failed>>
    ELSE LET f == Head(rs)[2] IN
         IF ex[f] THEN RunShared(Tail(rs), [ex EXCEPT ![f] = FALSE], failed) ELSE RunShared(Tail(rs), ex, TRUE)
Log(op, e, f, err, ex) == hist' = Append(hist, [op |-> op, e |-> e, f |-> f, err |-> err, left |-> Left(ex)])
RemoveOn(e, f) == /\ Len(hist) < MaxOps /\ ~(\E i \in 1..Len(reg) : reg[i] = <<e, f>>)
                  /\ reg' = Append(reg, <<e, f>>) /\ UNCHANGED exists /\ Log("removeon", e, f, FALSE, exists)
\* someone else removes a registered file before the event
Vanish(f) == /\ Len(hist) < MaxOps /\ exists[f] /\ (\E i \in 1..Len(reg) : reg[i][2] = f)
             /\ exists' = [exists EXCEPT ![f] = FALSE] /\ UNCHANGED reg /\ Log("vanish", 0, f, FALSE, exists')
Trigger(e) == /\ Len(hist) < MaxOps
              /\ LET r == IF Variant = "shared" THEN RunShared(RegFor(e), exists, FALSE) ELSE RunPerFile(RegFor(e), exists) IN
                 /\ exists' = r[1] /\ UNCHANGED reg /\ Log("trigger", e, "", r[2], r[1])
Next == (\E e \in Events, f \in Files : RemoveOn(e, f)) \/ (\E f \in Files : Vanish(f)) \/ (\E e \in Events : Trigger(e))
        \/ (Len(hist) = MaxOps /\ UNCHANGED vars)
Spec == Init /\ [][Next]_vars
\* ---- properties (about the last call)
Last == hist[Len(hist)]
\* after Trigger(e) no file registered for e is left, whatever failed
AllRemoved == (hist # <<>> /\ Last.op = "trigger") =>
                 \A i \in 1..Len(reg) : reg[i][1] = Last.e => ~exists[reg[i][2]]
\* Trigger(e) touches only files registered for e
OnlyRegistered == \A k \in 1..Len(hist) : hist[k].op = "trigger" =>
                     LET before == IF k = 1 THEN Files ELSE hist[k-1].left IN
                     \A f \in before \ hist[k].left : \E i \in 1..Len(reg) : reg[i] = <<hist[k].e, f>>
\* the failure is reported iff a registered file was gone already
Emit == Len(hist) = MaxOps => PrintT(ToJson([k |-> "sd", files |-> Files, hist |-> hist]))
=============================================================================
