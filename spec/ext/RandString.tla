----------------------------- MODULE RandString -----------------------------
(* Extension X06: varutil.RandString(n, pool), the source of every correlation id
   (scope.NewChild -> CorrlationID), application id, container name, mail boundary and
   heredoc terminator (C18).  Two layers.

   (A) The shared generator.  One package-level math/rand source serves every caller.
   A source is an additive lagged-Fibonacci register: Int63 is
        tap--;  if tap < 0 { tap += Len };  feed--;  if feed < 0 { feed += Len };
        x = vec[feed] + vec[tap];  vec[feed] = x
   and is NOT safe for concurrent use.  Scopes are created from many goroutines
   (pipeline tasks), so the calls race.  Each statement is modelled as the loads and
   stores it really is; Procs goroutines call Int63 once or twice each.
     IndexInRange   every vec[..] access uses 0 <= index < Len   (a Go slice access
                    outside that range is a run-time panic in the caller's goroutine)
   Sync = "none" is the code before the fix: TLC must refute IndexInRange.
   Sync = "mutex" (one lock around Int63) must satisfy it.

   (B) The letter extraction.  A 63-bit word is cut into Max letters of Bits bits; a
   letter index >= Len(pool) is rejected; the string is filled from its LAST position.
   The model chooses the words letter by letter from representative indices
   (first / last of the pool, first rejected, largest) and gives the expected string:
     Shape          the result has exactly n characters, all from the pool;
     Terminates     for a non-empty pool (every word offers an accepted letter)
     PoolReachable  every character of the pool can be produced: Len(pool) <= 2^Bits.
   Width = "fixed" is the code before the fix (Bits = 6 whatever the pool): a pool of 91
   characters (varutil.StrongBytes) violates PoolReachable -- 27 of its characters can never
   appear.  Width = "fit" takes Bits from the pool length.
   Every behaviour of (B) is a conformance case (word stream -> string) replayed on the real
   function through the verif hook that replaces the source. *)
EXTENDS Naturals, Integers, Sequences, FiniteSets, TLC, Json
CONSTANTS Procs, Len_, Calls, Sync,          \* layer A
          Pools, Ns, Width, Emit, Layer      \* layer B: Pools = set of pool lengths, Ns = set of string lengths
-----------------------------------------------------------------------------
\* ---------------- layer A
VARIABLES tap, feed, pc, reg, left, lock, bad
avars == <<tap, feed, pc, reg, left, lock, bad>>
AInit == /\ tap = 0 /\ feed = Len_ - 1
         /\ pc = [p \in Procs |-> "idle"] /\ reg = [p \in Procs |-> 0]
         /\ left = [p \in Procs |-> Calls] /\ lock = "free" /\ bad = FALSE
Goto(p, l) == pc' = [pc EXCEPT ![p] = l]
Begin(p) == /\ pc[p] = "idle" /\ left[p] > 0 /\ left' = [left EXCEPT ![p] = @ - 1]
            /\ IF Sync = "mutex" THEN lock = "free" /\ lock' = p ELSE UNCHANGED lock
            /\ Goto(p, "t_load") /\ UNCHANGED <<tap, feed, reg, bad>>
\* tap--   (load, store)
TLoad(p) == pc[p] = "t_load" /\ reg' = [reg EXCEPT ![p] = tap] /\ Goto(p, "t_store") /\ UNCHANGED <<tap, feed, left, lock, bad>>
TStore(p) == pc[p] = "t_store" /\ tap' = reg[p] - 1 /\ Goto(p, "t_test") /\ UNCHANGED <<feed, reg, left, lock, bad>>
\* if tap < 0 { tap += Len }   (load for the test; load, store for the add)
TTest(p) == pc[p] = "t_test" /\ Goto(p, IF tap < 0 THEN "t_aload" ELSE "f_load") /\ UNCHANGED <<tap, feed, reg, left, lock, bad>>
TALoad(p) == pc[p] = "t_aload" /\ reg' = [reg EXCEPT ![p] = tap] /\ Goto(p, "t_astore") /\ UNCHANGED <<tap, feed, left, lock, bad>>
TAStore(p) == pc[p] = "t_astore" /\ tap' = reg[p] + Len_ /\ Goto(p, "f_load") /\ UNCHANGED <<feed, reg, left, lock, bad>>
FLoad(p) == pc[p] = "f_load" /\ reg' = [reg EXCEPT ![p] = feed] /\ Goto(p, "f_store") /\ UNCHANGED <<tap, feed, left, lock, bad>>
FStore(p) == pc[p] = "f_store" /\ feed' = reg[p] - 1 /\ Goto(p, "f_test") /\ UNCHANGED <<tap, reg, left, lock, bad>>
FTest(p) == pc[p] = "f_test" /\ Goto(p, IF feed < 0 THEN "f_aload" ELSE "use") /\ UNCHANGED <<tap, feed, reg, left, lock, bad>>
FALoad(p) == pc[p] = "f_aload" /\ reg' = [reg EXCEPT ![p] = feed] /\ Goto(p, "f_astore") /\ UNCHANGED <<tap, feed, left, lock, bad>>
FAStore(p) == pc[p] = "f_astore" /\ feed' = reg[p] + Len_ /\ Goto(p, "use") /\ UNCHANGED <<tap, reg, left, lock, bad>>
\* x = vec[feed] + vec[tap]; vec[feed] = x : the indices are read here
InRange(i) == 0 <= i /\ i < Len_
Use(p) == /\ pc[p] = "use" /\ bad' = (bad \/ ~InRange(feed) \/ ~InRange(tap))
          /\ IF Sync = "mutex" THEN lock' = "free" ELSE UNCHANGED lock
          /\ Goto(p, "idle") /\ UNCHANGED <<tap, feed, reg, left>>
ANext == \E p \in Procs : Begin(p) \/ TLoad(p) \/ TStore(p) \/ TTest(p) \/ TALoad(p) \/ TAStore(p)
                           \/ FLoad(p) \/ FStore(p) \/ FTest(p) \/ FALoad(p) \/ FAStore(p) \/ Use(p)
IndexInRange == ~bad
\* every call ends (no goroutine waits for ever on the lock)
ADone == \A p \in Procs : pc[p] = "idle" /\ left[p] = 0
-----------------------------------------------------------------------------
\* ---------------- layer B
VARIABLES P, n, i, out, letters, phase, rejects, runs
bvars == <<P, n, i, out, letters, phase, rejects, runs>>
RECURSIVE BitsFor(_, _)
BitsFor(len, b) == IF 2 ^ b >= len THEN b ELSE BitsFor(len, b + 1)
Bits(len) == IF Width = "fixed" THEN 6 ELSE (IF len <= 2 THEN 1 ELSE BitsFor(len, 1))
Max(len) == 63 \div Bits(len)
Top(len) == 2 ^ Bits(len) - 1
Rejected(len) == IF len <= Top(len) THEN {len, Top(len)} ELSE {}
BInit == /\ P \in Pools /\ n \in Ns /\ i = n - 1 /\ out = <<>> /\ letters = <<>> /\ phase = "run" /\ rejects = 0 /\ runs = 0
\* the loop takes one letter per iteration; letter j of the stream is letter ((j-1) % Max) of word ((j-1) \div Max).
\* Accept: an index inside the pool (both ends of the pool while the string is short, alternating afterwards)
Accept == /\ phase = "run" /\ i >= 0
          /\ \E idx \in (IF Len(out) < 3 THEN {0, P - 1} ELSE {IF Len(out) % 2 = 0 THEN 0 ELSE P - 1}) :
                letters' = Append(letters, idx) /\ out' = <<idx>> \o out
          /\ i' = i - 1 /\ UNCHANGED <<P, n, phase, rejects, runs>>
\* Reject: one letter outside the pool (at most twice per case)
Reject == /\ phase = "run" /\ i >= 0 /\ rejects < 2
          /\ \E idx \in Rejected(P) : letters' = Append(letters, idx)
          /\ rejects' = rejects + 1 /\ UNCHANGED <<P, n, i, out, phase, runs>>
\* RejectRun: every remaining letter of the current word is outside the pool: the next letter comes from a fresh word
RejectRun == /\ phase = "run" /\ i >= 0 /\ runs < 1 /\ Rejected(P) # {}
             /\ LET used == Len(letters) % Max(P)
                    k == Max(P) - used IN
                letters' = letters \o [j \in 1..k |-> Top(P)]
             /\ runs' = runs + 1 /\ UNCHANGED <<P, n, i, out, phase, rejects>>
Case == [k |-> "rand", pool |-> P, n |-> n, bits |-> Bits(P), max |-> Max(P), letters |-> letters, out |-> out]
Finish == /\ phase = "run" /\ i < 0 /\ phase' = "done"
          /\ (Emit => PrintT(ToJson(Case)))
          /\ UNCHANGED <<P, n, i, out, letters, rejects, runs>>
BNext == Accept \/ Reject \/ RejectRun \/ Finish
Shape == phase = "done" => Len(out) = n /\ \A j \in 1..Len(out) : out[j] \in 0..(P - 1)
PoolReachable == P <= Top(P) + 1
-----------------------------------------------------------------------------
Init == IF Layer = "A" THEN AInit /\ P = 1 /\ n = 0 /\ i = -1 /\ out = <<>> /\ letters = <<>> /\ phase = "off" /\ rejects = 0 /\ runs = 0
        ELSE BInit /\ tap = 0 /\ feed = 0 /\ pc = [p \in Procs |-> "idle"] /\ reg = [p \in Procs |-> 0] /\ left = [p \in Procs |-> 0] /\ lock = "free" /\ bad = FALSE
Next == IF Layer = "A" THEN ANext /\ UNCHANGED bvars ELSE BNext /\ UNCHANGED avars
Spec == Init /\ [][Next]_<<avars, bvars>>
=============================================================================
