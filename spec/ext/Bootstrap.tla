------------------------------ MODULE Bootstrap ------------------------------
(* Extension X04: the boot sequence (app/bootstrap).
   Register* ; Init (RegisterDependencies of every module in registration order, then
   InitDependencies of every module; the first failure aborts) ; Run (every module's
   Run in its own goroutine; Run returns when all have returned and the application
   scope is closed; its result is an error iff some module failed).
   Lifecycle guards: Register after Init is refused, Init twice is refused, Run before
   Init or twice is refused.
   The goroutine of module m is modelled by the steps of the code:
       r := module.Run()            (RunRet)
       err = r                      (Assign   -- Variant "shared": ONE variable for all goroutines)
       if err != nil                (Test)
          errs = append(errs, err)  (ReadErrs ; WriteErrs -- an unsynchronised read-modify-write)
   Variant "shared" is the code before the repair: a module's nil overwrites another
   module's error between Assign and Test, and two appends can lose one another;
   Variant "local" keeps r per goroutine and appends under a lock. *)
EXTENDS Naturals, Sequences, FiniteSets, TLC, Json
CONSTANTS Modules, Fails, Variant
VARIABLES phase,      \* "new" | "inited" | "running" | "ended"
          calls,      \* lifecycle calls made so far with their results (history, hidden from the VIEW)
          pc, r, shared, errs, seen, result
vars == <<phase, calls, pc, r, shared, errs, seen, result>>
Nil == "nil"
Init == /\ phase = "new" /\ calls = <<>> /\ pc = [m \in Modules |-> "idle"] /\ r = [m \in Modules |-> Nil]
        /\ shared = Nil /\ errs = {} /\ seen = [m \in Modules |-> {}] /\ result = "none"
\* ---- lifecycle guards (sequential part)
Refused == Cardinality({ i \in 1..Len(calls) : calls[i][2] = "refused" })
CallInit == /\ (phase = "new" \/ (phase = "inited" /\ Refused < 2))
            /\ calls' = Append(calls, <<"init", IF phase = "new" THEN "ok" ELSE "refused">>)
            /\ phase' = "inited" /\ UNCHANGED <<pc, r, shared, errs, seen, result>>
CallRegister == /\ ((phase = "new" /\ Len(calls) < 2) \/ (phase = "inited" /\ Refused < 2))
                /\ calls' = Append(calls, <<"register", IF phase = "new" THEN "ok" ELSE "refused">>)
                /\ UNCHANGED <<phase, pc, r, shared, errs, seen, result>>
CallRunEarly == /\ phase = "new" /\ Refused < 2 /\ calls' = Append(calls, <<"run", "refused">>)
                /\ UNCHANGED <<phase, pc, r, shared, errs, seen, result>>
CallRun == /\ phase = "inited" /\ phase' = "running" /\ calls' = Append(calls, <<"run", "started">>)
           /\ pc' = [m \in Modules |-> "run"] /\ UNCHANGED <<r, shared, errs, seen, result>>
\* ---- one goroutine per module
RunRet(m) == /\ phase = "running" /\ pc[m] = "run" /\ r' = [r EXCEPT ![m] = IF m \in Fails THEN m ELSE Nil]
             /\ pc' = [pc EXCEPT ![m] = "assign"] /\ UNCHANGED <<phase, calls, shared, errs, seen, result>>
Assign(m) == /\ pc[m] = "assign" /\ pc' = [pc EXCEPT ![m] = "test"]
             /\ shared' = IF Variant = "shared" THEN r[m] ELSE shared
             /\ UNCHANGED <<phase, calls, r, errs, seen, result>>
Val(m) == IF Variant = "shared" THEN shared ELSE r[m]
Test(m) == /\ pc[m] = "test"
           /\ IF Val(m) # Nil THEN pc' = [pc EXCEPT ![m] = "read"] /\ r' = [r EXCEPT ![m] = Val(m)]
                             ELSE pc' = [pc EXCEPT ![m] = "done"] /\ UNCHANGED r
           /\ UNCHANGED <<phase, calls, shared, errs, seen, result>>
ReadErrs(m) == /\ pc[m] = "read" /\ seen' = [seen EXCEPT ![m] = errs] /\ pc' = [pc EXCEPT ![m] = "write"]
               /\ UNCHANGED <<phase, calls, r, shared, errs, result>>
WriteErrs(m) == /\ pc[m] = "write" /\ pc' = [pc EXCEPT ![m] = "done"]
                /\ errs' = IF Variant = "shared" THEN seen[m] \cup {r[m]} ELSE errs \cup {r[m]}
                /\ UNCHANGED <<phase, calls, r, shared, seen, result>>
Finish == /\ phase = "running" /\ \A m \in Modules : pc[m] = "done"
          /\ phase' = "ended" /\ result' = IF errs = {} THEN "nil" ELSE "err"
          /\ UNCHANGED <<calls, pc, r, shared, errs, seen>>
CallRunAgain == /\ phase = "ended" /\ Refused < 3 /\ calls' = Append(calls, <<"run", "refused">>)
                /\ UNCHANGED <<phase, pc, r, shared, errs, seen, result>>
Next == CallInit \/ CallRegister \/ CallRunEarly \/ CallRun \/ Finish \/ CallRunAgain
        \/ (\E m \in Modules : RunRet(m) \/ Assign(m) \/ Test(m) \/ ReadErrs(m) \/ WriteErrs(m))
        \/ (phase = "ended" /\ UNCHANGED vars)
Spec == Init /\ [][Next]_vars /\ WF_vars(Next)
\* ---- properties
ErrorReported == phase = "ended" => (result = "err") = (Fails # {})
EveryErrorKept == phase = "ended" => errs = Fails
Terminates == <>(phase = "ended")
\* emitted for the replay: every lifecycle history that ended, with its expected outcome
Emit == phase = "ended" => PrintT(ToJson([k |-> "boot", calls |-> calls, mods |-> Modules, fails |-> Fails, result |-> result]))
=============================================================================
