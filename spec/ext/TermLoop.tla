------------------------------ MODULE TermLoop ------------------------------
(* Extension X02: the interactive terminal (`terminal` command: termc.RunTerminal,
   termc.runLoop, termexec.RunLoop) executing a script from its input.

   RunTerminal:  for { if app scope done -> return (the last error) ; err = runLoop() ;
                       err = nil -> return nil ; strict -> app scope fails, return err ;
                       otherwise print "ERROR: ..." and start another loop }
   runLoop:      a fresh ISOLATED scope (stopped by a watcher goroutine when the
                 application scope is done) ; RunLoop ; then the scope's Wait
   RunLoop:      a READER goroutine and the MAIN loop joined by two channels of capacity 1:
                 main puts a token into `next`, then waits for the scope to be done or for
                 a command in `args`; the reader waits for the scope to be done or for a
                 token, reads one command (skipping empty lines), puts it into `args`, and
                 closes `args` at end of input; a failing command fails the isolated
                 scope and ends the loop with the error; main closes `next` on return.
   Commands of the script:  "ok" | "fail" (also: unknown command) | "exit" (stops the
   APPLICATION scope and succeeds).  Whether the end of input is reported together with
   the last command or by a separate empty read is left open (EofWithLast). *)
EXTENDS Naturals, Sequences, FiniteSets, TLC, Json
CONSTANTS MaxLen, Kinds,         \* scripts: every sequence of at most MaxLen commands over Kinds
          Variant                \* "current": after every command the loop asks the APPLICATION scope and returns when it
                                 \* is done; "asyncexit" (before fix 1d60410): it only learns that through the watcher
VARIABLES Script, Strict, EofWithLast,   \* fixed by Init: the script, the mode, how the input ends
          pos,                        \* next command of the input to be read (N+1: at end)
          nextCh, nextClosed,         \* channel `next`: tokens buffered (0..1)
          argCh, argClosed,           \* channel `args`: sequence of at most one command index
          isoDone, isoErr, appDone, appErr,
          mpc, rpc, wpc,              \* main / reader / watcher control
          held,                       \* command index the reader has read and not yet sent (0: none)
          lastErr, executed, errlines, result, loops
N == Len(Script)
vars == <<Script, Strict, EofWithLast, pos, nextCh, nextClosed, argCh, argClosed, isoDone, isoErr, appDone, appErr, mpc, rpc, wpc, held, lastErr, executed, errlines, result, loops>>

Init == /\ Script \in UNION { [1..n -> Kinds] : n \in 0..MaxLen } /\ Strict \in BOOLEAN /\ EofWithLast \in BOOLEAN
        /\ pos = 1 /\ nextCh = 0 /\ nextClosed = FALSE /\ argCh = <<>> /\ argClosed = FALSE
        /\ isoDone = FALSE /\ isoErr = FALSE /\ appDone = FALSE /\ appErr = FALSE
        /\ mpc = "terminal" /\ rpc = "off" /\ wpc = "off" /\ held = 0
        /\ lastErr = FALSE /\ executed = <<>> /\ errlines = 0 /\ result = "none" /\ loops = 0

\* ---------------- main: RunTerminal
Terminal == /\ mpc = "terminal"
            /\ IF appDone
               THEN /\ mpc' = "end" /\ result' = (IF lastErr THEN "err" ELSE "nil")
                    /\ UNCHANGED <<nextCh, nextClosed, argCh, argClosed, isoDone, isoErr, rpc, wpc, loops>>
               ELSE \* runLoop: fresh isolated scope with its watcher, fresh channels, reader goroutine
                    /\ rpc \in {"off", "end"}            \* the previous loop's reader only has to notice its closed channel /
                                                          \* done scope; it never touches the input again (it holds no token)
                    /\ mpc' = "token" /\ isoDone' = FALSE /\ isoErr' = FALSE /\ nextCh' = 0 /\ nextClosed' = FALSE
                    /\ argCh' = <<>> /\ argClosed' = FALSE /\ rpc' = "select" /\ wpc' = "watch" /\ loops' = loops + 1
                    /\ UNCHANGED result
            /\ UNCHANGED <<Script, Strict, EofWithLast, pos, appDone, appErr, held, lastErr, executed, errlines>>
\* RunLoop main: next <- token (capacity 1)
Token == /\ mpc = "token" /\ nextCh = 0 /\ nextCh' = 1 /\ mpc' = "select"
         /\ UNCHANGED <<Script, Strict, EofWithLast, pos, nextClosed, argCh, argClosed, isoDone, isoErr, appDone, appErr, rpc, wpc, held, lastErr, executed, errlines, result, loops>>
\* select { <-Done: return nil ; args: closed -> return nil | run the command }
SelectDone == /\ mpc = "select" /\ isoDone /\ mpc' = "loopret" /\ lastErr' = FALSE /\ nextClosed' = TRUE
              /\ UNCHANGED <<Script, Strict, EofWithLast, pos, nextCh, argCh, argClosed, isoDone, isoErr, appDone, appErr, rpc, wpc, held, executed, errlines, result, loops>>
SelectClosed == /\ mpc = "select" /\ argCh = <<>> /\ argClosed /\ mpc' = "loopret" /\ lastErr' = FALSE /\ nextClosed' = TRUE
                /\ UNCHANGED <<Script, Strict, EofWithLast, pos, nextCh, argCh, argClosed, isoDone, isoErr, appDone, appErr, rpc, wpc, held, executed, errlines, result, loops>>
SelectArgs == /\ mpc = "select" /\ argCh # <<>>
              /\ LET i == argCh[1]  c == Script[i] IN
                 /\ argCh' = <<>> /\ executed' = Append(executed, i)
                 /\ CASE c = "ok"   -> mpc' = "token" /\ UNCHANGED <<isoDone, isoErr, appDone, lastErr, nextClosed>>
                      [] c = "exit" -> /\ appDone' = TRUE /\ UNCHANGED <<isoDone, isoErr>>
                                       /\ IF Variant = "current" THEN mpc' = "loopret" /\ lastErr' = FALSE /\ nextClosed' = TRUE
                                          ELSE mpc' = "token" /\ UNCHANGED <<lastErr, nextClosed>>
                      [] OTHER      -> /\ mpc' = "loopret" /\ isoErr' = TRUE /\ isoDone' = TRUE /\ lastErr' = TRUE /\ nextClosed' = TRUE
                                       /\ UNCHANGED appDone
              /\ UNCHANGED <<Script, Strict, EofWithLast, pos, nextCh, argClosed, appErr, rpc, wpc, held, errlines, result, loops>>
\* back in runLoop: RunLoop's error, else the isolated scope's Wait (its error); then the scope is closed
LoopRet == /\ mpc = "loopret"
           /\ LET err == lastErr \/ isoErr IN
              /\ lastErr' = err
              /\ IF ~err THEN mpc' = "end" /\ result' = "nil" /\ UNCHANGED <<appErr, errlines>>
                 ELSE IF Strict THEN mpc' = "end" /\ result' = "err" /\ appErr' = TRUE /\ UNCHANGED errlines
                 ELSE mpc' = "terminal" /\ errlines' = errlines + 1 /\ UNCHANGED <<result, appErr>>
           /\ isoDone' = TRUE        \* Close of the isolated context
           /\ UNCHANGED <<Script, Strict, EofWithLast, pos, nextCh, nextClosed, argCh, argClosed, isoErr, appDone, rpc, wpc, held, executed, loops>>
\* ---------------- reader goroutine
RSelectDone == /\ rpc = "select" /\ isoDone /\ rpc' = "end"
               /\ UNCHANGED <<Script, Strict, EofWithLast, pos, nextCh, nextClosed, argCh, argClosed, isoDone, isoErr, appDone, appErr, mpc, wpc, held, lastErr, executed, errlines, result, loops>>
RSelectToken == /\ rpc = "select" /\ nextCh = 1 /\ nextCh' = 0 /\ rpc' = "read"
                /\ UNCHANGED <<Script, Strict, EofWithLast, pos, nextClosed, argCh, argClosed, isoDone, isoErr, appDone, appErr, mpc, wpc, held, lastErr, executed, errlines, result, loops>>
RSelectClosed == /\ rpc = "select" /\ nextCh = 0 /\ nextClosed /\ rpc' = "end"
                 /\ UNCHANGED <<Script, Strict, EofWithLast, pos, nextCh, nextClosed, argCh, argClosed, isoDone, isoErr, appDone, appErr, mpc, wpc, held, lastErr, executed, errlines, result, loops>>
\* ReadArguments: one command, or nothing at the end of the input
RRead == /\ rpc = "read"
         /\ IF pos > N THEN /\ argClosed' = TRUE /\ rpc' = "end" /\ UNCHANGED <<Script, Strict, EofWithLast, pos, held>>
            ELSE /\ held' = pos /\ pos' = pos + 1 /\ rpc' = "send" /\ UNCHANGED argClosed
         /\ UNCHANGED <<Script, Strict, EofWithLast, nextCh, nextClosed, argCh, isoDone, isoErr, appDone, appErr, mpc, wpc, lastErr, executed, errlines, result, loops>>
RSend == /\ rpc = "send" /\ argCh = <<>> /\ argCh' = <<held>> /\ held' = 0
         /\ IF pos > N /\ EofWithLast THEN argClosed' = TRUE /\ rpc' = "end" ELSE rpc' = "select" /\ UNCHANGED argClosed
         /\ UNCHANGED <<Script, Strict, EofWithLast, pos, nextCh, nextClosed, isoDone, isoErr, appDone, appErr, mpc, wpc, lastErr, executed, errlines, result, loops>>
\* ---------------- watcher of the isolated context
Watch == /\ wpc = "watch" /\ (appDone \/ isoDone) /\ wpc' = "off" /\ isoDone' = TRUE
         /\ UNCHANGED <<Script, Strict, EofWithLast, pos, nextCh, nextClosed, argCh, argClosed, isoErr, appDone, appErr, mpc, rpc, held, lastErr, executed, errlines, result, loops>>
Finished == mpc = "end" /\ rpc \in {"off", "end"}
Next == Terminal \/ Token \/ SelectDone \/ SelectClosed \/ SelectArgs \/ LoopRet
        \/ RSelectDone \/ RSelectToken \/ RSelectClosed \/ RRead \/ RSend \/ Watch \/ (Finished /\ UNCHANGED vars)
Spec == Init /\ [][Next]_vars /\ WF_vars(Next)
\* ---------------- properties
Idx(c) == { i \in 1..N : Script[i] = c }
Bad == { i \in 1..N : Script[i] \notin {"ok", "exit"} }
Min(S) == CHOOSE x \in S : \A y \in S : x <= y
FirstStop == IF Bad \cup Idx("exit") = {} THEN N + 1 ELSE Min(Bad \cup Idx("exit"))
InOrderOnce == \A i, j \in 1..Len(executed) : i < j => executed[i] < executed[j]
\* nothing is skipped: what ran is a gap-free prefix of the script ... unless the script asked to exit
NoGapBeforeExit == \A k \in 1..Len(executed) : executed[k] <= FirstStop => executed[k] = k
StrictStopsAtFirstFailure == Strict => \A k \in 1..Len(executed) : \A b \in Bad : executed[k] <= b
AtEnd == Finished =>
   /\ (Idx("exit") = {} /\ (~Strict \/ Bad = {}) => Len(executed) = N)                   \* everything ran
   /\ (Idx("exit") = {} /\ ~Strict => (result = "nil" /\ errlines = Cardinality(Bad) /\ ~appErr))
   /\ (Strict /\ Idx("exit") = {} => ((result = "err") = (Bad # {}) /\ appErr = (Bad # {})))
   /\ (Strict /\ Bad # {} /\ Idx("exit") = {} => Len(executed) = Min(Bad))
\* violated by Variant "asyncexit": the watcher that stops the isolated scope after `exit` runs asynchronously,
\* so main hands out another token and picks up the next command
NothingAfterExit == \A k \in 1..Len(executed) : \A x \in Idx("exit") : executed[k] <= x
\* one line per finished behaviour: the outcomes the model allows for (script, mode)
Emit == Finished => PrintT(ToJson([k |-> "term", script |-> Script, strict |-> Strict, executed |-> executed,
                                     result |-> result, errlines |-> errlines, apperr |-> appErr]))
Terminates == <>Finished
=============================================================================
