------------------------------ MODULE WaitGroups ------------------------------
(* Extension X08: named wait groups of a scope (app/modules/commonm/commservices/waits).
   ScopeWaitManager keeps one sync.WaitGroup per name, created on first use, and couples
   every Add / Done to the task counter of the scope it belongs to:
       Add(name, d)   cnt[name] += d and the scope gains d tasks
       Done(name)     cnt[name]-- and the scope loses a task
       Wait(name)     returns when cnt[name] = 0
       scope.Wait()   returns when the scope has no task, i.e. when EVERY group is at zero
   This module is the sequential meaning (one caller at a time, waiters in goroutines of
   their own): a waiter is blocked exactly while the count of its target is positive.  The
   history `hist` carries, after every call, the set of waiters that have not returned;
   every complete history is a conformance case replayed on a real manager of a real scope.
   The lazy creation of the groups under the manager's mutex is WaitGroupsGet.tla. *)
EXTENDS Naturals, Sequences, FiniteSets, TLC, Json
CONSTANTS Names, MaxCnt, MaxOps, MaxWaiters
VARIABLES cnt,       \* name -> counter of its group
          waiters,   \* sequence of targets (a name or "scope"), in the order the waits began
          gone,      \* indexes of waiters that have returned
          hist       \* <<[op, arg, blocked]>>
vars == <<cnt, waiters, gone, hist>>
Scope == "scope"
Targets == Names \cup {Scope}
RECURSIVE SumOver(_, _)
SumOver(f, S) == IF S = {} THEN 0 ELSE LET x == CHOOSE x \in S : TRUE IN f[x] + SumOver(f, S \ {x})
Count(c, t) == IF t = Scope THEN SumOver(c, Names) ELSE c[t]
\* waiters that are (still) blocked under counters c
BlockedUnder(c, ws, g) == { i \in 1..Len(ws) : i \notin g /\ Count(c, ws[i]) > 0 }
Step(c, ws, op, arg, d) ==
    LET b == BlockedUnder(c, ws, gone) IN
    /\ cnt' = c /\ waiters' = ws
    /\ gone' = (1..Len(ws)) \ b          \* whoever is not blocked has returned (and never blocks again)
    /\ hist' = Append(hist, [op |-> op, arg |-> arg, d |-> d, blocked |-> b])
Init == cnt = [n \in Names |-> 0] /\ waiters = <<>> /\ gone = {} /\ hist = <<>>
\* Add(name, d): d units at once (the scope gains d tasks)
Add(n, d) == /\ Len(hist) < MaxOps /\ cnt[n] + d <= MaxCnt
             /\ Step([cnt EXCEPT ![n] = @ + d], waiters, "add", n, d)
Done(n) == /\ Len(hist) < MaxOps /\ cnt[n] > 0
           /\ Step([cnt EXCEPT ![n] = @ - 1], waiters, "done", n, 1)
Wait(t) == /\ Len(hist) < MaxOps /\ Len(waiters) < MaxWaiters
           /\ Step(cnt, Append(waiters, t), "wait", t, 0)
Next == (\E n \in Names : (\E d \in 1..MaxCnt : Add(n, d)) \/ Done(n)) \/ (\E t \in Targets : Wait(t))
        \/ (Len(hist) = MaxOps /\ UNCHANGED vars)
Spec == Init /\ [][Next]_vars
\* ---- properties
\* a waiter has returned only if its target was at zero at some call since it began, and a
\* waiter whose target is at zero is never left blocked
NoLostWakeup == \A i \in 1..Len(waiters) : Count(cnt, waiters[i]) = 0 => i \in gone
NoEarlyReturn == \A i \in 1..Len(waiters) : i \in gone =>
                    \E k \in 1..Len(hist) : i \notin hist[k].blocked /\
                        (\E j \in 1..k : hist[j].op = "wait" /\ Cardinality({ m \in 1..j : hist[m].op = "wait" }) = i)
\* the scope's task counter is the sum of the groups: the scope can end only when every group is at zero
ScopeCoupled == (Count(cnt, Scope) = 0) = (\A n \in Names : cnt[n] = 0)
GoneForGood == [][gone \subseteq gone']_vars
Emit == Len(hist) = MaxOps => PrintT(ToJson([k |-> "wg", names |-> Names, hist |-> hist]))
=============================================================================
