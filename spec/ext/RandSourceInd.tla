--------------------------- MODULE RandSourceInd ---------------------------
(* Layer A of RandString.tla (the shared math/rand source under ONE lock) restated with
   type annotations for Apalache, and an INDUCTIVE invariant: IndexInRange then holds for
   any number of calls by the three goroutines, not only for the bounded number TLC explores.
     apalache-mc check --init=IndInit --inv=IndInv --length=1 RandSourceInd.tla   (IndInv is inductive)
     apalache-mc check --init=Init    --inv=IndInv --length=0 RandSourceInd.tla   (Init => IndInv)
   IndInv => IndexInRange is the conjunct `~bad`. *)
EXTENDS Integers

Procs == {"g1", "g2", "g3"}
Len_ == 607

VARIABLES
  \* @type: Int;
  tap,
  \* @type: Int;
  feed,
  \* @type: Str -> Str;
  pc,
  \* @type: Str -> Int;
  reg,
  \* @type: Str;
  lock,
  \* @type: Bool;
  bad

Labels == {"idle", "t_load", "t_store", "t_test", "t_aload", "t_astore", "f_load", "f_store", "f_test", "f_aload", "f_astore", "use"}
InRange(i) == 0 <= i /\ i < Len_

Init == /\ tap = 0 /\ feed = Len_ - 1 /\ pc = [p \in Procs |-> "idle"] /\ reg = [p \in Procs |-> 0] /\ lock = "free" /\ bad = FALSE

Goto(p, l) == pc' = [pc EXCEPT ![p] = l]
Begin(p) == pc[p] = "idle" /\ lock = "free" /\ lock' = p /\ Goto(p, "t_load") /\ UNCHANGED <<tap, feed, reg, bad>>
TLoad(p) == pc[p] = "t_load" /\ reg' = [reg EXCEPT ![p] = tap] /\ Goto(p, "t_store") /\ UNCHANGED <<tap, feed, lock, bad>>
TStore(p) == pc[p] = "t_store" /\ tap' = reg[p] - 1 /\ Goto(p, "t_test") /\ UNCHANGED <<feed, reg, lock, bad>>
TTest(p) == pc[p] = "t_test" /\ Goto(p, IF tap < 0 THEN "t_aload" ELSE "f_load") /\ UNCHANGED <<tap, feed, reg, lock, bad>>
TALoad(p) == pc[p] = "t_aload" /\ reg' = [reg EXCEPT ![p] = tap] /\ Goto(p, "t_astore") /\ UNCHANGED <<tap, feed, lock, bad>>
TAStore(p) == pc[p] = "t_astore" /\ tap' = reg[p] + Len_ /\ Goto(p, "f_load") /\ UNCHANGED <<feed, reg, lock, bad>>
FLoad(p) == pc[p] = "f_load" /\ reg' = [reg EXCEPT ![p] = feed] /\ Goto(p, "f_store") /\ UNCHANGED <<tap, feed, lock, bad>>
FStore(p) == pc[p] = "f_store" /\ feed' = reg[p] - 1 /\ Goto(p, "f_test") /\ UNCHANGED <<tap, reg, lock, bad>>
FTest(p) == pc[p] = "f_test" /\ Goto(p, IF feed < 0 THEN "f_aload" ELSE "use") /\ UNCHANGED <<tap, feed, reg, lock, bad>>
FALoad(p) == pc[p] = "f_aload" /\ reg' = [reg EXCEPT ![p] = feed] /\ Goto(p, "f_astore") /\ UNCHANGED <<tap, feed, lock, bad>>
FAStore(p) == pc[p] = "f_astore" /\ feed' = reg[p] + Len_ /\ Goto(p, "use") /\ UNCHANGED <<tap, reg, lock, bad>>
Use(p) == /\ pc[p] = "use" /\ bad' = (bad \/ ~InRange(feed) \/ ~InRange(tap))
          /\ lock' = "free" /\ Goto(p, "idle") /\ UNCHANGED <<tap, feed, reg>>
Next == \E p \in Procs : Begin(p) \/ TLoad(p) \/ TStore(p) \/ TTest(p) \/ TALoad(p) \/ TAStore(p)
                           \/ FLoad(p) \/ FStore(p) \/ FTest(p) \/ FALoad(p) \/ FAStore(p) \/ Use(p)

TypeOK == /\ pc \in [Procs -> Labels] /\ reg \in [Procs -> Int] /\ lock \in Procs \cup {"free"} /\ bad \in BOOLEAN /\ tap \in Int /\ feed \in Int
\* only the lock holder is inside; what the indices may be depends on where the holder stands
Holder == lock
IndInv ==
  /\ TypeOK /\ ~bad
  /\ \A p \in Procs : (pc[p] # "idle") <=> (lock = p)
  /\ (lock = "free") => (InRange(tap) /\ InRange(feed))
  /\ \A p \in Procs : lock = p =>
       /\ (pc[p] \in {"t_load"}) => (InRange(tap) /\ InRange(feed))
       /\ (pc[p] = "t_store") => (reg[p] = tap /\ InRange(tap) /\ InRange(feed))
       /\ (pc[p] = "t_test") => (-1 <= tap /\ tap < Len_ - 1 /\ InRange(feed))
       /\ (pc[p] = "t_aload") => (tap = -1 /\ InRange(feed))
       /\ (pc[p] = "t_astore") => (tap = -1 /\ reg[p] = -1 /\ InRange(feed))
       /\ (pc[p] = "f_load") => (InRange(tap) /\ InRange(feed))
       /\ (pc[p] = "f_store") => (InRange(tap) /\ reg[p] = feed /\ InRange(feed))
       /\ (pc[p] = "f_test") => (InRange(tap) /\ -1 <= feed /\ feed < Len_ - 1)
       /\ (pc[p] = "f_aload") => (InRange(tap) /\ feed = -1)
       /\ (pc[p] = "f_astore") => (InRange(tap) /\ feed = -1 /\ reg[p] = -1)
       /\ (pc[p] = "use") => (InRange(tap) /\ InRange(feed))
IndInit == IndInv
IndexInRange == ~bad
=============================================================================
