--------------------------- MODULE EventScopeLock ---------------------------
(* Extension X01, lock layer: Trigger and On on ONE event scope guarded by a
   reader/writer lock.  A trigger runs listeners; a listener may itself call On (for
   instance scopedefer.RemoveOn from inside a handler).
   Variant "heldlock" (before fix): Trigger keeps the read lock while the listeners run;
   the listener's On waits for the write lock, which waits for the reader: deadlock.
   Variant "snapshot": Trigger copies the list under the read lock, releases it, then
   runs the listeners. *)
EXTENDS Naturals, Sequences, TLC
CONSTANTS Variant, Triggers          \* Triggers: set of triggering processes
VARIABLES readers, writer, pc, listeners, snap, called
vars == <<readers, writer, pc, listeners, snap, called>>
Init == readers = 0 /\ writer = FALSE /\ pc = [t \in Triggers |-> "rlock"] /\ listeners = 1 /\ snap = [t \in Triggers |-> 0]
        /\ called = [t \in Triggers |-> 0]
RLock(t) == /\ pc[t] = "rlock" /\ ~writer /\ readers' = readers + 1 /\ snap' = [snap EXCEPT ![t] = listeners]
            /\ pc' = [pc EXCEPT ![t] = IF Variant = "snapshot" THEN "runlock" ELSE "listen"] /\ UNCHANGED <<writer, listeners, called>>
RUnlockEarly(t) == /\ pc[t] = "runlock" /\ readers' = readers - 1 /\ pc' = [pc EXCEPT ![t] = "listen"] /\ UNCHANGED <<writer, listeners, snap, called>>
\* the first listener registers another one: On = write lock, append, unlock
Listen(t) == /\ pc[t] = "listen" /\ pc' = [pc EXCEPT ![t] = "wlock"] /\ called' = [called EXCEPT ![t] = 1] /\ UNCHANGED <<readers, writer, listeners, snap>>
WLock(t) == /\ pc[t] = "wlock" /\ ~writer /\ readers = 0 /\ writer' = TRUE /\ pc' = [pc EXCEPT ![t] = "append"] /\ UNCHANGED <<readers, listeners, snap, called>>
AppendL(t) == /\ pc[t] = "append" /\ listeners' = listeners + 1 /\ writer' = FALSE /\ pc' = [pc EXCEPT ![t] = "rest"] /\ UNCHANGED <<readers, snap, called>>
\* the remaining listeners of the snapshot, then (heldlock) the read lock is released
Rest(t) == /\ pc[t] = "rest" /\ called' = [called EXCEPT ![t] = snap[t]]
           /\ readers' = IF Variant = "snapshot" THEN readers ELSE readers - 1
           /\ pc' = [pc EXCEPT ![t] = "end"] /\ UNCHANGED <<writer, listeners, snap>>
AllEnd == \A t \in Triggers : pc[t] = "end"
Next == (\E t \in Triggers : RLock(t) \/ RUnlockEarly(t) \/ Listen(t) \/ WLock(t) \/ AppendL(t) \/ Rest(t)) \/ (AllEnd /\ UNCHANGED vars)
Spec == Init /\ [][Next]_vars /\ WF_vars(Next)
LockSane == readers >= 0 /\ ~(writer /\ readers > 0)
EveryoneReturns == <>AllEnd
=============================================================================
