------------------------------ MODULE Repeater ------------------------------
(* Extension X03: gio.Repeater, which copies a task's input, output and error streams
   into one transcript (task logs, SSH sandbox).  The transcript marks every CHANGE of
   stream kind with a banner: reading input after output prints the input banner once,
   the next output prints the output banner once, and so on; an empty read prints
   nothing and does not change the kind.
   Ops: read / readword / readline (each either delivering data or nothing), printf /
   write (output), errprintf / errwrite (error stream; its own writer in the code).
   `mode` is the kind of the last thing copied to the transcript; Variant "readline-out"
   (the code before the fix) sets the kind to OUTPUT after a ReadLine banner.
   Every payload is copied VERBATIM, whatever bytes it consists of (the harness puts a
   '%' into every one); Variant "reformat" (the code before fix 3cf3487: ReadWord,
   ReadLine, Printf and PrintErrf handed the data to Printf as a format string) mangles
   the payloads of those four operations and must violate Verbatim. *)
EXTENDS Naturals, Sequences, TLC, Json
CONSTANTS MaxOps, Variant
Ops == {"read", "readword", "readline", "read0", "readword0", "readline0", "printf", "write", "errprintf", "errwrite"}
Kind(op) == CASE op \in {"read", "readword", "readline"} -> "in"
              [] op \in {"printf", "write"} -> "out"
              [] op \in {"errprintf", "errwrite"} -> "err"
              [] OTHER -> "none"
VARIABLES mode, hist, outT, errT      \* transcripts: sequence of "B:<kind>" banners and "P:<op>" payloads
vars == <<mode, hist, outT, errT>>
Init == mode = "null" /\ hist = <<>> /\ outT = <<>> /\ errT = <<>>
Do(op) ==
  /\ Len(hist) < MaxOps /\ hist' = Append(hist, op)
  /\ LET k == Kind(op) IN
     IF k = "none" THEN UNCHANGED <<mode, outT, errT>>
     ELSE LET banner == mode # k
              mangled == Variant = "reformat" /\ op \in {"readword", "readline", "printf", "errprintf"}
              items == (IF banner THEN <<"B:" \o k>> ELSE <<>>) \o <<(IF mangled THEN "M:" ELSE "P:") \o op>> IN
          /\ mode' = IF Variant = "readline-out" /\ op = "readline" /\ banner THEN "out" ELSE k
          /\ IF k = "err" THEN errT' = errT \o items /\ UNCHANGED outT ELSE outT' = outT \o items /\ UNCHANGED errT
  /\ PrintT(ToJson([k |-> "rep", ops |-> hist', out |-> outT', err |-> errT']))
Next == \E op \in Ops : Do(op)
Spec == Init /\ [][Next]_vars
\* a banner stands exactly at every change of kind among the non-empty operations, never twice in a row
Merged == LET tag(op) == Kind(op) IN SelectSeq(hist, LAMBDA op : Kind(op) # "none")
BannerCount == LET m == Merged IN
  LET changes == IF m = <<>> THEN 0 ELSE 1 + Len(SelectSeq([i \in 1..(Len(m) - 1) |-> <<Kind(m[i]), Kind(m[i + 1])>>], LAMBDA p : p[1] # p[2]))
      banners(t) == Len(SelectSeq(t, LAMBDA x : x \in {"B:in", "B:out", "B:err"})) IN
  banners(outT) + banners(errT) = changes
Verbatim == \A i \in 1..Len(outT) : outT[i] \notin { "M:" \o op : op \in Ops }
Verbatim2 == \A i \in 1..Len(errT) : errT[i] \notin { "M:" \o op : op \in Ops }
=============================================================================
