SPECIFICATION Spec
CONSTANTS
  Holders = {h1, h2}
  Names = {1, 2, 3}
  GlobalAcq = FALSE
  Sorted = FALSE
INVARIANTS Exclusion Independent
