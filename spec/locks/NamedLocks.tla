---- MODULE NamedLocks ----
(* C15: named resource locks (commservices/mutex).  Holders with lock maps over a
   pool of names; one writer-preferring RW mutex per name (a pending writer blocks
   new readers, as Go's sync.RWMutex does); Lock = for each name in SORTED order one
   acquisition step; Unlock releases everything.  Sorted = FALSE is the regression
   model (acquisition in map order): TLC finds the deadlock with 2 holders x 2 names.
   Properties: Exclusion, Independent (a holder compatible with everything held is
   never blocked), no deadlock, and under fairness every holder gets inside.
   GlobalAcq = TRUE is a second regression model: requests for more than one name hold
   one global mutex during their acquisition loop, so a request that waits for a busy
   name blocks every other multi-name request, however disjoint: Independent fails. *)
EXTENDS Naturals, Sequences, FiniteSets, TLC
CONSTANTS Holders, Names, Sorted, GlobalAcq      \* Names is a set of naturals so that "sorted" is <
VARIABLES want,      \* holder -> function from a subset of Names to {"R","W"}   (fixed after Init)
          order,     \* holder -> sequence of names: the acquisition order
          pc,        \* holder -> index of the next name to acquire; Len+1 = inside; Len+2 = done
          announced, \* holder -> BOOLEAN: has announced a pending write lock on order[pc]
          readers, writer, pendingW,  \* per name: Go's writer-preferring RWMutex
          gmu                         \* GlobalAcq only: holder of the global acquisition mutex, or "none"
vars == <<want, order, pc, announced, readers, writer, pendingW, gmu>>
Maps == UNION { [S -> {"R","W"}] : S \in (SUBSET Names) \ {{}} }
Perms(S) == { s \in [1..Cardinality(S) -> S] : \A i, j \in 1..Cardinality(S) : i # j => s[i] # s[j] }
IsSorted(s) == \A i, j \in 1..Len(s) : i < j => s[i] < s[j]
AscSeq(S) == CHOOSE s \in Perms(S) : IsSorted(s)
Init == /\ want \in [Holders -> Maps]
        /\ IF Sorted THEN order = [h \in Holders |-> AscSeq(DOMAIN want[h])]
           ELSE order \in { o \in [Holders -> UNION { Perms(S) : S \in SUBSET Names }] :
                             \A h \in Holders : { o[h][i] : i \in 1..Len(o[h]) } = DOMAIN want[h] /\ Len(o[h]) = Cardinality(DOMAIN want[h]) }
        /\ pc = [h \in Holders |-> 1] /\ announced = [h \in Holders |-> FALSE]
        /\ readers = [n \in Names |-> {}] /\ writer = [n \in Names |-> "none"] /\ pendingW = [n \in Names |-> {}] /\ gmu = "none"
Multi(h) == GlobalAcq /\ Len(order[h]) > 1
GmuFree(h) == ~Multi(h) \/ gmu \in {"none", h}
GmuAfter(h, newpc) == IF ~Multi(h) THEN gmu ELSE IF newpc > Len(order[h]) THEN "none" ELSE h
Cur(h) == order[h][pc[h]]
Acquiring(h) == pc[h] <= Len(order[h])
RLock(h) == /\ Acquiring(h) /\ want[h][Cur(h)] = "R"
            /\ writer[Cur(h)] = "none" /\ pendingW[Cur(h)] = {}          \* a pending writer blocks new readers
            /\ GmuFree(h) /\ gmu' = GmuAfter(h, pc[h] + 1)
            /\ readers' = [readers EXCEPT ![Cur(h)] = @ \cup {h}] /\ pc' = [pc EXCEPT ![h] = @ + 1]
            /\ UNCHANGED <<want, order, announced, writer, pendingW>>
Announce(h) == /\ Acquiring(h) /\ want[h][Cur(h)] = "W" /\ ~announced[h]
               /\ GmuFree(h) /\ gmu' = GmuAfter(h, pc[h])
               /\ pendingW' = [pendingW EXCEPT ![Cur(h)] = @ \cup {h}] /\ announced' = [announced EXCEPT ![h] = TRUE]
               /\ UNCHANGED <<want, order, pc, readers, writer>>
WLock(h) == /\ Acquiring(h) /\ want[h][Cur(h)] = "W" /\ announced[h]
            /\ writer[Cur(h)] = "none" /\ readers[Cur(h)] = {}
            /\ GmuFree(h) /\ gmu' = GmuAfter(h, pc[h] + 1)
            /\ writer' = [writer EXCEPT ![Cur(h)] = h] /\ pendingW' = [pendingW EXCEPT ![Cur(h)] = @ \ {h}]
            /\ announced' = [announced EXCEPT ![h] = FALSE] /\ pc' = [pc EXCEPT ![h] = @ + 1]
            /\ UNCHANGED <<want, order, readers>>
Release(h) == /\ pc[h] = Len(order[h]) + 1
              /\ readers' = [n \in Names |-> readers[n] \ {h}]
              /\ writer' = [n \in Names |-> IF writer[n] = h THEN "none" ELSE writer[n]]
              /\ pc' = [pc EXCEPT ![h] = @ + 1] /\ UNCHANGED <<want, order, announced, pendingW, gmu>>
AllDone == \A h \in Holders : pc[h] = Len(order[h]) + 2
Next == (\E h \in Holders : RLock(h) \/ Announce(h) \/ WLock(h) \/ Release(h)) \/ (AllDone /\ UNCHANGED vars)
Spec == Init /\ [][Next]_vars /\ \A h \in Holders : WF_vars(RLock(h) \/ Announce(h) \/ WLock(h) \/ Release(h))
EveryoneGetsIn == \A h \in Holders : <>(pc[h] >= Len(order[h]) + 1)
Inside(h) == pc[h] = Len(order[h]) + 1
Exclusion == \A a, b \in Holders : (a # b /\ Inside(a) /\ Inside(b)) =>
               \A n \in DOMAIN want[a] \cap DOMAIN want[b] : want[a][n] = "R" /\ want[b][n] = "R"
\* independence: a holder compatible with everything currently held is never blocked on its next step
Compatible(h) == \A g \in Holders \ {h} : pc[g] <= Len(order[g]) + 1 =>
                    \A n \in DOMAIN want[h] \cap DOMAIN want[g] : want[h][n] = "R" /\ want[g][n] = "R"
Independent == \A h \in Holders : (Acquiring(h) /\ Compatible(h)) => ENABLED (RLock(h) \/ Announce(h) \/ WLock(h))
====
