SPECIFICATION Spec
CONSTANTS
  Names = {"a", "b", "c"}
  MaxList = 2
INVARIANT Inv
CHECK_DEADLOCK FALSE
