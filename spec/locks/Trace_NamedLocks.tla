-------------------------- MODULE Trace_NamedLocks --------------------------
(* Trace validation for C15 (property layer): holders log `want` (their lock map)
   before calling Lock, `inside` after it returned, `leaving` before Unlock.
   Exclusion: when a holder gets inside, no holder that is inside shares a name
   with it unless both asked for read access.  Independence (scripted runs): an
   event `indep` asserts that holder b got inside while a was still inside. *)
EXTENDS Naturals, Sequences, FiniteSets, TLC, Json
TraceLog == ndJsonDeserialize("trace.ndjson")
VARIABLES l, want, inside
tvars == <<l, want, inside>>
Ev == TraceLog[l]
IsEv(k) == l <= Len(TraceLog) /\ Ev.ev = k /\ l' = l + 1
Init == l = 1 /\ want = << >> /\ inside = {}
Reset == IsEv("reset") /\ want' = << >> /\ inside' = {}
\* the lock map arrives as a sequence of [name, write] records
MapOf(m) == [n \in { m[i].name : i \in 1..Len(m) } |-> (m[CHOOSE i \in 1..Len(m) : m[i].name = n]).write]
Want == /\ IsEv("want") /\ want' = [h \in DOMAIN want \cup {Ev.h} |-> IF h = Ev.h THEN MapOf(Ev.map) ELSE want[h]] /\ UNCHANGED inside
Compatible(a, b) == \A n \in DOMAIN want[a] \cap DOMAIN want[b] : ~want[a][n] /\ ~want[b][n]
Inside == /\ IsEv("inside") /\ Ev.h \in DOMAIN want /\ Ev.h \notin inside
          /\ \A g \in inside : Compatible(Ev.h, g)
          /\ inside' = inside \cup {Ev.h} /\ UNCHANGED want
Leaving == IsEv("leaving") /\ Ev.h \in inside /\ inside' = inside \ {Ev.h} /\ UNCHANGED want
Indep == IsEv("indep") /\ Ev.a \in inside /\ Ev.b \in inside /\ UNCHANGED <<want, inside>>
TraceNext == Reset \/ Want \/ Inside \/ Leaving \/ Indep
TraceSpec == Init /\ [][TraceNext]_tvars
TraceAccepted == TLCGet("stats").diameter - 1 = Len(TraceLog)
=============================================================================
