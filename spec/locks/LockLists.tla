----------------------------- MODULE LockLists -----------------------------
(* C15, command layer: pip:run builds a task's lock map from its --rlock and --wlock
   lists (pipc/helpers.go markBoolMapForNamespace); the runner then holds that map
   around the body.  A name that appears in the write list is locked for WRITING whatever
   else the lists say (also when it is in the read list as well, also when it is
   repeated); a name only in the read list is locked for reading; every name is locked
   once; acquisition is in ascending name order.  Every pair of lists over three names
   is printed as a test: the real pip:run must take exactly these locks. *)
EXTENDS Naturals, Sequences, FiniteSets, TLC, Json
CONSTANTS Names, MaxList
Lists == UNION { [1..n -> Names] : n \in 0..MaxList }
VARIABLES rl, wl
vars == <<rl, wl>>
Init == rl \in Lists /\ wl \in Lists /\ (rl # <<>> \/ wl # <<>>)
Next == UNCHANGED vars
Spec == Init /\ [][Next]_vars
Set(s) == { s[i] : i \in 1..Len(s) }
Mode(n) == IF n \in Set(wl) THEN "W" ELSE "R"
Locked == Set(rl) \cup Set(wl)
Expected == { [name |-> n, mode |-> Mode(n)] : n \in Locked }
\* a writer named in both lists excludes readers of that name: the map never weakens a requested write lock
WriteWins == \A n \in Set(wl) : [name |-> n, mode |-> "W"] \in Expected
OncePerName == \A a, b \in Expected : a.name = b.name => a = b
EmitCase == PrintT(ToJson([k |-> "locklist", rl |-> rl, wl |-> wl, expected |-> Expected]))
Inv == WriteWins /\ OncePerName /\ EmitCase
=============================================================================
