SPECIFICATION Spec
CONSTANTS
  Holders = {h1, h2, h3}
  Names = {1, 2, 3}
  GlobalAcq = FALSE
  Sorted = TRUE
INVARIANTS Exclusion Independent
