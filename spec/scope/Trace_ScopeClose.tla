-------------------------- MODULE Trace_ScopeClose --------------------------
(* Trace validation for C11 (property layer of ScopeClose): what listeners and
   callers of real scope trees observed must be a behaviour of the close protocol.
   Per scope s (events of listeners registered on s itself, subject s):
     bclose ; then exactly one of bcommit,commit,acommit | brollback,rollback,arollback ;
     then aclose -- each once, in that order, only between close.start and close.end;
     the triple starts only when every task added to s has been handed to DoneTask
     and every child of s has fired its after-close;
     commit only if no error was certainly held when Close began and no before-close
     listener failed; rollback only if some error can be held;
     Close returns an error only if one can be held, nil only if none was certainly held;
     a second Close panics and fires nothing;
   at the end: a scope reports an error iff one was appended to its context (a shared
   child's error is the parent's, an isolated child's is not), and it is done iff its
   context -- or, for an isolated child, an ancestor's -- was stopped, killed or failed.
   Events of an ancestor's listeners (bubbling) must name a descendant as subject. *)
EXTENDS Naturals, Sequences, FiniteSets, TLC, Json

TraceLog == ndJsonDeserialize("trace.ndjson")
VARIABLES l, cfg, pos, triple, pend, errEnded, errStarted, ctxDone, mustRollback, listenerFailed, errAtStart, cstart, cend
tvars == <<l, cfg, pos, triple, pend, errEnded, errStarted, ctxDone, mustRollback, listenerFailed, errAtStart, cstart, cend>>
\* errAtStart[s] is re-sampled whenever the wait of s's Close becomes able to end (last task handed to DoneTask, last
\* child's after-close): an error that was certainly held THEN is held when the wait ends, so the triple must be rollback.

Ev == TraceLog[l]
IsEv(k) == l <= Len(TraceLog) /\ Ev.ev = k /\ l' = l + 1
Ids == DOMAIN cfg
RECURSIVE IsAncestor(_, _)
IsAncestor(a, s) == cfg[s].parent # "" /\ (cfg[s].parent = a \/ IsAncestor(a, cfg[s].parent))
Children(s) == { c \in Ids : cfg[c].parent = s }
\* done-ness reaches an isolated child from the context of its parent chain
RECURSIVE DoneExpected(_)
DoneExpected(s) == LET o == cfg[s].ctx IN ctxDone[o] \/ (cfg[o].parent # "" /\ cfg[o].isolated /\ DoneExpected(cfg[o].parent))

\* an error CAN be held by the context of s: appended to it, or -- for an isolated context -- inherited as a
\* kill from the parent chain (the watcher kills the isolated context when the parent ends with errors)
RECURSIVE PossErr(_)
PossErr(s) == LET o == cfg[s].ctx IN errStarted[o] \/ (cfg[o].parent # "" /\ cfg[o].isolated /\ PossErr(cfg[o].parent))

WaitCanEnd(s, pnd, ps) == pnd[s] = 0 /\ \A c \in { c \in DOMAIN cfg : cfg[c].parent = s } : ps[c] = 5
\* re-sample for every scope whose wait has just become able to end (and whose triple has not started)
Resample(pnd, ps, ee) == [s \in DOMAIN cfg |-> IF ps[s] <= 1 /\ WaitCanEnd(s, pnd, ps) /\ ~WaitCanEnd(s, pend, pos) THEN (errAtStart[s] \/ ee[cfg[s].ctx]) ELSE errAtStart[s]]

Init == /\ l = 1 /\ cfg = << >> /\ pos = << >> /\ triple = << >> /\ pend = << >> /\ errEnded = << >> /\ errStarted = << >>
        /\ ctxDone = << >> /\ mustRollback = << >> /\ listenerFailed = << >> /\ errAtStart = << >> /\ cstart = << >> /\ cend = << >>

Reset == /\ IsEv("reset")
         /\ LET sc == Ev.scopes
                ids == { sc[i].id : i \in 1..Len(sc) }
                rec(id) == sc[CHOOSE i \in 1..Len(sc) : sc[i].id = id] IN
            /\ cfg' = [id \in ids |-> rec(id)]
            /\ pos' = [id \in ids |-> 0] /\ triple' = [id \in ids |-> "none"]
            /\ pend' = [id \in ids |-> rec(id).tasks]
            /\ errEnded' = [id \in ids |-> FALSE] /\ errStarted' = [id \in ids |-> FALSE] /\ ctxDone' = [id \in ids |-> FALSE]
            /\ mustRollback' = [id \in ids |-> FALSE] /\ listenerFailed' = [id \in ids |-> FALSE]
            /\ errAtStart' = [id \in ids |-> FALSE] /\ cstart' = [id \in ids |-> 0] /\ cend' = [id \in ids |-> 0]
Same(vs) == UNCHANGED vs
DoneStart == /\ IsEv("done.start") /\ pend[Ev.scope] > 0 /\ pend' = [pend EXCEPT ![Ev.scope] = @ - 1]
             /\ errAtStart' = Resample(pend', pos, errEnded)
             /\ UNCHANGED <<cfg, pos, triple, errEnded, errStarted, ctxDone, mustRollback, listenerFailed, cstart, cend>>
IsErr(w) == w \in {"append", "kill"}
FailStart == /\ IsEv("fail.start") /\ errStarted' = [errStarted EXCEPT ![Ev.ctx] = @ \/ IsErr(Ev.what)]
             /\ UNCHANGED <<cfg, pos, triple, pend, errEnded, ctxDone, mustRollback, listenerFailed, errAtStart, cstart, cend>>
FailEnd == /\ IsEv("fail.end") /\ ~Ev.panic
           /\ errEnded' = [errEnded EXCEPT ![Ev.ctx] = @ \/ IsErr(Ev.what)]
           /\ ctxDone' = [ctxDone EXCEPT ![Ev.ctx] = TRUE]
           /\ UNCHANGED <<cfg, pos, triple, pend, errStarted, mustRollback, listenerFailed, errAtStart, cstart, cend>>
CloseStart == /\ IsEv("close.start") /\ cstart[Ev.scope] = 0
              /\ cstart' = [cstart EXCEPT ![Ev.scope] = 1] /\ errAtStart' = [errAtStart EXCEPT ![Ev.scope] = errEnded[cfg[Ev.scope].ctx]]
              /\ UNCHANGED <<cfg, pos, triple, pend, errEnded, errStarted, ctxDone, mustRollback, listenerFailed, cend>>
Close2Start == /\ IsEv("close2.start") /\ cend[Ev.scope] = 1
               /\ UNCHANGED <<cfg, pos, triple, pend, errEnded, errStarted, ctxDone, mustRollback, listenerFailed, errAtStart, cstart, cend>>
\* the protocol step a listener event of scope s on itself stands for
StepOk(s, name) ==
  CASE pos[s] = 0 -> name = "bclose" /\ cstart[s] = 1 /\ cend[s] = 0
    [] pos[s] = 1 -> /\ name \in {"bcommit", "brollback"}
                     /\ pend[s] = 0 /\ \A c \in Children(s) : pos[c] = 5
                     /\ (name = "bcommit" => ~errAtStart[s] /\ ~mustRollback[s])
                     /\ (name = "brollback" => PossErr(s) \/ mustRollback[s])
    [] pos[s] = 2 -> name = (IF triple[s] = "commit" THEN "commit" ELSE "rollback")
    [] pos[s] = 3 -> name = (IF triple[s] = "commit" THEN "acommit" ELSE "arollback")
    [] pos[s] = 4 -> name = "aclose"
    [] OTHER -> FALSE
\* a listener event that stands for a protocol step of scope s: the scope's own listener -- or an ANCESTOR's listener
\* that fails on it (the ancestors' listeners run first; the first failure ends the trigger, so the scope's own
\* listener is not called for that step and the failure is the step's error)
StepEffect(s, name, fails) ==
   /\ (StepOk(s, name) = TRUE)
   /\ pos' = [pos EXCEPT ![s] = @ + 1]
   /\ triple' = IF pos[s] = 1 THEN [triple EXCEPT ![s] = IF name = "bcommit" THEN "commit" ELSE "rollback"] ELSE triple
   /\ errEnded' = [errEnded EXCEPT ![cfg[s].ctx] = @ \/ fails]
   /\ errStarted' = [errStarted EXCEPT ![cfg[s].ctx] = @ \/ fails]
   /\ ctxDone' = [ctxDone EXCEPT ![cfg[s].ctx] = @ \/ fails]
   /\ mustRollback' = [mustRollback EXCEPT ![s] = @ \/ (fails /\ name = "bclose")]
   /\ listenerFailed' = [listenerFailed EXCEPT ![s] = @ \/ fails]
Event == /\ IsEv("event")
         /\ LET s == Ev.subject  o == Ev.owner IN
            /\ s \in Ids /\ o \in Ids
            /\ IF o # s /\ ~Ev.fails
               THEN /\ (IsAncestor(o, s) = TRUE)            \* a bubbled copy: only an ancestor's listener may see it
                    /\ UNCHANGED <<pos, triple, errEnded, errStarted, ctxDone, mustRollback, listenerFailed>>
                    /\ errAtStart' = errAtStart
               ELSE /\ (o = s \/ IsAncestor(o, s) = TRUE)
                    /\ StepEffect(s, Ev.name, Ev.fails)
                    /\ errAtStart' = Resample(pend, pos', errEnded')
         /\ UNCHANGED <<cfg, pend, cstart, cend>>
CloseEnd == /\ IsEv("close.end")
            /\ LET s == Ev.scope IN
               /\ ~Ev.panic /\ pos[s] = 5 /\ cend[s] = 0
               /\ (Ev.ret = "err" => PossErr(s))
               /\ (Ev.ret = "nil" => ~errAtStart[s] /\ ~listenerFailed[s])
               /\ cend' = [cend EXCEPT ![s] = 1]
            /\ UNCHANGED <<cfg, pos, triple, pend, errEnded, errStarted, ctxDone, mustRollback, listenerFailed, errAtStart, cstart>>
Close2End == /\ IsEv("close2.end") /\ Ev.panic          \* refused loudly; no event can have fired (pos = 5 has no successor)
             /\ UNCHANGED <<cfg, pos, triple, pend, errEnded, errStarted, ctxDone, mustRollback, listenerFailed, errAtStart, cstart, cend>>
Final == /\ IsEv("final")
         /\ LET s == Ev.scope IN
            /\ cend[s] = 1
            /\ (Ev.haserr => PossErr(s)) /\ (~Ev.haserr => ~errEnded[cfg[s].ctx])
            /\ (Ev.done = DoneExpected(s))
         /\ UNCHANGED <<cfg, pos, triple, pend, errEnded, errStarted, ctxDone, mustRollback, listenerFailed, errAtStart, cstart, cend>>
TraceNext == Reset \/ DoneStart \/ FailStart \/ FailEnd \/ CloseStart \/ Close2Start \/ Event \/ CloseEnd \/ Close2End \/ Final
TraceSpec == Init /\ [][TraceNext]_tvars
TraceAccepted == TLCGet("stats").diameter - 1 = Len(TraceLog)
=============================================================================
