------------------------- MODULE Trace_ScopeSignal -------------------------
(* Trace validation for C12 (property layer): start/end events of concurrent
   AppendError / Kill / Stop / IsDone / Errors calls on one scope.
   - no call panics;
   - an IsDone that answers FALSE must have started before any failing call had
     completed; one that answers TRUE needs some such call to have started;
   - Errors() sees at least the errors whose append had completed before it
     started and at most those whose append had started before it ended;
   - at the end every appended error is retained and done fired iff something ended the scope. *)
EXTENDS Naturals, Sequences, FiniteSets, TLC, Json

TraceLog == ndJsonDeserialize("trace.ndjson")
VARIABLES l, stored, started, doneSure, startedAny, snap
tvars == <<l, stored, started, doneSure, startedAny, snap>>

Init == l = 1 /\ stored = 0 /\ started = 0 /\ doneSure = FALSE /\ startedAny = FALSE /\ snap = << >>
Ev == TraceLog[l]
IsEv(k) == l <= Len(TraceLog) /\ Ev.ev = k /\ l' = l + 1
Ends(op) == op \in {"append", "kill", "stop"}
Reset == IsEv("reset") /\ stored' = 0 /\ started' = 0 /\ doneSure' = FALSE /\ startedAny' = FALSE /\ snap' = << >>
Start == /\ IsEv("start")
         /\ started' = started + Ev.n
         /\ startedAny' = (startedAny \/ Ends(Ev.op))
         /\ snap' = [t \in DOMAIN snap \cup {Ev.t} |-> IF t = Ev.t THEN [done |-> doneSure, stored |-> stored] ELSE snap[t]]
         /\ UNCHANGED <<stored, doneSure>>
End == /\ IsEv("end") /\ ~Ev.panic /\ Ev.t \in DOMAIN snap
       /\ (Ev.op = "isdone" => /\ (Ev.res = 0 => ~snap[Ev.t].done)
                               /\ (Ev.res = 1 => startedAny))
       /\ (Ev.op = "errors" => snap[Ev.t].stored <= Ev.res /\ Ev.res <= started)
       /\ stored' = stored + Ev.n
       /\ doneSure' = (doneSure \/ Ends(Ev.op))
       /\ UNCHANGED <<started, startedAny, snap>>
Final == /\ IsEv("final") /\ Ev.errors = stored /\ stored = started /\ Ev.done = doneSure
         /\ UNCHANGED <<stored, started, doneSure, startedAny, snap>>
TraceNext == Reset \/ Start \/ End \/ Final
TraceSpec == Init /\ [][TraceNext]_tvars
TraceAccepted == TLCGet("stats").diameter - 1 = Len(TraceLog)
=============================================================================
