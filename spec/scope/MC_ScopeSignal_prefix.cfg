SPECIFICATION Spec
CONSTANTS
  Procs = {1, 2, 3, 4}
  Variant = "prefix"
INVARIANTS NoPanic ClosedOnce AllRetained DoneFires ParentCanClose
