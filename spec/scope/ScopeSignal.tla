----------------------------- MODULE ScopeSignal -----------------------------
(* C12: failure signalling of a scope from any number of goroutines.
   State of one context scope: the error list (under its mutex), the done
   channel (closed or not).  Calls: AppendError = Store ; Stop,  Kill =
   AppendError(Canceled),  Stop.  Stop is
        Variant "current":  one once-guarded close                 (after the fix)
        Variant "prefix" :  Check (is it done?) ; Close             (two steps: the code before the fix)
   plus a child scope created on a parent that is already done: NewChild
   (registration refused) ; child Close, which signs off at the parent only if it
   was registered (Variant "current") or always ("prefix" -> negative WaitGroup).
   A panic (close of a closed channel, negative WaitGroup counter) is a state. *)
EXTENDS Naturals, Sequences, FiniteSets, TLC

CONSTANTS Procs,     \* caller processes
          Variant

VARIABLES Prog,      \* Procs -> "append" | "kill" | "stop" | "child"   (chosen in Init, then constant)
          errs, done, closes, pc, saw, panic, wg, registered
vars == <<Prog, errs, done, closes, pc, saw, panic, wg, registered>>

Stores(p) == Prog[p] \in {"append", "kill"}
Init == /\ Prog \in [Procs -> {"append", "kill", "stop", "child"}]
        /\ errs = 0 /\ done = FALSE /\ closes = 0 /\ saw = [p \in Procs |-> FALSE] /\ panic = FALSE /\ wg = 0
        /\ registered = [p \in Procs |-> FALSE]
        /\ pc = [p \in Procs |-> CASE Stores(p) -> "store" [] Prog[p] = "stop" -> "stop" [] OTHER -> "newchild"]

Store(p) == /\ pc[p] = "store" /\ errs' = errs + 1 /\ pc' = [pc EXCEPT ![p] = "stop"]
            /\ UNCHANGED <<Prog, done, closes, saw, panic, wg, registered>>
\* prefix: `if !s.IsDone() { close(s.done) }` is two steps
Check(p) == /\ Variant = "prefix" /\ pc[p] = "stop" /\ saw' = [saw EXCEPT ![p] = done]
            /\ pc' = [pc EXCEPT ![p] = "close"] /\ UNCHANGED <<Prog, errs, done, closes, panic, wg, registered>>
Close(p) == /\ Variant = "prefix" /\ pc[p] = "close"
            /\ IF saw[p] THEN UNCHANGED <<done, closes, panic>>
               ELSE /\ panic' = (panic \/ done) /\ done' = TRUE /\ closes' = closes + 1
            /\ pc' = [pc EXCEPT ![p] = "end"] /\ UNCHANGED <<Prog, errs, saw, wg, registered>>
\* current: once-guarded close
StopOnce(p) == /\ Variant = "current" /\ pc[p] = "stop"
               /\ IF done THEN UNCHANGED <<done, closes>> ELSE done' = TRUE /\ closes' = closes + 1
               /\ pc' = [pc EXCEPT ![p] = "end"] /\ UNCHANGED <<Prog, errs, saw, panic, wg, registered>>
\* a child created on the scope: AddTasks(1) is refused once the scope is done
NewChild(p) == /\ pc[p] = "newchild"
               /\ IF done THEN UNCHANGED <<wg, registered>>
                  ELSE wg' = wg + 1 /\ registered' = [registered EXCEPT ![p] = TRUE]
               /\ pc' = [pc EXCEPT ![p] = "closechild"] /\ UNCHANGED <<Prog, errs, done, closes, saw, panic>>
CloseChild(p) == /\ pc[p] = "closechild"
                 /\ IF registered[p] \/ Variant = "prefix"
                    THEN IF wg = 0 THEN panic' = TRUE /\ UNCHANGED wg ELSE wg' = wg - 1 /\ UNCHANGED panic
                    ELSE UNCHANGED <<wg, panic>>
                 /\ pc' = [pc EXCEPT ![p] = "end"] /\ UNCHANGED <<Prog, errs, done, closes, saw, registered>>
AllEnd == \A p \in Procs : pc[p] = "end"
Next == (\E p \in Procs : Store(p) \/ Check(p) \/ Close(p) \/ StopOnce(p) \/ NewChild(p) \/ CloseChild(p)) \/ (AllEnd /\ UNCHANGED vars)
Spec == Init /\ [][Next]_vars

NoPanic == ~panic
ClosedOnce == closes <= 1
AllRetained == AllEnd => errs = Cardinality({ p \in Procs : Stores(p) })
DoneFires == AllEnd /\ (\E p \in Procs : Prog[p] # "child") => done
ParentCanClose == AllEnd => wg = 0
=============================================================================
