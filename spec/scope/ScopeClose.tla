------------------------------ MODULE ScopeClose ------------------------------
(* C11: the close protocol of a scope and its child.
   Two scopes: P (root) and C (child of P; Kind "shared" uses P's error context,
   Kind "isolated" has its own and is stopped by a watcher when P's is done).
   Close(s) is the code's steps: CloseBegin (double-close guard, before-close) ;
   CloseWaited (enabled when the scope's WaitGroup is zero: all tasks done, all
   children signed off; samples "has an error") ; Triple (commit x3 or rollback x3) ;
   AfterClose ; SignOff at the parent ; CloseReturn (error iff the context holds one).
   Threads: one closer per scope, a worker finishing tasks, a failer that may append
   an error to C or stop P.  The event log is what listeners see.
   A TASK of a scope may report an error on it until it is handed to DoneTask -- also
   while the scope's Close is waiting for it (FailWhat "taskErrC" / "taskErrP"); with
   ClosedGuard (the scope counted as closed from the moment Close began) that report
   panics: NoTaskPanic is violated. *)
EXTENDS Naturals, Sequences, FiniteSets, TLC

CONSTANTS Kind,          \* "shared" | "isolated"
          FailWhat,      \* "none" | "errC" | "errP" | "stopP" | "killC" | "taskErrC" | "taskErrP"
          DoubleClose,   \* the closer of C calls Close a second time
          ClosedGuard    \* regression: the scope counts as closed as soon as its Close begins (fixed defect)

Scopes == {"P", "C"}
Ctx(s) == IF s = "C" /\ Kind = "isolated" THEN "C" ELSE "P"

VARIABLES wg, closing, closed, errs, done, log, cpc, hasErr, ret, wpc, fpc, panicked, watcher, tpanic
vars == <<wg, closing, closed, errs, done, log, cpc, hasErr, ret, wpc, fpc, panicked, watcher, tpanic>>

Init == /\ wg = [s \in Scopes |-> IF s = "P" THEN 2 ELSE 1]      \* P: one task + the child; C: one task
        /\ closing = [s \in Scopes |-> FALSE] /\ closed = [s \in Scopes |-> FALSE]
        /\ errs = [c \in {"P", "C"} |-> 0] /\ done = [c \in {"P", "C"} |-> FALSE]
        /\ log = <<>> /\ cpc = [s \in Scopes |-> "begin"] /\ hasErr = [s \in Scopes |-> FALSE]
        /\ ret = [s \in Scopes |-> "none"] /\ wpc = "taskC" /\ fpc = "go" /\ panicked = 0 /\ watcher = "watch" /\ tpanic = 0

Ev(s, e) == log' = Append(log, <<s, e>>)
\* ---- Close(s)
CloseBegin(s) == /\ cpc[s] = "begin" /\ ~closing[s] /\ closing' = [closing EXCEPT ![s] = TRUE] /\ Ev(s, "bclose")
                 /\ cpc' = [cpc EXCEPT ![s] = "wait"]
                 /\ UNCHANGED <<wg, closed, errs, done, hasErr, ret, wpc, fpc, panicked, watcher, tpanic>>
CloseWaited(s) == /\ cpc[s] = "wait" /\ wg[s] = 0 /\ hasErr' = [hasErr EXCEPT ![s] = errs[Ctx(s)] > 0]
                  /\ cpc' = [cpc EXCEPT ![s] = "triple"]
                  /\ UNCHANGED <<wg, closing, closed, errs, done, log, ret, wpc, fpc, panicked, watcher, tpanic>>
Triple(s) == /\ cpc[s] = "triple"
             /\ log' = log \o (IF hasErr[s] THEN << <<s, "brollback">>, <<s, "rollback">>, <<s, "arollback">> >>
                               ELSE << <<s, "bcommit">>, <<s, "commit">>, <<s, "acommit">> >>)
             /\ cpc' = [cpc EXCEPT ![s] = "after"]
             /\ UNCHANGED <<wg, closing, closed, errs, done, hasErr, ret, wpc, fpc, panicked, watcher, tpanic>>
AfterClose(s) == /\ cpc[s] = "after" /\ Ev(s, "aclose") /\ cpc' = [cpc EXCEPT ![s] = "signoff"]
                 /\ UNCHANGED <<wg, closing, closed, errs, done, hasErr, ret, wpc, fpc, panicked, watcher, tpanic>>
SignOff(s) == /\ cpc[s] = "signoff"
              /\ wg' = IF s = "C" THEN [wg EXCEPT !["P"] = @ - 1] ELSE wg
              /\ closed' = [closed EXCEPT ![s] = TRUE]
              /\ ret' = [ret EXCEPT ![s] = IF errs[Ctx(s)] > 0 THEN "err" ELSE "nil"]
              /\ cpc' = [cpc EXCEPT ![s] = IF s = "C" /\ DoubleClose THEN "again" ELSE "end"]
              /\ UNCHANGED <<closing, errs, done, log, hasErr, wpc, fpc, panicked, watcher, tpanic>>
\* a second Close is refused loudly and fires nothing
CloseAgain(s) == /\ cpc[s] = "again" /\ panicked' = panicked + 1 /\ cpc' = [cpc EXCEPT ![s] = "end"]
                 /\ UNCHANGED <<wg, closing, closed, errs, done, log, hasErr, ret, wpc, fpc, watcher, tpanic>>
\* ---- worker: finishes the task of C, then the task of P; a task may first report an error on its scope
TaskReport(s, next) == /\ IF ClosedGuard /\ closing[s]
                          THEN tpanic' = tpanic + 1 /\ UNCHANGED <<errs, done>>
                          ELSE /\ errs' = [errs EXCEPT ![Ctx(s)] = @ + 1] /\ done' = [done EXCEPT ![Ctx(s)] = TRUE] /\ UNCHANGED tpanic
                       /\ wpc' = next
                       /\ UNCHANGED <<wg, closing, closed, log, cpc, hasErr, ret, fpc, panicked, watcher>>
Worker == \/ /\ wpc = "taskC" /\ FailWhat = "taskErrC" /\ TaskReport("C", "taskC2")
          \/ /\ (wpc = "taskC2" \/ (wpc = "taskC" /\ FailWhat # "taskErrC")) /\ wg' = [wg EXCEPT !["C"] = @ - 1] /\ wpc' = "taskP"
             /\ UNCHANGED <<closing, closed, errs, done, log, cpc, hasErr, ret, fpc, panicked, watcher, tpanic>>
          \/ /\ wpc = "taskP" /\ FailWhat = "taskErrP" /\ TaskReport("P", "taskP2")
          \/ /\ (wpc = "taskP2" \/ (wpc = "taskP" /\ FailWhat # "taskErrP")) /\ wg' = [wg EXCEPT !["P"] = @ - 1] /\ wpc' = "end"
             /\ UNCHANGED <<closing, closed, errs, done, log, cpc, hasErr, ret, fpc, panicked, watcher, tpanic>>
\* ---- failer: an error / kill / stop before the addressed scope's own Close began
Failer == /\ fpc = "go" /\ fpc' = "end"
          /\ CASE FailWhat = "errC" /\ ~closing["C"] -> errs' = [errs EXCEPT ![Ctx("C")] = @ + 1] /\ done' = [done EXCEPT ![Ctx("C")] = TRUE]
               [] FailWhat = "killC" /\ ~closing["C"] -> errs' = [errs EXCEPT ![Ctx("C")] = @ + 1] /\ done' = [done EXCEPT ![Ctx("C")] = TRUE]
               [] FailWhat = "errP" /\ ~closing["P"] -> errs' = [errs EXCEPT !["P"] = @ + 1] /\ done' = [done EXCEPT !["P"] = TRUE]
               [] FailWhat = "stopP" /\ ~closing["P"] -> done' = [done EXCEPT !["P"] = TRUE] /\ UNCHANGED errs
               [] OTHER -> UNCHANGED <<errs, done, tpanic>>
          /\ UNCHANGED <<wg, closing, closed, log, cpc, hasErr, ret, wpc, panicked, watcher, tpanic>>
\* ---- the isolated context's watcher: parent done => child killed (parent has errors) or stopped
Watch == /\ Kind = "isolated" /\ watcher = "watch" /\ done["P"] /\ watcher' = "fired"
         /\ done' = [done EXCEPT !["C"] = TRUE]
         /\ errs' = IF errs["P"] > 0 /\ ~done["C"] THEN [errs EXCEPT !["C"] = @ + 1] ELSE errs
         /\ UNCHANGED <<wg, closing, closed, log, cpc, hasErr, ret, wpc, fpc, panicked, tpanic>>
AllEnd == \A s \in Scopes : cpc[s] = "end"
Next == \/ \E s \in Scopes : CloseBegin(s) \/ CloseWaited(s) \/ Triple(s) \/ AfterClose(s) \/ SignOff(s) \/ CloseAgain(s)
        \/ Worker \/ Failer \/ Watch \/ (AllEnd /\ UNCHANGED vars)
Spec == Init /\ [][Next]_vars /\ WF_vars(Next) /\ WF_vars(Watch)

\* ---- properties over the log
Pos(s, e) == { i \in 1..Len(log) : log[i] = <<s, e>> }
Once(s, e) == Cardinality(Pos(s, e)) <= 1
EachOnce == \A s \in Scopes : \A e \in {"bclose", "bcommit", "commit", "acommit", "brollback", "rollback", "arollback", "aclose"} : Once(s, e)
Before(s, a, b) == \A i \in Pos(s, a), j \in Pos(s, b) : i < j
Ordered == \A s \in Scopes : /\ Before(s, "bclose", "bcommit") /\ Before(s, "bcommit", "commit") /\ Before(s, "commit", "acommit") /\ Before(s, "acommit", "aclose")
                              /\ Before(s, "bclose", "brollback") /\ Before(s, "brollback", "rollback") /\ Before(s, "rollback", "arollback") /\ Before(s, "arollback", "aclose")
CommitXorRollback == \A s \in Scopes : ~(Pos(s, "commit") # {} /\ Pos(s, "rollback") # {})
FullProtocol == \A s \in Scopes : cpc[s] = "end" => (Pos(s, "bclose") # {} /\ Pos(s, "aclose") # {} /\ (Pos(s, "commit") # {} \/ Pos(s, "rollback") # {}))
RollbackIffError == \A s \in Scopes : (Pos(s, "rollback") # {} => hasErr[s]) /\ (Pos(s, "commit") # {} => ~hasErr[s])
ParentWaitsForChild == Pos("P", "bcommit") \cup Pos("P", "brollback") # {} => closed["C"]
WaitsForTasks == \A s \in Scopes : cpc[s] \in {"triple", "after", "signoff", "again", "end"} => wg[s] = 0
ReturnsErrorIffHeld == \A s \in Scopes : ret[s] = "err" => errs[Ctx(s)] > 0
SharedFailsParent == (Kind = "shared" /\ FailWhat \in {"errC", "killC"} /\ fpc = "end" /\ errs["P"] = 0) => closing["C"]
IsolatedFailsAlone == (Kind = "isolated" /\ FailWhat \in {"errC", "killC"}) => errs["P"] = 0
DoubleCloseRefused == (cpc["C"] = "end" /\ DoubleClose) => (panicked = 1 /\ EachOnce)
ParentStopReachesIsolated == (Kind = "isolated" /\ FailWhat \in {"stopP", "errP"}) => <>(done["P"] => done["C"])
NoTaskPanic == tpanic = 0
\* an error reported by a task is held when the wait ends: the scope that waited for it rolls back
TaskErrorRollsBack == /\ (FailWhat = "taskErrC" /\ ~ClosedGuard => Pos("C", "commit") = {})
                      /\ (FailWhat = "taskErrP" /\ ~ClosedGuard => Pos("P", "commit") = {})
Terminates == <>AllEnd
=============================================================================
