SPECIFICATION TraceSpec
CONSTRAINT HighWater
POSTCONDITION TraceAccepted
CHECK_DEADLOCK FALSE
