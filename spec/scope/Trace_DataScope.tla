--------------------------- MODULE Trace_DataScope ---------------------------
(* Trace validation for C13: linearizability of concurrent data-scope calls with
   respect to the overlay semantics, including exclusive locked sections.
   The log has call / ret events of every operation of every goroutine (ordered by
   a harness mutex).  The effect of a call is an internal step placed by TLC
   somewhere between its call and its ret event:
     get(s,k)   looks in s; on a miss continues in the parent (one step per level,
                as the code does); the mutex of the level must be free
     set(s,k,v) writes s only (never the parent); the mutex of s must be free; v = 1 stands for an explicit
                nil: the key is PRESENT on that level and shadows the parent (a read answers 0 = nil)
     lock(s)    takes the mutex of s (free) ; lget / lset by the holder ; commit releases
   so no other goroutine's read, write or lock on s can take effect inside a locked
   section, and a read-modify-write under the lock is never lost. *)
EXTENDS Naturals, Sequences, FiniteSets, TLC, Json

TraceLog == ndJsonDeserialize("trace.ndjson")
VARIABLES l, data, holder, parent, pend
tvars == <<l, data, holder, parent, pend>>

Ev == TraceLog[l]
Keys == {"a", "b", "cnt"}
\* what a reader is handed for a stored value: 1 is "present with nil"
Shown(v) == IF v = 1 THEN 0 ELSE v
Init == TLCSet(1, 1) /\ l = 1 /\ data = << >> /\ holder = << >> /\ parent = << >> /\ pend = << >>
Adv == l' = l + 1
Reset == /\ l <= Len(TraceLog) /\ Ev.ev = "reset" /\ Adv
         /\ LET ids == { Ev.scopes[i].id : i \in 1..Len(Ev.scopes) } IN
            /\ data' = [s \in ids |-> [k \in Keys |-> 0]]
            /\ holder' = [s \in ids |-> 0]
            /\ parent' = [s \in ids |-> (Ev.scopes[CHOOSE i \in 1..Len(Ev.scopes) : Ev.scopes[i].id = s]).parent]
         /\ pend' = << >>
Call == /\ l <= Len(TraceLog) /\ Ev.ev = "call" /\ Adv /\ Ev.t \notin DOMAIN pend
        /\ pend' = [x \in DOMAIN pend \cup {Ev.t} |->
                      IF x = Ev.t THEN [op |-> Ev.op, s |-> Ev.s, k |-> Ev.k, v |-> Ev.v, at |-> Ev.s, done |-> FALSE, res |-> 0] ELSE pend[x]]
        /\ UNCHANGED <<data, holder, parent>>
Free(s, t) == holder[s] = 0
Lin == /\ UNCHANGED <<l, parent>>
       /\ \E t \in DOMAIN pend :
          LET p == pend[t] IN
          /\ ~p.done
          /\ CASE p.op = "get" ->
                    /\ Free(p.at, t) /\ UNCHANGED <<data, holder>>
                    /\ IF data[p.at][p.k] # 0 THEN pend' = [pend EXCEPT ![t].done = TRUE, ![t].res = Shown(data[p.at][p.k])]
                       ELSE IF parent[p.at] # "" THEN pend' = [pend EXCEPT ![t].at = parent[p.at]]
                       ELSE pend' = [pend EXCEPT ![t].done = TRUE, ![t].res = 0]
               [] p.op = "set" -> /\ Free(p.s, t) /\ data' = [data EXCEPT ![p.s][p.k] = p.v] /\ UNCHANGED holder
                                  /\ pend' = [pend EXCEPT ![t].done = TRUE]
               [] p.op = "lock" -> /\ Free(p.s, t) /\ holder' = [holder EXCEPT ![p.s] = t] /\ UNCHANGED data
                                   /\ pend' = [pend EXCEPT ![t].done = TRUE]
               [] p.op = "lget" ->
                    /\ UNCHANGED <<data, holder>>
                    /\ IF p.at = p.s
                       THEN /\ holder[p.s] = t
                            /\ IF data[p.s][p.k] # 0 THEN pend' = [pend EXCEPT ![t].done = TRUE, ![t].res = Shown(data[p.s][p.k])]
                               ELSE IF parent[p.s] # "" THEN pend' = [pend EXCEPT ![t].at = parent[p.s]]
                               ELSE pend' = [pend EXCEPT ![t].done = TRUE, ![t].res = 0]
                       ELSE /\ Free(p.at, t)             \* the fall-through above the locked scope is a plain read
                            /\ IF data[p.at][p.k] # 0 THEN pend' = [pend EXCEPT ![t].done = TRUE, ![t].res = Shown(data[p.at][p.k])]
                               ELSE IF parent[p.at] # "" THEN pend' = [pend EXCEPT ![t].at = parent[p.at]]
                               ELSE pend' = [pend EXCEPT ![t].done = TRUE, ![t].res = 0]
               [] p.op = "lset" -> /\ holder[p.s] = t /\ data' = [data EXCEPT ![p.s][p.k] = p.v] /\ UNCHANGED holder
                                   /\ pend' = [pend EXCEPT ![t].done = TRUE]
               [] p.op = "commit" -> /\ holder[p.s] = t /\ holder' = [holder EXCEPT ![p.s] = 0] /\ UNCHANGED data
                                     /\ pend' = [pend EXCEPT ![t].done = TRUE]
Ret == /\ l <= Len(TraceLog) /\ Ev.ev = "ret" /\ Adv
       /\ Ev.t \in DOMAIN pend /\ pend[Ev.t].done /\ pend[Ev.t].res = Ev.res
       /\ pend' = [x \in DOMAIN pend \ {Ev.t} |-> pend[x]]
       /\ UNCHANGED <<data, holder, parent>>
\* at the end of a scenario the real values of every key of every scope are logged
Final == /\ l <= Len(TraceLog) /\ Ev.ev = "final" /\ Adv /\ pend = << >>
         /\ data[Ev.s][Ev.k] = Ev.v
         /\ UNCHANGED <<data, holder, parent, pend>>
TraceNext == Reset \/ Call \/ Lin \/ Ret \/ Final
TraceSpec == Init /\ [][TraceNext]_tvars
HighWater == TLCSet(1, IF TLCGet(1) < l THEN l ELSE TLCGet(1))
TraceAccepted == IF TLCGet(1) = Len(TraceLog) + 1 THEN TRUE ELSE Print(<<"HIGHWATER", TLCGet(1)>>, FALSE)
=============================================================================
