------------------------------ MODULE DataScope ------------------------------
(* C13: data scopes.  A chain  P <- C  (child overlays parent), each a map under
   an RW mutex.  Threads run programs of plain Get/Set and locked sections
   Lock ; Get ; Set(+1) ; Commit  (a read-modify-write on a counter key).
   Plain operations take the scope's mutex for one step; a child Get that misses
   falls through to the parent in a second step (as the code does); LockData
   holds the mutex until Commit.  Variant "nolock": LockData does not take the
   mutex (regression model: updates are lost).
   Getters run the get-or-create idiom of the services bound to a scope (task manager,
   environments, wait manager):  Lock ; Get ; if absent create and Set ; Commit.
   Variant "checkoutside" (regression) reads with a plain Get BEFORE taking the lock and
   does not look again inside it: two first callers create two instances. *)
EXTENDS Naturals, Sequences, FiniteSets, TLC

CONSTANTS Incs,        \* threads doing one locked increment each, on scope IncScope
          Setters,     \* threads doing a plain Set of key "k" on scope "C" then a Get through C
          Getters,     \* threads doing get-or-create of key "svc" on scope IncScope
          IncScope, Variant

Scopes == {"P", "C"}
Threads == Incs \cup Setters \cup Getters
VARIABLES data,      \* scope -> (key -> value); absent key = 0 means "not set"
          holder,    \* scope -> thread holding the write lock, or 0
          pc, tmp, got
vars == <<data, holder, pc, tmp, got>>

Init == /\ data = [s \in Scopes |-> [k \in {"cnt", "k", "svc"} |-> IF s = "P" /\ k = "k" THEN 100 ELSE 0]]
        /\ holder = [s \in Scopes |-> 0]
        /\ pc = [t \in Threads |-> IF t \in Incs THEN "lock" ELSE IF t \in Setters THEN "set"
                                     ELSE IF Variant = "checkoutside" THEN "gcheck" ELSE "glock"]
        /\ tmp = [t \in Threads |-> 0] /\ got = [t \in Threads |-> 0]

Free(s) == holder[s] = 0
Lookup(s, k) == IF s = "C" /\ data["C"][k] # 0 THEN data["C"][k] ELSE IF s = "C" THEN data["P"][k] ELSE data["P"][k]

\* ---- locked increment
Lock(t) == /\ pc[t] = "lock" /\ (Variant = "nolock" \/ Free(IncScope))
           /\ holder' = IF Variant = "nolock" THEN holder ELSE [holder EXCEPT ![IncScope] = t]
           /\ pc' = [pc EXCEPT ![t] = "lget"] /\ UNCHANGED <<data, tmp, got>>
LGet(t) == /\ pc[t] = "lget" /\ tmp' = [tmp EXCEPT ![t] = data[IncScope]["cnt"]] /\ pc' = [pc EXCEPT ![t] = "lset"]
           /\ UNCHANGED <<data, holder, got>>
LSet(t) == /\ pc[t] = "lset" /\ data' = [data EXCEPT ![IncScope]["cnt"] = tmp[t] + 1] /\ pc' = [pc EXCEPT ![t] = "commit"]
           /\ UNCHANGED <<holder, tmp, got>>
Commit(t) == /\ pc[t] = "commit" /\ holder' = IF Variant = "nolock" THEN holder ELSE [holder EXCEPT ![IncScope] = 0]
             /\ pc' = [pc EXCEPT ![t] = "end"] /\ UNCHANGED <<data, tmp, got>>
\* ---- plain Set on the child, then a Get through the child (two steps when it misses)
PSet(t) == /\ pc[t] = "set" /\ Free("C") /\ data' = [data EXCEPT !["C"]["k"] = 10 + t] /\ pc' = [pc EXCEPT ![t] = "get1"]
           /\ UNCHANGED <<holder, tmp, got>>
PGet1(t) == /\ pc[t] = "get1" /\ Free("C")
            /\ IF data["C"]["k"] # 0 THEN got' = [got EXCEPT ![t] = data["C"]["k"]] /\ pc' = [pc EXCEPT ![t] = "end"]
               ELSE pc' = [pc EXCEPT ![t] = "get2"] /\ UNCHANGED got
            /\ UNCHANGED <<data, holder, tmp>>
PGet2(t) == /\ pc[t] = "get2" /\ Free("P") /\ got' = [got EXCEPT ![t] = data["P"]["k"]] /\ pc' = [pc EXCEPT ![t] = "end"]
            /\ UNCHANGED <<data, holder, tmp>>
\* ---- get-or-create of a service bound to the scope (instance = the creating thread's id)
GCheck(t) == /\ pc[t] = "gcheck" /\ Free(IncScope)
             /\ IF data[IncScope]["svc"] # 0 THEN got' = [got EXCEPT ![t] = data[IncScope]["svc"]] /\ pc' = [pc EXCEPT ![t] = "end"]
                ELSE pc' = [pc EXCEPT ![t] = "glock"] /\ UNCHANGED got
             /\ UNCHANGED <<data, holder, tmp>>
GLock(t) == /\ pc[t] = "glock" /\ Free(IncScope) /\ holder' = [holder EXCEPT ![IncScope] = t]
            /\ pc' = [pc EXCEPT ![t] = "gget"] /\ UNCHANGED <<data, tmp, got>>
GGet(t) == /\ pc[t] = "gget"
           /\ IF Variant # "checkoutside" /\ data[IncScope]["svc"] # 0
              THEN got' = [got EXCEPT ![t] = data[IncScope]["svc"]] /\ UNCHANGED data
              ELSE data' = [data EXCEPT ![IncScope]["svc"] = t] /\ got' = [got EXCEPT ![t] = t]
           /\ pc' = [pc EXCEPT ![t] = "gcommit"] /\ UNCHANGED <<holder, tmp>>
GCommit(t) == /\ pc[t] = "gcommit" /\ holder' = [holder EXCEPT ![IncScope] = 0] /\ pc' = [pc EXCEPT ![t] = "end"]
              /\ UNCHANGED <<data, tmp, got>>
AllEnd == \A t \in Threads : pc[t] = "end"
Next == (\E t \in Threads : GCheck(t) \/ GLock(t) \/ GGet(t) \/ GCommit(t) \/ Lock(t) \/ LGet(t) \/ LSet(t) \/ Commit(t) \/ PSet(t) \/ PGet1(t) \/ PGet2(t)) \/ (AllEnd /\ UNCHANGED vars)
Spec == Init /\ [][Next]_vars /\ WF_vars(Next)

NoLostUpdate == AllEnd => data[IncScope]["cnt"] = Cardinality(Incs)
OneHolder == \A t1, t2 \in Incs : (t1 # t2 /\ pc[t1] \in {"lget", "lset", "commit"} /\ pc[t2] \in {"lget", "lset", "commit"}) => Variant = "nolock"
ChildSetLeavesParent == data["P"]["k"] = 100
ChildOverlays == \A t \in Setters : pc[t] = "end" => got[t] \in { 10 + x : x \in Setters }
OneInstance == \A t1, t2 \in Getters : (pc[t1] = "end" /\ pc[t2] = "end") => got[t1] = got[t2]
Terminates == <>AllEnd
=============================================================================
