------------------------------ MODULE DataScope ------------------------------
(* C13: data scopes.  A chain  P <- C  (child overlays parent), each a map under
   an RW mutex.  Threads run programs of plain Get/Set and locked sections
   Lock ; Get ; Set(+1) ; Commit  (a read-modify-write on a counter key).
   Plain operations take the scope's mutex for one step; a child Get that misses
   falls through to the parent in a second step (as the code does); LockData
   holds the mutex until Commit.  Variant "nolock": LockData does not take the
   mutex (regression model: updates are lost). *)
EXTENDS Naturals, Sequences, FiniteSets, TLC

CONSTANTS Incs,        \* threads doing one locked increment each, on scope IncScope
          Setters,     \* threads doing a plain Set of key "k" on scope "C" then a Get through C
          IncScope, Variant

Scopes == {"P", "C"}
Threads == Incs \cup Setters
VARIABLES data,      \* scope -> (key -> value); absent key = 0 means "not set"
          holder,    \* scope -> thread holding the write lock, or 0
          pc, tmp, got
vars == <<data, holder, pc, tmp, got>>

Init == /\ data = [s \in Scopes |-> [k \in {"cnt", "k"} |-> IF s = "P" /\ k = "k" THEN 100 ELSE 0]]
        /\ holder = [s \in Scopes |-> 0]
        /\ pc = [t \in Threads |-> IF t \in Incs THEN "lock" ELSE "set"]
        /\ tmp = [t \in Threads |-> 0] /\ got = [t \in Threads |-> 0]

Free(s) == holder[s] = 0
Lookup(s, k) == IF s = "C" /\ data["C"][k] # 0 THEN data["C"][k] ELSE IF s = "C" THEN data["P"][k] ELSE data["P"][k]

\* ---- locked increment
Lock(t) == /\ pc[t] = "lock" /\ (Variant = "nolock" \/ Free(IncScope))
           /\ holder' = IF Variant = "nolock" THEN holder ELSE [holder EXCEPT ![IncScope] = t]
           /\ pc' = [pc EXCEPT ![t] = "lget"] /\ UNCHANGED <<data, tmp, got>>
LGet(t) == /\ pc[t] = "lget" /\ tmp' = [tmp EXCEPT ![t] = data[IncScope]["cnt"]] /\ pc' = [pc EXCEPT ![t] = "lset"]
           /\ UNCHANGED <<data, holder, got>>
LSet(t) == /\ pc[t] = "lset" /\ data' = [data EXCEPT ![IncScope]["cnt"] = tmp[t] + 1] /\ pc' = [pc EXCEPT ![t] = "commit"]
           /\ UNCHANGED <<holder, tmp, got>>
Commit(t) == /\ pc[t] = "commit" /\ holder' = IF Variant = "nolock" THEN holder ELSE [holder EXCEPT ![IncScope] = 0]
             /\ pc' = [pc EXCEPT ![t] = "end"] /\ UNCHANGED <<data, tmp, got>>
\* ---- plain Set on the child, then a Get through the child (two steps when it misses)
PSet(t) == /\ pc[t] = "set" /\ Free("C") /\ data' = [data EXCEPT !["C"]["k"] = 10 + t] /\ pc' = [pc EXCEPT ![t] = "get1"]
           /\ UNCHANGED <<holder, tmp, got>>
PGet1(t) == /\ pc[t] = "get1" /\ Free("C")
            /\ IF data["C"]["k"] # 0 THEN got' = [got EXCEPT ![t] = data["C"]["k"]] /\ pc' = [pc EXCEPT ![t] = "end"]
               ELSE pc' = [pc EXCEPT ![t] = "get2"] /\ UNCHANGED got
            /\ UNCHANGED <<data, holder, tmp>>
PGet2(t) == /\ pc[t] = "get2" /\ Free("P") /\ got' = [got EXCEPT ![t] = data["P"]["k"]] /\ pc' = [pc EXCEPT ![t] = "end"]
            /\ UNCHANGED <<data, holder, tmp>>
AllEnd == \A t \in Threads : pc[t] = "end"
Next == (\E t \in Threads : Lock(t) \/ LGet(t) \/ LSet(t) \/ Commit(t) \/ PSet(t) \/ PGet1(t) \/ PGet2(t)) \/ (AllEnd /\ UNCHANGED vars)
Spec == Init /\ [][Next]_vars /\ WF_vars(Next)

NoLostUpdate == AllEnd => data[IncScope]["cnt"] = Cardinality(Incs)
OneHolder == \A t1, t2 \in Incs : (t1 # t2 /\ pc[t1] \in {"lget", "lset", "commit"} /\ pc[t2] \in {"lget", "lset", "commit"}) => Variant = "nolock"
ChildSetLeavesParent == data["P"]["k"] = 100
ChildOverlays == \A t \in Setters : pc[t] = "end" => got[t] \in { 10 + x : x \in Setters }
Terminates == <>AllEnd
=============================================================================
