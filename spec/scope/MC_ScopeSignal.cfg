SPECIFICATION Spec
CONSTANTS
  Procs = {1, 2, 3, 4}
  Variant = "current"
INVARIANTS NoPanic ClosedOnce AllRetained DoneFires ParentCanClose
