SPECIFICATION Spec
CONSTANTS
  Names = {"a", "b"}
  Data = {"y"}
  MaxDepth = 2
  MaxOps = 2
  MaxCommits = 2
  WithFault = TRUE
  Spine = FALSE
  Emit = FALSE
INVARIANTS ViewEqIdealOL CommitExactRR FaultReportedRR RemoteUntouched CommitExact FaultReported CleanCommitNeverFails ViewEqIdeal
VIEW ViewHist
CONSTRAINT Explorable
CHECK_DEADLOCK FALSE
