SPECIFICATION Spec
CONSTANTS
  Names = {"a", "b"}
  Data = {"y"}
  MaxDepth = 2
  MaxOps = 4
  MaxCommits = 1
  WithFault = FALSE
  Emit = FALSE
INVARIANTS RemoteUntouched CommitExact FaultReported CleanCommitNeverFails ViewEqIdeal
VIEW ViewHist
CONSTRAINT Clean
CHECK_DEADLOCK FALSE
