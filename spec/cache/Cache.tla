-------------------------------- MODULE Cache --------------------------------
(* C06 / C07: the write-back cache (filesystem/fscache).

   IMPLEMENTATION LAYER (what cache.go does): `remote` and `buffer` are FsTree
   trees, the four journals are sets of paths (never cleared), every cache
   method is one action transcribed from the code ("journal first, then act on
   the buffer", source side chosen by IsExist(buffer)), and Commit is the four
   phases of the code, each iterating its journal in ARBITRARY order (Go map
   order), one remote call at a time; `fault` = k makes the k-th mutating
   remote call of a Commit fail.

   PROPERTY LAYER: `ideal` = the successful operations applied directly to the
   remote's initial tree with FsTree.  C06: RemoteUntouched, CommitExact,
   RetryConverges.  C07: ViewEqIdeal for every read-type call.

   NAMED DEVIATIONS: the implementation layer does NOT refine the property
   layer.  Trig(...) evaluates, when an operation is issued, which documented
   deviation it may trigger; `dev` accumulates them.  The invariants are
   checked under dev = {} (TLC proves the list complete for the bound: outside
   the triggers the implementation model equals the ideal).  A directory copy
   that succeeds is always inside D_DirCopy (the journal holds only the
   destination path and Commit transfers files, so the copied tree never
   reaches the remote) and, when the source directory exists in the buffer,
   possibly inside D_SplitCopy (children that only the remote has are not
   copied); the implementation layer models it for every conflict-free
   destination (a destination whose existing nodes clash in kind with the
   copied ones makes the result depend on the walk order: not enabled). *)
EXTENDS FsTree, TLC, Json

CONSTANTS Names, Data, MaxDepth, MaxOps, MaxCommits, WithFault, Emit, Spine

VARIABLES remote, buffer, rm, rmAll, mk, wr,    \* implementation state
          remote0, ideal, dev,                 \* ghost: initial remote, ideal tree, triggered deviations
          nops, ncommits, lastFaulted, hist
vars == <<remote, buffer, rm, rmAll, mk, wr, remote0, ideal, dev, nops, ncommits, lastFaulted, hist>>

\* Spine = TRUE: instead of every path up to MaxDepth, ONE deep spine with two leaves (a, a/b, a/b/a, a/b/b): three
\* levels stay explorable, and histories such as "write below a/b, remove a recursively, write below a/b again" exist
Paths == IF Spine THEN {<<"a">>, <<"a", "b">>, <<"a", "b", "a">>, <<"a", "b", "b">>}
         ELSE UNION { [1..n -> Names] : n \in 1..MaxDepth }
RemoteInits == { t \in UNION { [S -> {"D", "x"}] : S \in SUBSET Paths } : Wf(t) }

\* single outcome of a deterministic FsTree call (the cache never addresses the root)
The(S) == CHOOSE x \in S : TRUE
ResOk(o) == o.res = OK

Src(p) == IF IsExist(buffer, p) THEN buffer ELSE remote
TJ(t) == { <<p, t[p]>> : p \in DOMAIN t }

\* ------------------------------------------------------------------ view (C07)
SrcOf(b, r, p) == IF IsExist(b, p) THEN b ELSE r
ViewAt(b, r, p) ==
  LET rl == IF IsDir(r, p) THEN Listing(r, p) ELSE {}
      bl == IF IsDir(b, p) THEN Listing(b, p) ELSE {} IN
  [exist |-> IsExist(b, p) \/ IsExist(r, p),
   file  |-> IsFile(b, p) \/ IsFile(r, p),
   dir   |-> IsDir(b, p) \/ IsDir(r, p),
   read  |-> The(ReadFile(SrcOf(b, r, p), p)).res,
   lstat |-> The(Lstat(SrcOf(b, r, p), p)).res,
   \* remote entries first, buffer entries with a new NAME appended; error only if both sides fail
   list  |-> IF ~IsDir(r, p) /\ ~IsDir(b, p) THEN ERR ELSE Lst(rl \cup { e \in bl : \A x \in rl : x[1] # e[1] })]
ViewOf(p) == ViewAt(buffer, remote, p)
IdealAt(t, p) == [exist |-> IsExist(t, p), file |-> IsFile(t, p), dir |-> IsDir(t, p),
                  read |-> The(ReadFile(t, p)).res, lstat |-> The(Lstat(t, p)).res, list |-> The(ReadDir(t, p)).res]
IdealOf(p) == IdealAt(ideal, p)

\* ------------------------------------------------------------------ named deviations
RemoteHas(p) == p \in DOMAIN remote
Trig(name, p, q, res, idealOut) ==
      (IF res = OK /\ idealOut.res # OK THEN {"D_AcceptsRejected"} ELSE {})
 \cup (IF res # OK /\ idealOut.res = OK THEN {"D_RejectsAccepted"} ELSE {})
 \cup (IF name \in {"remove", "removeall"} /\ (RemoteHas(p) \/ Under(remote, p) # {}) THEN {"D_RemoveRemote"} ELSE {})
 \* the part of D_RemoveRemote that outlives Commit: a NON-recursive remove of a remote directory is never applied
 \cup (IF name = "remove" /\ IsDir(remote, p) THEN {"D_RemoveRemoteDir"} ELSE {})
 \cup (IF name \in {"remove", "removeall"} /\ \E x \in wr \cup mk : IsPrefixOf(p, x) THEN {"D_OrderLost"} ELSE {})
 \cup (IF res # OK /\ name \in {"write", "wstream", "mkdir", "copyfile"} THEN {"D_FailedJournaled"} ELSE {})
 \cup (IF name = "copydir" /\ res = OK THEN {"D_DirCopy"} ELSE {})
 \cup (IF name = "copydir" /\ res = OK /\ IsExist(buffer, p) /\ \E x \in Under(remote, p) : x \notin DOMAIN buffer THEN {"D_SplitCopy"} ELSE {})

Init == /\ remote \in RemoteInits /\ remote0 = remote /\ ideal = remote
        /\ buffer = EmptyTree /\ rm = {} /\ rmAll = {} /\ mk = {} /\ wr = {}
        /\ dev = {} /\ nops = 0 /\ ncommits = 0 /\ lastFaulted = FALSE /\ hist = <<>>

Idle == nops < MaxOps
Rec(name, p, q, d, res, idealOut) ==
    /\ ideal' = IF res = OK /\ idealOut.res = OK THEN idealOut.t ELSE ideal
    /\ dev' = dev \cup Trig(name, p, q, res, idealOut)
    /\ nops' = nops + 1
    /\ hist' = Append(hist, [name |-> name, p |-> p, q |-> q, d |-> d, k |-> 0, res |-> res, after |-> {}])
    /\ UNCHANGED <<remote, remote0, ncommits, lastFaulted>>

CWrite(name, p, d) ==            \* WriteFile and Writer+Write+Close: journal, then the buffer
    /\ Idle /\ wr' = wr \cup {p}
    /\ LET o == The(WriteFile(buffer, p, d)) IN buffer' = o.t /\ Rec(name, p, <<>>, d, o.res, The(WriteFile(ideal, p, d)))
    /\ UNCHANGED <<rm, rmAll, mk>>
CMkdir(p) ==
    /\ Idle /\ mk' = mk \cup {p}
    /\ LET o == The(MkdirAll(buffer, p)) IN buffer' = o.t /\ Rec("mkdir", p, <<>>, "", o.res, The(MkdirAll(ideal, p)))
    /\ UNCHANGED <<rm, rmAll, wr>>
\* Remove / RemoveAll: act on the buffer only if the buffer has the node; journal in any case; nil otherwise.
\* The ideal outcome of removing a missing path is unspecified (U1): the ideal tree is unchanged either way.
IdealRemove(p, all) == IF p \in DOMAIN ideal THEN The(IF all THEN RemoveAll(ideal, p) ELSE Remove(ideal, p))
                       ELSE O(ideal, ERR)
CRemove(p) ==
    /\ Idle /\ rm' = rm \cup {p}
    /\ LET o == IF IsExist(buffer, p) THEN The(Remove(buffer, p)) ELSE O(buffer, OK) IN
         buffer' = o.t /\ Rec("remove", p, <<>>, "", o.res, IdealRemove(p, FALSE))
    /\ UNCHANGED <<rmAll, mk, wr>>
CRemoveAll(p) ==
    /\ Idle /\ rmAll' = rmAll \cup {p}
    /\ LET o == IF IsExist(buffer, p) THEN The(RemoveAll(buffer, p)) ELSE O(buffer, OK) IN
         buffer' = o.t /\ Rec("removeall", p, <<>>, "", o.res, IdealRemove(p, TRUE))
    /\ UNCHANGED <<rm, mk, wr>>
\* CopyFile (and Copy of a file): source side by IsExist(buffer); destination written into the buffer
\* copying onto an existing destination is corner U3 of FsTree; direct application to the in-memory
\* remote refuses it, so the ideal does too (the cache accepting it is D_AcceptsRejected)
IdealCopyFile(s, d) == IF IsExist(ideal, d) THEN O(ideal, ERR) ELSE The(CopyOp(ideal, s, d, "file"))
CCopyFile(s, d) ==
    /\ Idle
    /\ IF ~IsFile(Src(s), s)
       THEN /\ UNCHANGED <<wr, buffer>> /\ Rec("copyfile", s, d, "", ERR, IdealCopyFile(s, d))
       ELSE /\ wr' = wr \cup {d}
            /\ LET o == The(WriteFile(buffer, d, Src(s)[s])) IN buffer' = o.t /\ Rec("copyfile", s, d, "", o.res, IdealCopyFile(s, d))
    /\ UNCHANGED <<rm, rmAll, mk>>

\* CopyDirectory: refused without journaling unless the source side holds a directory; then the destination is
\* journaled as ONE write and Copier walks the source side into the buffer (MkdirAll of the destination, then every
\* directory and file beneath the source; an existing file is overwritten, an existing directory kept)
Disjoint(s, d) == ~IsPrefixOf(s, d) /\ ~IsPrefixOf(d, s)
IdealCopyDir(s, d) == IF IsExist(ideal, d) THEN O(ideal, ERR) ELSE The(CopyOp(ideal, s, d, "dir"))
CopyDirFits(ts, s, d) == /\ NoFileIn(buffer, Prefixes(d))
                         /\ \A x \in Under(ts, s) : LET y == Rebase(x, s, d) IN y \in DOMAIN buffer => ((buffer[y] = "D") = (ts[x] = "D"))
CCopyDir(s, d) ==
    /\ Idle /\ Disjoint(s, d)
    /\ IF ~IsDir(Src(s), s)
       THEN /\ UNCHANGED <<wr, buffer>> /\ Rec("copydir", s, d, "", ERR, IdealCopyDir(s, d))
       ELSE /\ CopyDirFits(Src(s), s, d)
            /\ wr' = wr \cup {d}
            /\ buffer' = Ext(MkDirs(buffer, Prefixes(d)), GraftMap(Src(s), s, d))
            /\ Rec("copydir", s, d, "", OK, IdealCopyDir(s, d))
    /\ UNCHANGED <<rm, rmAll, mk>>

\* ------------------------------------------------------------------ Commit
\* A run is [r |-> remote, left |-> calls left before the injected failure (0 = none), ok |-> no error so far].
Call(run, newRemote, genuineOk) ==          \* one mutating remote call
  IF ~run.ok THEN run
  ELSE IF run.left = 1 THEN [run EXCEPT !.ok = FALSE, !.left = 0]        \* the injected failure: no effect, Commit stops
  ELSE IF ~genuineOk THEN [run EXCEPT !.ok = FALSE]
  ELSE [r |-> newRemote, left |-> IF run.left = 0 THEN 0 ELSE run.left - 1, ok |-> TRUE]
P1(run, p) == IF run.ok /\ IsFile(run.r, p) THEN Call(run, The(Remove(run.r, p)).t, TRUE) ELSE run
P2(run, p) == IF run.ok /\ IsExist(run.r, p) THEN Call(run, The(RemoveAll(run.r, p)).t, TRUE) ELSE run
P3(run, p) == IF run.ok /\ IsDir(buffer, p)
              THEN LET o == The(MkdirAll(run.r, p)) IN Call(run, o.t, o.res = OK) ELSE run
P4(run, p) == IF ~run.ok THEN run
              ELSE LET par == Parent(p)
                       m == IF par = <<>> THEN O(run.r, OK) ELSE The(MkdirAll(run.r, par))
                       run1 == Call(run, m.t, m.res = OK) IN           \* remote.MkdirAll(dir(p)) -- always called
                   IF run1.ok /\ IsFile(buffer, p)
                   THEN LET w == The(WriteFile(run1.r, p, buffer[p])) IN Call(run1, w.t, w.res = OK)   \* StreamCopy: remote.Writer(p)
                   ELSE run1
RECURSIVE Phase(_, _, _)
Phase(runs, todo, n) ==            \* every order of the journal's entries
  IF todo = {} THEN runs
  ELSE UNION { Phase({ CASE n = 1 -> P1(x, p) [] n = 2 -> P2(x, p) [] n = 3 -> P3(x, p) [] OTHER -> P4(x, p) : x \in runs }, todo \ {p}, n) : p \in todo }
CommitRuns(k) == Phase(Phase(Phase(Phase({[r |-> remote, left |-> k, ok |-> TRUE]}, rm, 1), rmAll, 2), mk, 3), wr, 4)
MaxCalls == 2 * Cardinality(wr) + Cardinality(mk) + Cardinality(rm) + Cardinality(rmAll)

Commit(k) ==
    /\ ncommits < MaxCommits /\ nops > 0
    /\ \E run \in CommitRuns(k) :
         /\ (k > 0 => ~run.ok /\ run.left = 0)            \* a fault position that is actually reached
         /\ remote' = run.r
         /\ lastFaulted' = (k > 0)
         /\ hist' = Append(hist, [name |-> "commit", p |-> <<>>, q |-> <<>>, d |-> "", k |-> k, res |-> IF run.ok THEN OK ELSE ERR, after |-> TJ(run.r)])
         /\ (Emit => PrintT(ToJson([k |-> "cache", remote0 |-> TJ(remote0), hist |-> hist', commit |-> TRUE,
                                      runs |-> { [r |-> TJ(x.r), ok |-> x.ok] : x \in { y \in CommitRuns(k) : k > 0 => (~y.ok /\ y.left = 0) } },
                                      ideal |-> TJ(ideal), dev |-> dev, buffer |-> TJ(buffer),
                                      rm |-> rm, rmAll |-> rmAll, mk |-> mk, wr |-> wr])))
    /\ ncommits' = ncommits + 1
    /\ UNCHANGED <<buffer, rm, rmAll, mk, wr, remote0, ideal, dev, nops>>

Ops == [name : {"write", "wstream"}, p : Paths, d : Data] \cup [name : {"mkdir", "remove", "removeall"}, p : Paths]
       \cup { o \in [name : {"copyfile", "copydir"}, p : Paths, q : Paths] : o.p # o.q }   \* a file is never copied onto itself
       \* (Copier opens the reader and then the writer of the SAME in-memory file: self-deadlock, finding D_SelfCopyDeadlock of C04)
Do(op) == CASE op.name \in {"write", "wstream"} -> CWrite(op.name, op.p, op.d)
            [] op.name = "mkdir" -> CMkdir(op.p)
            [] op.name = "remove" -> CRemove(op.p)
            [] op.name = "removeall" -> CRemoveAll(op.p)
            [] op.name = "copyfile" -> CCopyFile(op.p, op.q)
            [] op.name = "copydir" -> CCopyDir(op.p, op.q)
EmitOp == Emit => PrintT(ToJson([k |-> "cache", remote0 |-> TJ(remote0), hist |-> hist', commit |-> FALSE,
                                  remote |-> TJ(remote'), buffer |-> TJ(buffer'), rm |-> rm', rmAll |-> rmAll', mk |-> mk', wr |-> wr',
                                  ideal |-> TJ(ideal'), dev |-> dev',
                                  view |-> { [p |-> p, impl |-> ViewAt(buffer', remote', p), ideal |-> IdealAt(ideal', p)] : p \in Paths }]))
Next == \/ \E op \in Ops : ncommits = 0 /\ Do(op) /\ EmitOp
        \/ Commit(0)
        \/ (WithFault /\ ncommits = 0 /\ \E k \in 1..MaxCalls : Commit(k))
Spec == Init /\ [][Next]_vars

\* ------------------------------------------------------------------ properties
Clean == dev = {}
LastCommitOk == hist # <<>> /\ hist[Len(hist)].name = "commit" /\ hist[Len(hist)].res = OK
RemoteUntouched == ncommits = 0 => remote = remote0                                  \* C06, first clause (no trigger needed)
CommitExact == (Clean /\ LastCommitOk) => remote = ideal                              \* C06: after a successful Commit; also after fault + retry
FaultReported == (Clean /\ lastFaulted) => hist[Len(hist)].res = ERR                  \* C06: a remote failure is reported
CleanCommitNeverFails == (Clean /\ ncommits > 0 /\ ~lastFaulted) => LastCommitOk       \* without a fault a clean history always commits
ViewEqIdeal == (Clean /\ ncommits = 0) => \A p \in Paths : ViewOf(p) = IdealOf(p)     \* C07
\* D_RemoveRemote concerns the VIEW only (a removed remote node stays visible until Commit): histories go on
\* through it, and Commit must still make the remote equal to direct application
CommitClean == dev \subseteq {"D_RemoveRemote"}
CommitExactRR == (CommitClean /\ LastCommitOk) => remote = ideal
FaultReportedRR == (CommitClean /\ lastFaulted) => hist[Len(hist)].res = ERR
\* D_OrderLost concerns COMMIT only (removes are replayed before writes whatever their order was): the view of
\* such a history still equals direct application, and histories go on through it
ViewClean == dev \subseteq {"D_OrderLost"}
ViewEqIdealOL == (ViewClean /\ ncommits = 0) => \A p \in Paths : ViewOf(p) = IdealOf(p)
Explorable == dev \subseteq {"D_RemoveRemote", "D_OrderLost"}
ViewHist == <<remote, buffer, rm, rmAll, mk, wr, remote0, ideal, dev, nops, ncommits, lastFaulted>>
=============================================================================
