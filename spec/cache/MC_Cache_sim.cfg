SPECIFICATION Spec
CONSTANTS
  Names = {"a", "b"}
  Data = {"y", "z"}
  MaxDepth = 2
  MaxOps = 7
  MaxCommits = 3
  WithFault = TRUE
  Spine = FALSE
  Emit = TRUE
CHECK_DEADLOCK FALSE
