SPECIFICATION Spec
CONSTANTS
  Names = {"a", "b"}
  Data = {"y"}
  MaxDepth = 2
  MaxOps = 2
  MaxCommits = 2
  WithFault = TRUE
  Emit = TRUE
INVARIANTS RemoteUntouched CommitExact FaultReported CleanCommitNeverFails ViewEqIdeal
VIEW ViewHist
CONSTRAINT Clean
CHECK_DEADLOCK FALSE
