SPECIFICATION Spec
CONSTANTS
  Names = {"a", "b"}
  Data = {"y"}
  MaxDepth = 2
  MaxOps = 3
  MaxCommits = 2
  WithFault = TRUE
  Emit = FALSE
INVARIANTS RemoteUntouched CommitExact FaultReported CleanCommitNeverFails ViewEqIdeal
VIEW ViewHist
CONSTRAINT Clean
CHECK_DEADLOCK FALSE
