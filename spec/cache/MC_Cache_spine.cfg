SPECIFICATION Spec
CONSTANTS
  Names = {"a", "b"}
  Data = {"y"}
  MaxDepth = 3
  MaxOps = 4
  MaxCommits = 1
  WithFault = FALSE
  Spine = TRUE
  Emit = TRUE
INVARIANTS ViewEqIdealOL CommitExactRR FaultReportedRR RemoteUntouched CommitExact FaultReported CleanCommitNeverFails ViewEqIdeal
VIEW ViewHist
CONSTRAINT Explorable
CHECK_DEADLOCK FALSE
