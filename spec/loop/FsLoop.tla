------------------------------- MODULE FsLoop -------------------------------
(* C08: the concurrent tree walk (filesystem/fsloop) -- producers, two bounded
   channels, consumers that poll them, and the goroutine that announces
   completion.  One action per atomic step of the code:

     producers   Enqueue(n)  (a node is queued after its parent directory; blocks when
                 the channel is full; arbitrary order = any number of producer goroutines),
                 ProducersDone
     closer      Waited (producer pool drained) ; Announce (step := Close) ; CloseChans
     consumer    Variant "current":  ReadStep ; [hook consumer.between] ; TestEmpty ; Recv ; CbBegin ; CbEnd
                 Variant "prefix" :  TestEmpty ; [hook] ; ReadStep      (the order before the fix)
     waiter      WaitReturn when the consumer pool is empty

   PROPERTY LAYER (FsLoopAbs): every selected node gets exactly one callback,
   never more callbacks at once than consumers, Wait returns after the last
   callback, a failing callback leaves an error; with no error nothing is
   skipped.  The "prefix" variant loses items (TLC finds the 13-state window);
   its counterexample is the script the harness forces on the real goroutines. *)
EXTENDS Naturals, Sequences, FiniteSets, TLC

CONSTANTS NCons, Cap, Variant, TreeId, FailNode, FailList    \* FailList: a directory node whose listing fails (99 = none)

\* ---- a few tree shapes: node -> [parent, dir]; parent 0 = the walk's root
Tree == CASE TreeId = 1 -> <<[parent |-> 0, dir |-> FALSE]>>                                   \* one file
          [] TreeId = 2 -> <<[parent |-> 0, dir |-> FALSE], [parent |-> 0, dir |-> FALSE], [parent |-> 0, dir |-> FALSE]>>   \* wide > Cap
          [] TreeId = 3 -> <<[parent |-> 0, dir |-> TRUE], [parent |-> 1, dir |-> FALSE], [parent |-> 0, dir |-> FALSE]>>   \* d/f , f
          [] TreeId = 4 -> <<[parent |-> 0, dir |-> TRUE], [parent |-> 1, dir |-> TRUE], [parent |-> 2, dir |-> FALSE]>>    \* deep d/d/f
          [] TreeId = 5 -> <<[parent |-> 0, dir |-> TRUE]>>                                      \* one empty directory
          [] OTHER -> << >>                                                                      \* empty tree
Nodes == 1..Len(Tree)
Cons == 1..NCons

VARIABLES dirQ, fileQ, enq, pdone, step, closer, closed,
          cpc, cstep, citem, cbs, running, maxRunning, killed, errs, waited, listFailed
vars == <<dirQ, fileQ, enq, pdone, step, closer, closed, cpc, cstep, citem, cbs, running, maxRunning, killed, errs, waited, listFailed>>

Init == /\ dirQ = <<>> /\ fileQ = <<>> /\ enq = {} /\ pdone = FALSE /\ step = 0 /\ closer = "wait" /\ closed = FALSE
        /\ cpc = [c \in Cons |-> "top"] /\ cstep = [c \in Cons |-> 0] /\ citem = [c \in Cons |-> 0]
        /\ cbs = [n \in Nodes |-> 0] /\ running = 0 /\ maxRunning = 0 /\ killed = FALSE /\ errs = 0 /\ waited = FALSE /\ listFailed = FALSE

\* ---------------- producers
CanEnq(n) == n \notin enq /\ (Tree[n].parent = 0 \/ Tree[n].parent \in enq) /\ Tree[n].parent # FailList
\* the producer that lists the failing directory records the error (strict lifecycle: kill)
ListFails == /\ FailList \in Nodes /\ FailList \in enq /\ ~listFailed /\ ~pdone /\ listFailed' = TRUE /\ errs' = errs + 1 /\ killed' = TRUE
             /\ UNCHANGED <<dirQ, fileQ, enq, pdone, step, closer, closed, cpc, cstep, citem, cbs, running, maxRunning, waited>>
Reachable == { n \in Nodes : LET RECURSIVE Ok(_) Ok(x) == Tree[x].parent # FailList /\ (Tree[x].parent = 0 \/ Ok(Tree[x].parent)) IN Ok(n) }
Enqueue(n) == /\ ~pdone /\ CanEnq(n)
              /\ IF Tree[n].dir THEN Len(dirQ) < Cap /\ dirQ' = Append(dirQ, n) /\ UNCHANGED fileQ
                 ELSE Len(fileQ) < Cap /\ fileQ' = Append(fileQ, n) /\ UNCHANGED dirQ
              /\ enq' = enq \cup {n}
              /\ UNCHANGED <<pdone, step, closer, closed, cpc, cstep, citem, cbs, running, maxRunning, killed, errs, waited, listFailed>>
\* a killed lifecycle lets the producers stop early
ProducersDone == /\ ~pdone /\ ((enq = Reachable /\ (FailList \in enq => listFailed)) \/ killed) /\ pdone' = TRUE
                 /\ UNCHANGED <<dirQ, fileQ, enq, step, closer, closed, cpc, cstep, citem, cbs, running, maxRunning, killed, errs, waited, listFailed>>
\* ---------------- the goroutine that announces completion
Announce == /\ closer = "wait" /\ pdone /\ step' = 999 /\ closer' = "announced"
            /\ UNCHANGED <<dirQ, fileQ, enq, pdone, closed, cpc, cstep, citem, cbs, running, maxRunning, killed, errs, waited, listFailed>>
CloseChans == /\ closer = "announced" /\ closed' = TRUE /\ closer' = "done"
              /\ UNCHANGED <<dirQ, fileQ, enq, pdone, step, cpc, cstep, citem, cbs, running, maxRunning, killed, errs, waited, listFailed>>
\* ---------------- consumers
Goto(c, l) == cpc' = [cpc EXCEPT ![c] = l]
Empty == dirQ = <<>> /\ fileQ = <<>>
UC == UNCHANGED <<dirQ, fileQ, enq, pdone, step, closer, closed, cstep, citem, cbs, running, maxRunning, killed, errs, waited, listFailed>>
Top(c) == /\ cpc[c] = "top"
          /\ IF killed THEN Goto(c, "exit") ELSE Goto(c, IF Variant = "prefix" THEN "testempty" ELSE "readstep")
          /\ UC
\* current: read the step first
ReadStepC(c) == /\ Variant # "prefix" /\ cpc[c] = "readstep" /\ cstep' = [cstep EXCEPT ![c] = step] /\ Goto(c, "testempty")
                /\ UNCHANGED <<dirQ, fileQ, enq, pdone, step, closer, closed, citem, cbs, running, maxRunning, killed, errs, waited, listFailed>>
TestEmptyC(c) == /\ Variant # "prefix" /\ cpc[c] = "testempty"
                 /\ Goto(c, IF Empty THEN (IF cstep[c] = 999 THEN "exit" ELSE "top") ELSE "recvdir")
                 /\ UC
\* prefix: test emptiness, then read the step
TestEmptyP(c) == /\ Variant = "prefix" /\ cpc[c] = "testempty" /\ Goto(c, IF Empty THEN "readstep" ELSE "recvdir") /\ UC
ReadStepP(c) == /\ Variant = "prefix" /\ cpc[c] = "readstep" /\ Goto(c, IF step = 999 THEN "exit" ELSE "top") /\ UC
\* non-blocking receives, directories first, then files, as in the code
RecvDir(c) == /\ cpc[c] = "recvdir"
              /\ IF dirQ = <<>> THEN Goto(c, "recvfile") /\ UNCHANGED <<dirQ, citem, listFailed>>
                 ELSE /\ citem' = [citem EXCEPT ![c] = Head(dirQ)] /\ dirQ' = Tail(dirQ) /\ Goto(c, "cbdir")
              /\ UNCHANGED <<fileQ, enq, pdone, step, closer, closed, cstep, cbs, running, maxRunning, killed, errs, waited, listFailed>>
RecvFile(c) == /\ cpc[c] = "recvfile"
               /\ IF fileQ = <<>> THEN Goto(c, "top") /\ UNCHANGED <<fileQ, citem, listFailed>>
                  ELSE /\ citem' = [citem EXCEPT ![c] = Head(fileQ)] /\ fileQ' = Tail(fileQ) /\ Goto(c, "cbfile")
               /\ UNCHANGED <<dirQ, enq, pdone, step, closer, closed, cstep, cbs, running, maxRunning, killed, errs, waited, listFailed>>
CbBegin(c) == /\ cpc[c] \in {"cbdir", "cbfile"}
              /\ cbs' = [cbs EXCEPT ![citem[c]] = @ + 1] /\ running' = running + 1
              /\ maxRunning' = IF running + 1 > maxRunning THEN running + 1 ELSE maxRunning
              /\ Goto(c, IF cpc[c] = "cbdir" THEN "enddir" ELSE "endfile")
              /\ UNCHANGED <<dirQ, fileQ, enq, pdone, step, closer, closed, cstep, citem, killed, errs, waited, listFailed>>
CbEnd(c) == /\ cpc[c] \in {"enddir", "endfile"} /\ running' = running - 1
            /\ IF citem[c] = FailNode THEN errs' = errs + 1 /\ killed' = TRUE ELSE UNCHANGED <<errs, killed, listFailed>>
            /\ Goto(c, IF cpc[c] = "enddir" THEN "recvfile" ELSE "top")
            /\ UNCHANGED <<dirQ, fileQ, enq, pdone, step, closer, closed, cstep, citem, cbs, maxRunning, waited, listFailed>>
AllExited == \A c \in Cons : cpc[c] = "exit"
WaitReturn == /\ ~waited /\ AllExited /\ waited' = TRUE
              /\ UNCHANGED <<dirQ, fileQ, enq, pdone, step, closer, closed, cpc, cstep, citem, cbs, running, maxRunning, killed, errs, listFailed>>
Next == \/ \E n \in Nodes : Enqueue(n)
        \/ ProducersDone \/ ListFails \/ Announce \/ CloseChans \/ WaitReturn
        \/ \E c \in Cons : Top(c) \/ ReadStepC(c) \/ TestEmptyC(c) \/ TestEmptyP(c) \/ ReadStepP(c) \/ RecvDir(c) \/ RecvFile(c) \/ CbBegin(c) \/ CbEnd(c)
        \/ (waited /\ closer = "done" /\ UNCHANGED vars)
Fairness == /\ WF_vars(ProducersDone) /\ WF_vars(ListFails) /\ WF_vars(Announce) /\ WF_vars(CloseChans) /\ WF_vars(WaitReturn)
            /\ \A n \in Nodes : WF_vars(Enqueue(n))
            /\ \A c \in Cons : WF_vars(Top(c) \/ ReadStepC(c) \/ TestEmptyC(c) \/ TestEmptyP(c) \/ ReadStepP(c) \/ RecvDir(c) \/ RecvFile(c) \/ CbBegin(c) \/ CbEnd(c))
Spec == Init /\ [][Next]_vars /\ Fairness

\* ---------------- the property layer
AtMostOnce == \A n \in Nodes : cbs[n] <= 1
NoLoss == (waited /\ errs = 0) => \A n \in Nodes : cbs[n] = 1
ListingErrorRecorded == (FailList \in Nodes /\ FailList \in enq /\ pdone) => errs > 0
MaxConcurrency == maxRunning <= NCons
WaitAfterLastCallback == waited => running = 0
\* once the failing callback has returned, the error list is non-empty
ErrorRecorded == (FailNode \in Nodes /\ cbs[FailNode] = 1 /\ \A c \in Cons : ~(cpc[c] \in {"enddir", "endfile"} /\ citem[c] = FailNode)) => errs > 0
Terminates == <>waited
=============================================================================
