------------------------------- MODULE JobSync -------------------------------
(* workers/jobsync: the goroutine-quota Pool and the Lifecycle that fsloop (C08),
   the copy helper (C04) and the translation loader (C20) are built on.
   Pool(max): Add(n) reserves min(n, max - counter) slots and returns that number;
   Done releases one; Wait is enabled when nothing is reserved.
   Lifecycle(strict): Error(e) records and, when strict, kills; Kill; IsKilled;
   Step / NextStep.  Errors() = recorded errors plus the context error once killed.
   TLC enumerates every call sequence up to MaxCalls and prints it with the expected
   return values as a conformance case for the real types. *)
EXTENDS Naturals, Sequences, FiniteSets, TLC, Json
CONSTANTS Max, MaxCalls, Strict, Emit
VARIABLES counter, killed, nerrs, step, hist
vars == <<counter, killed, nerrs, step, hist>>
View == <<counter, killed, nerrs, step, Len(hist)>>
Init == counter = 0 /\ killed = FALSE /\ nerrs = 0 /\ step = 0 /\ hist = <<>>
Min(a, b) == IF a < b THEN a ELSE b
Rec(call, arg, ret) == hist' = Append(hist, [call |-> call, arg |-> arg, ret |-> ret])
More == Len(hist) < MaxCalls
Add(n) == /\ More /\ LET got == Min(n, Max - counter) IN counter' = counter + got /\ Rec("add", n, got)
          /\ UNCHANGED <<killed, nerrs, step>>
Done == /\ More /\ counter > 0 /\ counter' = counter - 1 /\ Rec("done", 0, 0) /\ UNCHANGED <<killed, nerrs, step>>
Wait == /\ More /\ counter = 0 /\ Rec("wait", 0, 0) /\ UNCHANGED <<counter, killed, nerrs, step>>
Error == /\ More /\ nerrs' = nerrs + 1 /\ killed' = (killed \/ Strict) /\ Rec("error", 0, 0) /\ UNCHANGED <<counter, step>>
Kill == /\ More /\ killed' = TRUE /\ Rec("kill", 0, 0) /\ UNCHANGED <<counter, nerrs, step>>
IsKilled == /\ More /\ Rec("iskilled", 0, IF killed THEN 1 ELSE 0) /\ UNCHANGED <<counter, killed, nerrs, step>>
Errors == /\ More /\ Rec("errors", 0, nerrs + (IF killed THEN 1 ELSE 0)) /\ UNCHANGED <<counter, killed, nerrs, step>>
NextStep(s) == /\ More /\ step' = s /\ Rec("nextstep", s, 0) /\ UNCHANGED <<counter, killed, nerrs>>
Step == /\ More /\ Rec("step", 0, step) /\ UNCHANGED <<counter, killed, nerrs, step>>
Next == (\E n \in 1..(Max + 1) : Add(n)) \/ Done \/ Wait \/ Error \/ Kill \/ IsKilled \/ Errors \/ (\E s \in {1, 999} : NextStep(s)) \/ Step
        \/ (~More /\ UNCHANGED vars)
Spec == Init /\ [][Next]_vars
NeverOverQuota == counter <= Max
StrictErrorKills == (Strict /\ nerrs > 0) => killed
EmitCase == (Emit /\ Len(hist) = MaxCalls) => PrintT(ToJson([k |-> "jobsync", max |-> Max, strict |-> Strict, hist |-> hist]))
Inv == NeverOverQuota /\ StrictErrorKills /\ EmitCase
=============================================================================
