----------------------------- MODULE PoolProof -----------------------------
(* The goroutine-quota Pool of workers/jobsync (see JobSync.tla, C08) for ANY quota Max and
   ANY number of calls, proved with TLAPS: the number of reserved slots never leaves 0..Max,
   Add never hands out more than was asked for nor more than is free, and Wait is enabled
   exactly when nothing is reserved.  JobSync.tla checks the same machine with TLC for small
   Max and call sequences and emits them as conformance cases; this module removes the bound. *)
EXTENDS Naturals, TLAPS
CONSTANT Max
ASSUME MaxNat == Max \in Nat
VARIABLES counter, last     \* last: what the latest Add returned
vars == <<counter, last>>
Min(a, b) == IF a < b THEN a ELSE b
Init == counter = 0 /\ last = 0
Add(n) == /\ counter' = counter + Min(n, Max - counter) /\ last' = Min(n, Max - counter)
Done == counter > 0 /\ counter' = counter - 1 /\ UNCHANGED last
Wait == counter = 0 /\ UNCHANGED vars
Next == (\E n \in Nat : Add(n)) \/ Done \/ Wait
Spec == Init /\ [][Next]_vars
Inv == counter \in Nat /\ counter <= Max /\ last \in Nat /\ last <= Max

THEOREM Safety == Spec => []Inv
<1>1. Init => Inv
  BY MaxNat DEF Init, Inv
<1>2. Inv /\ [Next]_vars => Inv'
  <2> SUFFICES ASSUME Inv, [Next]_vars PROVE Inv'
    OBVIOUS
  <2>1. ASSUME NEW n \in Nat, Add(n) PROVE Inv'
    BY <2>1, MaxNat DEF Add, Inv, Min
  <2>2. CASE Done
    BY <2>2, MaxNat DEF Done, Inv
  <2>3. CASE Wait
    BY <2>3 DEF Wait, Inv, vars
  <2>4. CASE UNCHANGED vars
    BY <2>4 DEF Inv, vars
  <2> QED
    BY <2>1, <2>2, <2>3, <2>4 DEF Next
<1> QED
  BY <1>1, <1>2, PTL DEF Spec

\* Add(n) never hands out more than asked for, nor more than is free
THEOREM AddBounded == ASSUME Inv, NEW n \in Nat, Add(n) PROVE last' <= n /\ counter' <= Max /\ counter' = counter + last'
  BY MaxNat DEF Add, Inv, Min
=============================================================================
