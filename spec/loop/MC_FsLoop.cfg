SPECIFICATION Spec
CONSTANTS
  NCons = 2
  Cap = 2
  Variant = "current"
  TreeId = 3
  FailNode = 0
INVARIANTS AtMostOnce NoLoss MaxConcurrency WaitAfterLastCallback ErrorRecorded
PROPERTY Terminates
