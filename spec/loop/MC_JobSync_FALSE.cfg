SPECIFICATION Spec
CONSTANTS
  Max = 2
  MaxCalls = 5
  Strict = FALSE
  Emit = TRUE
INVARIANT Inv
CHECK_DEADLOCK FALSE
