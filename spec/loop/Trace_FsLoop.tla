---------------------------- MODULE Trace_FsLoop ----------------------------
(* Trace validation for C08 against the PROPERTY layer of FsLoop: the log of a
   free-running real loop (callback begin/end, Wait return, error count) must be
   a behaviour of the abstract walk:
     begin(n)  only for a selected node, at most once, never more running than consumers,
               never after Wait returned
     end(n)    for a running callback
     wait      only when no callback is running
     errors(k) k > 0 if a callback or a directory listing failed; if k = 0 every selected node has ended
   begin is logged inside the callback, end before it returns, wait after Wait()
   came back, so on correct code the log order is the order the property speaks of. *)
EXTENDS Naturals, Sequences, FiniteSets, TLC, Json

TraceLog == ndJsonDeserialize("trace.ndjson")
VARIABLES l, selected, consumers, begun, ended, waited, failcfg, faillist
tvars == <<l, selected, consumers, begun, ended, waited, failcfg, faillist>>

SeqSet(s) == { s[i] : i \in 1..Len(s) }
Init == l = 1 /\ selected = {} /\ consumers = 0 /\ begun = {} /\ ended = {} /\ waited = FALSE /\ failcfg = FALSE /\ faillist = FALSE
Ev == TraceLog[l]
IsEv(k) == l <= Len(TraceLog) /\ Ev.ev = k /\ l' = l + 1
Key(e) == e.kind \o ":" \o e.path
Reset == /\ IsEv("reset") /\ selected' = SeqSet(Ev.selected) /\ consumers' = Ev.consumers /\ failcfg' = Ev.fail /\ faillist' = Ev.faillist
         /\ begun' = {} /\ ended' = {} /\ waited' = FALSE
Begin == /\ IsEv("begin") /\ Key(Ev) \in selected /\ Key(Ev) \notin begun /\ ~waited
         /\ Cardinality(begun \ ended) < consumers
         /\ begun' = begun \cup {Key(Ev)} /\ UNCHANGED <<selected, consumers, ended, waited, failcfg, faillist>>
End == /\ IsEv("end") /\ Key(Ev) \in begun \ ended /\ ended' = ended \cup {Key(Ev)}
       /\ UNCHANGED <<selected, consumers, begun, waited, failcfg, faillist>>
Wait == /\ IsEv("wait") /\ begun = ended /\ waited' = TRUE /\ UNCHANGED <<selected, consumers, begun, ended, failcfg, faillist>>
Errors == /\ IsEv("errors") /\ waited
          /\ (Ev.n = 0 => (ended = selected /\ ~failcfg /\ ~faillist))      \* no error: nothing skipped; a failing callback or listing always leaves an error
          /\ UNCHANGED <<selected, consumers, begun, ended, waited, failcfg, faillist>>
TraceNext == Reset \/ Begin \/ End \/ Wait \/ Errors
TraceSpec == Init /\ [][TraceNext]_tvars
TraceAccepted == TLCGet("stats").diameter - 1 = Len(TraceLog)
=============================================================================
