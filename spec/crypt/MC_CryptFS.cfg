SPECIFICATION Spec
CONSTANTS
  Secrets = {"k1", "k2"}
  Salts = {"s1", "s2"}
  Plains = {"empty", "one", "b15", "b16", "b17", "big"}
  Emit = TRUE
INVARIANTS RoundTrip Migration Integrity NeverWrongData Secrecy FreshNonce
