------------------------------ MODULE CryptFS ------------------------------
(* C05: the encrypted filespace, symbolically.  TLA+ says nothing about
   AES-GCM; a stored value is the TERM  Enc(cipher, key, nonce, plain)  with
   key = <<secret, hostbinding, salt>> and a fresh nonce per encryption, and
   Dec(reader, term) = plain  iff  the reader's cipher understands the term's
   format, the key is equal and the term is intact -- otherwise Err, never
   data.  Actions: write (whole-file or stream), tamper with the stored bytes
   (truncate / flip / empty / stored under another key), read (whole-file or
   stream).  TLC enumerates every combination and prints it as a scenario with
   the expected outcome; the harness expands "truncate" to every length and
   "flip" to every byte position of the real stored bytes. *)
EXTENDS Naturals, Sequences, FiniteSets, TLC, Json

CONSTANTS Secrets, Salts, Plains, Emit

\* "tagged2": the tagged multi-cipher built by its general constructor with ANOTHER default tag (the migration
\* set-up): it writes under its own tag and reads both tags
Ciphers == {"raw", "tagged", "tagged2"}
Understands(rc, fmt) == fmt = rc \/ (rc = "tagged2" /\ fmt = "tagged")
Paths == {"whole", "stream"}
Tampers == {"none", "truncate", "flip", "empty"}
Err == [kind |-> "err"]

VARIABLES wcfg, rcfg, stored, nonce, wpath, rpath, tamper, plain, result, phase, second
vars == <<wcfg, rcfg, stored, nonce, wpath, rpath, tamper, plain, result, phase, second>>

Cfg == [cipher : Ciphers, secret : Secrets, salt : Salts, host : BOOLEAN]
Key(c) == <<c.secret, c.host, c.salt>>
Enc(c, n, p) == [kind |-> "enc", fmt |-> c.cipher, key |-> Key(c), nonce |-> n, plain |-> p, intact |-> TRUE]
\* the tagged cipher can read its own format only; the raw cipher cannot read tagged bytes (4 extra leading bytes)
Dec(c, term) == IF term.kind = "enc" /\ term.intact /\ Understands(c.cipher, term.fmt) /\ term.key = Key(c)
                THEN [kind |-> "data", plain |-> term.plain] ELSE Err

\* The statement demands an error for another SECRET or SALT; it demands success for an equal
\* host binding; a reader that differs from the writer ONLY in the host-binding flag is an
\* unspecified corner (today the host id folded into the key is the empty string, so such a
\* reader succeeds): expected outcome "any".
OnlyHostDiffers(w, r) == Understands(r.cipher, w.cipher) /\ w.secret = r.secret /\ w.salt = r.salt /\ w.host # r.host
Expect(w, r, term) == IF OnlyHostDiffers(w, r) /\ term.kind = "enc" /\ term.intact THEN "any" ELSE Dec(r, term).kind

Init == /\ wcfg \in Cfg /\ rcfg \in Cfg /\ plain \in Plains /\ wpath \in Paths /\ rpath \in Paths /\ tamper \in Tampers
        /\ stored = [kind |-> "absent"] /\ nonce = 0 /\ result = [kind |-> "none"] /\ phase = "write" /\ second = [kind |-> "absent"]

Write == /\ phase = "write" /\ stored' = Enc(wcfg, nonce + 1, plain) /\ nonce' = nonce + 1 /\ phase' = "write2"
         /\ UNCHANGED <<wcfg, rcfg, wpath, rpath, tamper, plain, result, second>>
\* the same data written again: the stored bytes must differ (fresh nonce)
Write2 == /\ phase = "write2" /\ second' = Enc(wcfg, nonce + 1, plain) /\ nonce' = nonce + 1 /\ phase' = "tamper"
          /\ UNCHANGED <<wcfg, rcfg, stored, wpath, rpath, tamper, plain, result>>
Tamper == /\ phase = "tamper" /\ phase' = "read"
          /\ stored' = IF tamper = "none" THEN stored
                       ELSE IF tamper = "empty" THEN [kind |-> "garbage"]
                       ELSE [stored EXCEPT !.intact = FALSE]
          /\ UNCHANGED <<wcfg, rcfg, nonce, wpath, rpath, tamper, plain, result, second>>
Read == /\ phase = "read" /\ result' = Dec(rcfg, stored) /\ phase' = "done"
        /\ (Emit => PrintT(ToJson([k |-> "crypt", w |-> wcfg, r |-> rcfg, wpath |-> wpath, rpath |-> rpath, tamper |-> tamper,
                                    plain |-> plain, expect |-> Expect(wcfg, rcfg, stored)])))
        /\ UNCHANGED <<wcfg, rcfg, stored, nonce, wpath, rpath, tamper, plain, second>>
Next == Write \/ Write2 \/ Tamper \/ Read \/ (phase = "done" /\ UNCHANGED vars)
Spec == Init /\ [][Next]_vars

SameReader == rcfg = wcfg
\* a reader configured for migration reads what the default tagged cipher wrote
Migration == (phase = "done" /\ wcfg.cipher = "tagged" /\ rcfg = [wcfg EXCEPT !.cipher = "tagged2"] /\ tamper = "none") => (result.kind = "data" /\ result.plain = plain)
RoundTrip == (phase = "done" /\ SameReader /\ tamper = "none") => (result.kind = "data" /\ result.plain = plain)
Integrity == (phase = "done" /\ (tamper # "none" \/ rcfg.secret # wcfg.secret \/ rcfg.salt # wcfg.salt \/ ~Understands(rcfg.cipher, wcfg.cipher))) => result = Err
NeverWrongData == (phase = "done" /\ result.kind = "data") => result.plain = plain
Secrecy == stored.kind = "enc" => stored # [kind |-> "plain", plain |-> plain]      \* the store never holds the plaintext term
FreshNonce == second.kind = "enc" => second # stored
=============================================================================
