SPECIFICATION Spec
CONSTANTS
  K = 2
  Variant = "early"
INVARIANTS HandlersAfterBody MatchingHandler BodyFailureContained AllRan
PROPERTY Finishes
