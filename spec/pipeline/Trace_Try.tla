------------------------------ MODULE Trace_Try ------------------------------
(* Trace validation for C16 (property layer of Try): a real application runs one
   pip:try program; probe commands of the body (b1..bK), of a nested task spawned by
   the body's first command (n1) and of the handlers (s1, f1, y1) log begin / end;
   at the end the harness logs whether the surrounding (application) scope failed.
     a handler begins only after every body and nested probe that ever runs has ended;
     success only if nothing in the body failed, fail only if something did;
     at the end exactly the matching handlers have run (finally always, if defined);
     the surrounding scope fails iff a handler that ran failed. *)
EXTENDS Naturals, Sequences, FiniteSets, TLC, Json
TraceLog == ndJsonDeserialize("trace.ndjson")
VARIABLES l, cfg, begun, ended, bodyFailed, handlerFailed
tvars == <<l, cfg, begun, ended, bodyFailed, handlerFailed>>
Ev == TraceLog[l]
IsEv(k) == l <= Len(TraceLog) /\ Ev.ev = k /\ l' = l + 1
SeqSet(s) == { s[i] : i \in 1..Len(s) }
Init == l = 1 /\ cfg = [k |-> 0] /\ begun = {} /\ ended = {} /\ bodyFailed = FALSE /\ handlerFailed = FALSE
Reset == IsEv("reset") /\ cfg' = Ev /\ begun' = {} /\ ended' = {} /\ bodyFailed' = FALSE /\ handlerFailed' = FALSE
HandlerId(h) == CASE h = "success" -> "s1" [] h = "fail" -> "f1" [] OTHER -> "y1"
IsHandlerProbe(id) == id \in {"s1", "f1", "y1"}
\* nested = "try": the body's first command is itself a try block (body n1, finally handler n2, both succeeding):
\* everything it runs belongs to the outer body
BodyIds == { cfg.body[i] : i \in 1..Len(cfg.body) } \cup (IF cfg.nested # "none" THEN {"n1"} ELSE {})
           \cup (IF cfg.nested = "try" THEN {"n2"} ELSE {})
           \cup (IF cfg.nested = "try2" THEN {"n2", "n3"} ELSE {})      \* nested try whose finally (n3) fails while its success handler (n2) still runs
Begin == /\ IsEv("begin") /\ Ev.id \notin begun
         /\ (IsHandlerProbe(Ev.id) =>
               /\ begun \cap BodyIds \subseteq ended                         \* nothing of the body (or its nested task) is still running
               /\ (Ev.id = "s1" => ~bodyFailed) /\ (Ev.id = "f1" => bodyFailed))
         /\ (~IsHandlerProbe(Ev.id) => Ev.id \in BodyIds /\ begun \cap {"s1", "f1", "y1"} = {})   \* and nothing of the body starts after a handler
         /\ begun' = begun \cup {Ev.id} /\ UNCHANGED <<cfg, ended, bodyFailed, handlerFailed>>
End == /\ IsEv("end") /\ Ev.id \in begun \ ended /\ ended' = ended \cup {Ev.id}
       /\ bodyFailed' = (bodyFailed \/ (Ev.fail /\ ~IsHandlerProbe(Ev.id)))
       /\ handlerFailed' = (handlerFailed \/ (Ev.fail /\ IsHandlerProbe(Ev.id)))
       /\ UNCHANGED <<cfg, begun>>
Defined == SeqSet(cfg.defined)
HFails == SeqSet(cfg.hfails)
ShouldRun(h) == h \in Defined /\ (h = "finally" \/ (h = "fail" /\ bodyFailed) \/ (h = "success" /\ ~bodyFailed))
\* Unspecified corner: the handlers are tasks of ONE surrounding scope; once a handler has failed that scope is
\* done, and a handler that had not started yet may be cut short.  So: a handler that must not run never runs;
\* a handler that must run has run unless another handler failed.
Final == /\ IsEv("final") /\ begun = ended
         /\ \A h \in {"success", "fail", "finally"} : (HandlerId(h) \in ended => ShouldRun(h))
         /\ (~handlerFailed => \A h \in {"success", "fail", "finally"} : (ShouldRun(h) => HandlerId(h) \in ended))
         /\ Ev.outererr = handlerFailed
         /\ UNCHANGED <<cfg, begun, ended, bodyFailed, handlerFailed>>
TraceNext == Reset \/ Begin \/ End \/ Final
TraceSpec == Init /\ [][TraceNext]_tvars
TraceAccepted == TLCGet("stats").diameter - 1 = Len(TraceLog)
=============================================================================
