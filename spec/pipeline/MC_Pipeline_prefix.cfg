SPECIFICATION Spec
CONSTANTS
  N = 3
  NCmds = 2
  Variant = "prefix"
INVARIANTS StartsAfterPrereqs NeverAfterFailedPrereq StopsAtFirstFailure ManagerWaitCorrect OnlyExistingNames
PROPERTY EveryoneFinishes
