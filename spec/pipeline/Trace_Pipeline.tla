--------------------------- MODULE Trace_Pipeline ---------------------------
(* Trace validation for C14 (property layer of Pipeline): probe commands inside task
   bodies log begin / end, the harness logs submissions and what the task manager
   reports.
     submit      accepted iff every name in the wait list is an ACCEPTED earlier task
     begin(t,k)  commands of one body run one at a time in script order, none after a
                 failing one; the first one only after every prerequisite has completed
                 all its commands, and never if a prerequisite failed (transitively)
     mwait       returns only when every accepted task is done; error iff some task failed
     names       exactly the accepted tasks (a rejected submission leaves nothing behind)
     task        its failure state is the one the events imply *)
EXTENDS Naturals, Sequences, FiniteSets, TLC, Json
TraceLog == ndJsonDeserialize("trace.ndjson")
VARIABLES l, spec, acc, began, ended, failedCmd
tvars == <<l, spec, acc, began, ended, failedCmd>>
Ev == TraceLog[l]
IsEv(k) == l <= Len(TraceLog) /\ Ev.ev = k /\ l' = l + 1
SeqSet(s) == { s[i] : i \in 1..Len(s) }
Init == l = 1 /\ spec = << >> /\ acc = {} /\ began = << >> /\ ended = << >> /\ failedCmd = << >>
Reset == IsEv("reset") /\ spec' = << >> /\ acc' = {} /\ began' = << >> /\ ended' = << >> /\ failedCmd' = << >>
Put(f, k, v) == [x \in DOMAIN f \cup {k} |-> IF x = k THEN v ELSE f[x]]
SubmitStart == /\ IsEv("submit.start") /\ Ev.name \notin DOMAIN spec
               /\ spec' = Put(spec, Ev.name, [wait |-> SeqSet(Ev.wait), cmds |-> Ev.cmds])
               /\ began' = Put(began, Ev.name, 0) /\ ended' = Put(ended, Ev.name, 0) /\ failedCmd' = Put(failedCmd, Ev.name, FALSE)
               /\ UNCHANGED acc
Submit == /\ IsEv("submit") /\ Ev.name \in DOMAIN spec
          /\ Ev.accepted = (spec[Ev.name].wait \subseteq acc)
          /\ acc' = IF Ev.accepted THEN acc \cup {Ev.name} ELSE acc
          /\ UNCHANGED <<spec, began, ended, failedCmd>>
RECURSIVE Failed(_)
Failed(t) == failedCmd[t] \/ \E w \in spec[t].wait : w \in DOMAIN spec /\ Failed(w)
CompletedOk(t) == ~Failed(t) /\ ended[t] = Len(spec[t].cmds)
Done(t) == IF \E w \in spec[t].wait : Failed(w) THEN began[t] = 0
           ELSE IF failedCmd[t] THEN began[t] = ended[t]
           ELSE ended[t] = Len(spec[t].cmds)
Owner(id) == CHOOSE t \in DOMAIN spec : \E k \in 1..Len(spec[t].cmds) : spec[t].cmds[k] = id
IndexOf(id) == LET t == Owner(id) IN CHOOSE k \in 1..Len(spec[t].cmds) : spec[t].cmds[k] = id
Known(id) == \E t \in DOMAIN spec : \E k \in 1..Len(spec[t].cmds) : spec[t].cmds[k] = id
Begin == /\ IsEv("begin") /\ Known(Ev.id)
         /\ LET t == Owner(Ev.id)  k == IndexOf(Ev.id) IN
            /\ spec[t].wait \subseteq DOMAIN spec                       \* a task with an unknown prerequisite never runs
            /\ k = began[t] + 1 /\ began[t] = ended[t] /\ ~failedCmd[t]
            /\ \A w \in spec[t].wait : CompletedOk(w)
            /\ began' = [began EXCEPT ![t] = k]
         /\ UNCHANGED <<spec, acc, ended, failedCmd>>
End == /\ IsEv("end") /\ Known(Ev.id)
       /\ LET t == Owner(Ev.id)  k == IndexOf(Ev.id) IN
          /\ k = began[t] /\ ended[t] = k - 1
          /\ ended' = [ended EXCEPT ![t] = k]
          /\ failedCmd' = [failedCmd EXCEPT ![t] = @ \/ Ev.fail]
       /\ UNCHANGED <<spec, acc, began>>
MWait == /\ IsEv("mwait") /\ \A t \in acc : Done(t)
         /\ Ev.err = (\E t \in acc : Failed(t))
         /\ UNCHANGED <<spec, acc, began, ended, failedCmd>>
Names == IsEv("names") /\ SeqSet(Ev.names) = acc /\ UNCHANGED <<spec, acc, began, ended, failedCmd>>
Task == IsEv("task") /\ Ev.name \in acc /\ Ev.failed = Failed(Ev.name) /\ UNCHANGED <<spec, acc, began, ended, failedCmd>>
TraceNext == Reset \/ SubmitStart \/ Submit \/ Begin \/ End \/ MWait \/ Names \/ Task
TraceSpec == Init /\ [][TraceNext]_tvars
TraceAccepted == TLCGet("stats").diameter - 1 = Len(TraceLog)
=============================================================================
