---------------------------------- MODULE Try ----------------------------------
(* C16: pip:try.  The body (K commands, one of which may fail, optionally spawning a
   nested task that succeeds or fails) runs in a scope with its own error context;
   the try command reserves a task on the surrounding scope, waits for the body's
   scope (which includes the nested task), then submits finally, then fail (if the
   body failed and a fail handler is defined) or success (if it did not and one is
   defined); the handlers are tasks of the SURROUNDING scope and run concurrently.
   Variant "early" submits the handlers without waiting for the body (regression). *)
EXTENDS Naturals, Sequences, FiniteSets, TLC
CONSTANTS K, Variant
VARIABLES failAt, nested, defined, hfails,      \* fixed: failing body command (0 = none), "none"|"ok"|"fail", handlers defined, handlers that fail
          bcmd, brun, bdone, bfailed, nstate, waited, submitted, hstate, outerErr
vars == <<failAt, nested, defined, hfails, bcmd, brun, bdone, bfailed, nstate, waited, submitted, hstate, outerErr>>
H == {"success", "fail", "finally"}
Init == /\ failAt \in 0..K /\ nested \in {"none", "ok", "fail"} /\ defined \in SUBSET H /\ hfails \in SUBSET H
        /\ bcmd = 0 /\ brun = FALSE /\ bdone = FALSE /\ bfailed = FALSE /\ nstate = "idle" /\ waited = FALSE
        /\ submitted = {} /\ hstate = [h \in H |-> "idle"] /\ outerErr = FALSE
\* the first command of the body is the one that spawns the nested task (when there is one)
BBegin == /\ ~bdone /\ ~brun /\ bcmd < K /\ brun' = TRUE /\ bcmd' = bcmd + 1
          /\ nstate' = IF bcmd = 0 /\ nested # "none" THEN "running" ELSE nstate
          /\ UNCHANGED <<failAt, nested, defined, hfails, bdone, bfailed, waited, submitted, hstate, outerErr>>
BEnd == /\ brun /\ brun' = FALSE
        /\ IF bcmd = failAt THEN bfailed' = TRUE /\ bdone' = TRUE /\ UNCHANGED nstate
           ELSE IF bcmd = K THEN bdone' = TRUE /\ UNCHANGED <<bfailed, nstate>>
           ELSE UNCHANGED <<bfailed, bdone, nstate>>
        /\ UNCHANGED <<failAt, nested, defined, hfails, bcmd, waited, submitted, hstate, outerErr>>
NEnd == /\ nstate = "running" /\ nstate' = "done" /\ bfailed' = (bfailed \/ nested = "fail")
        /\ UNCHANGED <<failAt, nested, defined, hfails, bcmd, brun, bdone, waited, submitted, hstate, outerErr>>
BodyFinished == bdone /\ nstate # "running"
Waited == /\ ~waited /\ (Variant = "early" \/ BodyFinished) /\ waited' = TRUE
          /\ UNCHANGED <<failAt, nested, defined, hfails, bcmd, brun, bdone, bfailed, nstate, submitted, hstate, outerErr>>
ShouldRun(h) == h \in defined /\ (h = "finally" \/ (h = "fail" /\ bfailed) \/ (h = "success" /\ ~bfailed))
SubmitH(h) == /\ waited /\ h \notin submitted /\ ShouldRun(h) /\ (h # "finally" => ("finally" \in submitted \/ "finally" \notin defined))
              /\ submitted' = submitted \cup {h} /\ hstate' = [hstate EXCEPT ![h] = "running"]
              /\ UNCHANGED <<failAt, nested, defined, hfails, bcmd, brun, bdone, bfailed, nstate, waited, outerErr>>
HEnd(h) == /\ hstate[h] = "running" /\ hstate' = [hstate EXCEPT ![h] = "done"] /\ outerErr' = (outerErr \/ h \in hfails)
           /\ UNCHANGED <<failAt, nested, defined, hfails, bcmd, brun, bdone, bfailed, nstate, waited, submitted>>
AllDone == BodyFinished /\ waited /\ \A h \in H : (ShouldRun(h) => hstate[h] = "done")
Next == BBegin \/ BEnd \/ NEnd \/ Waited \/ (\E h \in H : SubmitH(h) \/ HEnd(h)) \/ (AllDone /\ UNCHANGED vars)
Spec == Init /\ [][Next]_vars /\ WF_vars(Next)
HandlersAfterBody == \A h \in H : hstate[h] # "idle" => (~brun /\ nstate # "running" /\ bdone)
MatchingHandler == /\ (hstate["success"] # "idle" => ~bfailed) /\ (hstate["fail"] # "idle" => bfailed)
BodyFailureContained == outerErr => \E h \in H : h \in hfails /\ hstate[h] = "done"
AllRan == AllDone => \A h \in H : (hstate[h] = "done") = ShouldRun(h)
Finishes == <>AllDone
=============================================================================
