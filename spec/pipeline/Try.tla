---------------------------------- MODULE Try ----------------------------------
(* C16: pip:try.  The body (K commands, one of which may fail, optionally spawning a
   nested task that succeeds or fails) runs in a scope with its own error context;
   the try command reserves a task on the surrounding scope, waits for the body's
   scope (which includes the nested task), then submits finally, then fail (if the
   body failed and a fail handler is defined) or success (if it did not and one is
   defined); the handlers are tasks of the SURROUNDING scope and run concurrently.
   A handler that fails marks the surrounding scope as failed; a handler submitted
   after that is refused ("cut") and the refusal is reported on the surrounding scope,
   which the command's Close is waiting on at that time.
   Variant "early" submits the handlers without waiting for the body (regression);
   variant "closedguard" treats the surrounding scope as closed from the moment its Close
   starts, so that report panics and takes the process down (regression, fixed). *)
EXTENDS Naturals, Sequences, FiniteSets, TLC
CONSTANTS K, Variant
VARIABLES failAt, nested, defined, hfails,      \* fixed: failing body command (0 = none), "none"|"ok"|"fail", handlers defined, handlers that fail
          bcmd, brun, bdone, bfailed, nstate, waited, submitted, hstate, outerErr, crashed
vars == <<failAt, nested, defined, hfails, bcmd, brun, bdone, bfailed, nstate, waited, submitted, hstate, outerErr, crashed>>
H == {"success", "fail", "finally"}
Init == /\ failAt \in 0..K /\ nested \in {"none", "ok", "fail"} /\ defined \in SUBSET H /\ hfails \in SUBSET H
        /\ bcmd = 0 /\ brun = FALSE /\ bdone = FALSE /\ bfailed = FALSE /\ nstate = "idle" /\ waited = FALSE
        /\ submitted = {} /\ hstate = [h \in H |-> "idle"] /\ outerErr = FALSE /\ crashed = FALSE
\* the first command of the body is the one that spawns the nested task (when there is one)
BBegin == /\ ~bdone /\ ~brun /\ bcmd < K /\ brun' = TRUE /\ bcmd' = bcmd + 1
          /\ nstate' = IF bcmd = 0 /\ nested # "none" THEN "running" ELSE nstate
          /\ UNCHANGED <<failAt, nested, defined, hfails, bdone, bfailed, waited, submitted, hstate, outerErr, crashed>>
BEnd == /\ brun /\ brun' = FALSE
        /\ IF bcmd = failAt THEN bfailed' = TRUE /\ bdone' = TRUE /\ UNCHANGED nstate
           ELSE IF bcmd = K THEN bdone' = TRUE /\ UNCHANGED <<bfailed, nstate>>
           ELSE UNCHANGED <<bfailed, bdone, nstate>>
        /\ UNCHANGED <<failAt, nested, defined, hfails, bcmd, waited, submitted, hstate, outerErr, crashed>>
NEnd == /\ nstate = "running" /\ nstate' = "done" /\ bfailed' = (bfailed \/ nested = "fail")
        /\ UNCHANGED <<failAt, nested, defined, hfails, bcmd, brun, bdone, waited, submitted, hstate, outerErr, crashed>>
BodyFinished == bdone /\ nstate # "running"
Waited == /\ ~waited /\ (Variant = "early" \/ BodyFinished) /\ waited' = TRUE
          /\ UNCHANGED <<failAt, nested, defined, hfails, bcmd, brun, bdone, bfailed, nstate, submitted, hstate, outerErr, crashed>>
ShouldRun(h) == h \in defined /\ (h = "finally" \/ (h = "fail" /\ bfailed) \/ (h = "success" /\ ~bfailed))
MaySubmit(h) == /\ ~crashed /\ waited /\ h \notin submitted /\ ShouldRun(h) /\ (h # "finally" => ("finally" \in submitted \/ "finally" \notin defined))
SubmitH(h) == /\ MaySubmit(h) /\ ~outerErr
              /\ submitted' = submitted \cup {h} /\ hstate' = [hstate EXCEPT ![h] = "running"]
              /\ UNCHANGED <<failAt, nested, defined, hfails, bcmd, brun, bdone, bfailed, nstate, waited, outerErr, crashed>>
\* the surrounding scope has already failed: the task manager refuses the submission, try reports that on the scope
SubmitCut(h) == /\ MaySubmit(h) /\ outerErr
                /\ submitted' = submitted \cup {h} /\ hstate' = [hstate EXCEPT ![h] = "cut"]
                /\ crashed' = (Variant = "closedguard")
                /\ UNCHANGED <<failAt, nested, defined, hfails, bcmd, brun, bdone, bfailed, nstate, waited, outerErr>>
HEnd(h) == /\ hstate[h] = "running" /\ hstate' = [hstate EXCEPT ![h] = "done"] /\ outerErr' = (outerErr \/ h \in hfails)
           /\ UNCHANGED <<failAt, nested, defined, hfails, bcmd, brun, bdone, bfailed, nstate, waited, submitted, crashed>>
AllDone == BodyFinished /\ waited /\ \A h \in H : (ShouldRun(h) => hstate[h] \in {"done", "cut"})
Next == BBegin \/ BEnd \/ NEnd \/ Waited \/ (\E h \in H : SubmitH(h) \/ SubmitCut(h) \/ HEnd(h)) \/ ((AllDone \/ crashed) /\ UNCHANGED vars)
Spec == Init /\ [][Next]_vars /\ WF_vars(Next)
Ran(h) == hstate[h] \in {"running", "done"}
HandlersAfterBody == \A h \in H : Ran(h) => (~brun /\ nstate # "running" /\ bdone)
MatchingHandler == /\ (Ran("success") => ~bfailed) /\ (Ran("fail") => bfailed)
BodyFailureContained == outerErr => \E h \in H : h \in hfails /\ hstate[h] = "done"
\* a handler that must not run never runs; one that must run has run unless another handler had failed before
AllRan == AllDone => /\ \A h \in H : (hstate[h] = "done" => ShouldRun(h)) /\ (hstate[h] = "cut" => outerErr)
                     /\ (~outerErr => \A h \in H : ShouldRun(h) => hstate[h] = "done")
NoCrash == ~crashed
Finishes == <>AllDone
=============================================================================
