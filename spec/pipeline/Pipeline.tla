------------------------------- MODULE Pipeline -------------------------------
(* C14: pipeline tasks (pipservices/runner + tasks).  N submissions in order; the
   wait list of task t names earlier tasks or the unknown name 0 ("ghost").  Manager
   Create: Variant "current" validates, then registers; Variant "prefix" (the code
   before the fix) registers first, so a rejected submission stays behind as a task
   that never finishes.  Runner goroutine per accepted task: WaitFor each prerequisite
   in order (enabled when it has finished; stops with a failure if it failed), then the
   body's commands one at a time (stop at the first failing command), then Close.
   ManagerWait returns when every registered task has finished and reports an error
   iff some task failed.
   A task is identified by its FULL name (namespace + short name); tasks 1 and 2 carry
   the same short name in different namespaces.  Variant "shortkey" (regression) lets the
   runner tick off every prerequisite with the same SHORT name once one of them has been
   waited for: StartsAfterPrereqs must fail. *)
EXTENDS Naturals, Sequences, FiniteSets, TLC

CONSTANTS N, NCmds, Variant
Tasks == 1..N
Short(t) == IF t <= 2 THEN 1 ELSE t        \* the short name: tasks 1 and 2 share it (different namespaces)
VARIABLES wait, failAt,        \* fixed after Init: wait lists; failAt[t] = index of the failing command or 0
          submitted, accepted, registered, pcw, cmd, finished, failed, started, running, mwait
vars == <<wait, failAt, submitted, accepted, registered, pcw, cmd, finished, failed, started, running, mwait>>

Init == /\ wait \in [Tasks -> SUBSET (0..N)] /\ \A t \in Tasks : \A w \in wait[t] : w < t
        /\ failAt \in [Tasks -> 0..NCmds]
        /\ submitted = 0 /\ accepted = {} /\ registered = {} /\ pcw = [t \in Tasks |-> {}] /\ cmd = [t \in Tasks |-> 0]
        /\ finished = {} /\ failed = {} /\ started = {} /\ running = {} /\ mwait = "no"

\* a submission is accepted iff every name it waits for is a registered task
Submit == /\ submitted < N /\ mwait = "no"
          /\ LET t == submitted + 1
                 ok == wait[t] \subseteq registered IN
             /\ submitted' = t
             /\ accepted' = IF ok THEN accepted \cup {t} ELSE accepted
             /\ registered' = IF ok \/ Variant = "prefix" THEN registered \cup {t} ELSE registered
          /\ UNCHANGED <<wait, failAt, pcw, cmd, finished, failed, started, running, mwait>>
\* the runner of an accepted task waits for its prerequisites one by one
WaitFor(t, w) == /\ t \in accepted /\ t \notin finished /\ t \notin started /\ w \in wait[t] \ pcw[t] /\ w \in finished
                 /\ IF w \in failed THEN finished' = finished \cup {t} /\ failed' = failed \cup {t} /\ UNCHANGED pcw
                    ELSE pcw' = [pcw EXCEPT ![t] = @ \cup (IF Variant = "shortkey" THEN { x \in wait[t] : Short(x) = Short(w) } ELSE {w})]
                         /\ UNCHANGED <<finished, failed>>
                 /\ UNCHANGED <<wait, failAt, submitted, accepted, registered, cmd, started, running, mwait>>
Begin(t) == /\ t \in accepted /\ t \notin finished /\ pcw[t] = wait[t] /\ t \notin running /\ cmd[t] < NCmds
            /\ (cmd[t] > 0 => t \in started)
            /\ started' = started \cup {t} /\ running' = running \cup {t} /\ cmd' = [cmd EXCEPT ![t] = @ + 1]
            /\ UNCHANGED <<wait, failAt, submitted, accepted, registered, pcw, finished, failed, mwait>>
End(t) == /\ t \in running /\ running' = running \ {t}
          /\ IF cmd[t] = failAt[t] THEN finished' = finished \cup {t} /\ failed' = failed \cup {t}
             ELSE IF cmd[t] = NCmds THEN finished' = finished \cup {t} /\ UNCHANGED failed
             ELSE UNCHANGED <<finished, failed>>
          /\ UNCHANGED <<wait, failAt, submitted, accepted, registered, pcw, cmd, started, mwait>>
ManagerWait == /\ mwait = "no" /\ submitted = N /\ registered \subseteq finished
               /\ mwait' = IF failed # {} THEN "err" ELSE "ok"
               /\ UNCHANGED <<wait, failAt, submitted, accepted, registered, pcw, cmd, finished, failed, started, running>>
Next == Submit \/ (\E t \in Tasks : (\E w \in 0..N : WaitFor(t, w)) \/ Begin(t) \/ End(t)) \/ ManagerWait \/ (mwait # "no" /\ UNCHANGED vars)
Spec == Init /\ [][Next]_vars /\ WF_vars(Next)

StartsAfterPrereqs == \A t \in started : wait[t] \subseteq finished /\ wait[t] \cap failed = {}
NeverAfterFailedPrereq == \A t \in Tasks : (wait[t] \cap failed # {} /\ t \in finished) => (t \in failed /\ (t \notin started))
StopsAtFirstFailure == \A t \in Tasks : (failAt[t] > 0 /\ t \in started) => cmd[t] <= failAt[t]
ManagerWaitCorrect == mwait # "no" => (accepted \subseteq finished /\ (mwait = "err") = (failed # {}))
OnlyExistingNames == \A t \in accepted : 0 \notin wait[t] /\ wait[t] \subseteq accepted
EveryoneFinishes == <>(mwait # "no")
=============================================================================
