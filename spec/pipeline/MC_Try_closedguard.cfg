SPECIFICATION Spec
CONSTANTS
  K = 2
  Variant = "closedguard"
INVARIANTS HandlersAfterBody MatchingHandler BodyFailureContained AllRan NoCrash
