SPECIFICATION Spec
CONSTANTS
  N = 3
  NCmds = 2
  Variant = "shortkey"
INVARIANTS StartsAfterPrereqs NeverAfterFailedPrereq StopsAtFirstFailure ManagerWaitCorrect OnlyExistingNames
PROPERTY EveryoneFinishes
