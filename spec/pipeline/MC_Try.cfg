SPECIFICATION Spec
CONSTANTS
  K = 2
  Variant = "current"
INVARIANTS HandlersAfterBody MatchingHandler BodyFailureContained AllRan
PROPERTY Finishes
