SPECIFICATION Spec
CONSTANTS
  Names = {"A", "B"}
  Variant = "prefix"
  MaxDefs = 3
  MaxGets = 2
  Emit = FALSE
INVARIANTS StackEmptyWhenQuiet Precedence NoRecursion OnceBuilt LazyFactories
VIEW View
CHECK_DEADLOCK FALSE
