SPECIFICATION Spec
CONSTANTS
  Names = {"A", "B"}
  Variant = "current"
  MaxDefs = 3
  MaxGets = 2
  InjLen = 0
  Wide = {}
  ChainSeq <- NoChain
  Emit = FALSE
INVARIANTS InjectConsistent StackEmptyWhenQuiet Precedence NoRecursion OnceBuilt LazyFactories
VIEW View
CHECK_DEADLOCK FALSE
