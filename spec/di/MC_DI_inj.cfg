SPECIFICATION Spec
CONSTANTS
  Names = {"A", "B"}
  Variant = "current"
  MaxDefs = 2
  MaxGets = 2
  InjLen = 2
  Wide = {}
  ChainSeq <- NoChain
  Emit = TRUE
INVARIANTS InjectConsistent StackEmptyWhenQuiet Precedence NoRecursion OnceBuilt LazyFactories
VIEW View
CHECK_DEADLOCK FALSE
