SPECIFICATION Spec
CONSTANTS
  Names = {"A", "B"}
  Variant = "prefix"
  MaxDefs = 3
  MaxGets = 2
  InjLen = 0
  Wide = {}
  ChainSeq <- NoChain
  Emit = FALSE
INVARIANTS StackEmptyWhenQuiet
VIEW View
CHECK_DEADLOCK FALSE
