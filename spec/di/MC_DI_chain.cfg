SPECIFICATION Spec
CONSTANTS
  Names = {"N01", "N02", "N03", "N04", "N05", "N06", "N07", "N08", "N09", "N10", "N11", "N12", "N13", "N14", "N15", "N16", "N17", "N18", "N19", "N20"}
  Variant = "current"
  MaxDefs = 20
  MaxGets = 2
  InjLen = 0
  Wide = {}
  ChainSeq <- Chain20
  Emit = TRUE
INVARIANTS StackEmptyWhenQuiet Precedence NoRecursion OnceBuilt LazyFactories
VIEW View
CHECK_DEADLOCK FALSE
