---- MODULE DI ----
(* C10: the dependency container (app/dependency/provider.go) as an explicit
   resolution stack machine.  Tables: default instances (DI), default factories
   (DF), explicit factories (F), instances (inst: name -> tag saying where the
   instance came from); `blocked` after the first Get; `callstack` is the code's
   cycle detector; `frames` is the (model) call stack of nested Gets made by
   factories; the factories' behaviour is fixed by `deps` (each factory requests
   its dependencies in order, required or optional) and `fails`.
   Variant "prefix" = the code before the fix: the callstack is not popped when a
   factory fails, and Block() folds a default INSTANCE over an explicit FACTORY.
   InjectTo(struct) is the code's loop over the tagged fields: one Get per field in
   field order; a required field that cannot be resolved aborts the call with an error
   (the fields before it stay set), an optional one is skipped; only when all fields
   are through do the extra injectors run (the replay attaches a multi-injector holding
   one map injector with one required key, once with and once without that key: the
   call then succeeds / fails after the fields have been set).  The first field's name
   is fixed (the dependency graphs are enumerated symmetrically).
   `hist` (hidden from the fingerprint by VIEW) is the sequence of API calls with
   their results: every completed call prints the history as a test for the real
   Provider. *)
EXTENDS Naturals, Sequences, FiniteSets, TLC, Json
CONSTANTS Names, Variant, MaxDefs, MaxGets, Emit, InjLen,
          Wide,       \* {} or a set of names whose factories request TWO dependencies (and every name starts with an explicit factory)
          ChainSeq    \* <<>> or a sequence of ALL names: a long chain -- the factory of each name requests the next one
                      \* (all edges required, or all optional), the last one requests nothing and may fail; every name starts
                      \* with an explicit factory.  Chains far longer than the exhaustive graphs (20 names) stay cheap because
                      \* nothing but the requests is left to choose.
VARIABLES deps, fails,            \* the (fixed) factory behaviour: name -> seq of [t, opt]; set of failing factories
          inj,                    \* struct injection in progress: [on, fs (fields), i (current field), got (results so far)]
          DI, DF, F, inst,        \* the four tables (inst: name -> tag)
          blocked, callstack,
          frames,                 \* resolution stack: seq of [n, i]
          ret,                    \* value being returned to the frame below: "none" | "ok" | "err"
          calls, ndefs, ngets, top, out,   \* bookkeeping / observation
          gSet, gF, gDI, gDF,     \* ghost: definitions that were accepted
          built, hist
vars == <<deps, fails, inj, DI, DF, F, inst, blocked, callstack, frames, ret, calls, ndefs, ngets, top, out, gSet, gF, gDI, gDF, built, hist>>
View == <<deps, fails, inj, DI, DF, F, inst, blocked, callstack, frames, ret, calls, ndefs, ngets, top, out, gSet, gF, gDI, gDF, built>>
DepsJson == { [n |-> n, d |-> deps[n]] : n \in Names }
EmitHist(h) == Emit => PrintT(ToJson([k |-> "di", deps |-> DepsJson, fails |-> fails, hist |-> h]))
Edge == [t : Names, opt : BOOLEAN]
DepChoices == {<<>>} \cup { <<e>> : e \in Edge }
WideChoices == { <<e1, e2>> : e1 \in Edge, e2 \in Edge }
NoInj == [on |-> FALSE, fs |-> <<>>, i |-> 0, got |-> <<>>]
InjShapes == IF InjLen = 0 THEN {} ELSE { f \in [1..InjLen -> Edge] : f[1].t = CHOOSE n \in Names : TRUE }
NoChain == <<>>
Chain20 == <<"N01", "N02", "N03", "N04", "N05", "N06", "N07", "N08", "N09", "N10", "N11", "N12", "N13", "N14", "N15", "N16", "N17", "N18", "N19", "N20">>
Preset == Wide # {} \/ ChainSeq # <<>>
ChainIdx(n) == CHOOSE i \in 1..Len(ChainSeq) : ChainSeq[i] = n
ChainDeps(o) == [n \in Names |-> IF ChainIdx(n) < Len(ChainSeq) THEN <<[t |-> ChainSeq[ChainIdx(n) + 1], opt |-> o]>> ELSE <<>>]
Init == /\ deps \in (IF ChainSeq # <<>> THEN { ChainDeps(o) : o \in BOOLEAN }
                     ELSE { d \in [Names -> DepChoices \cup WideChoices] : \A n \in Names : (Len(d[n]) = 2) = (n \in Wide) })
        /\ fails \in (IF ChainSeq # <<>> THEN {{}, {ChainSeq[Len(ChainSeq)]}} ELSE SUBSET Names) /\ inj = NoInj
        /\ DI = {} /\ DF = {} /\ inst = << >> /\ blocked = FALSE /\ callstack = <<>>
        /\ F = (IF ~Preset THEN {} ELSE Names) /\ gF = F /\ ndefs = (IF ~Preset THEN 0 ELSE MaxDefs)
        /\ hist = (IF ~Preset THEN <<>> ELSE [i \in 1..Cardinality(Names) |->
                       [call |-> "addfactory", n |-> (IF ChainSeq # <<>> THEN ChainSeq ELSE CHOOSE s \in [1..Cardinality(Names) -> Names] : \A a, b \in 1..Cardinality(Names) : a # b => s[a] # s[b])[i],
                        res |-> "ok", tag |-> "-", calls |-> [x \in Names |-> 0]]])
        /\ frames = <<>> /\ ret = "none" /\ calls = [n \in Names |-> 0] /\ ngets = 0
        /\ top = "none" /\ out = <<"none","none","-">> /\ gSet = {} /\ gDI = {} /\ gDF = {}
        /\ built = [n \in Names |-> 0]
Ext(f, n, v) == [x \in DOMAIN f \cup {n} |-> IF x = n THEN v ELSE f[x]]
Quiet == frames = <<>> /\ ret = "none" /\ top = "none"
Def(body) == /\ Quiet /\ ~inj.on /\ ndefs < MaxDefs /\ ndefs' = ndefs + 1 /\ body
             /\ EmitHist(hist')
             /\ UNCHANGED <<deps, fails, inj, blocked, callstack, frames, ret, calls, ngets, top, out, built>>
Same == UNCHANGED <<DI, DF, F, inst, gSet, gF, gDI, gDF>>
H(call, n, r) == hist' = Append(hist, [call |-> call, n |-> n, res |-> r, tag |-> "-", calls |-> calls])
Set(n) == Def(IF blocked \/ n \in DOMAIN inst \/ n \in F THEN Same /\ H("set", n, "err")
              ELSE /\ H("set", n, "ok") /\ inst' = Ext(inst, n, "set") /\ gSet' = gSet \cup {n} /\ UNCHANGED <<DI, DF, F, gF, gDI, gDF>>)
SetDefault(n) == Def(IF blocked \/ n \in DI \/ n \in DF THEN Same /\ H("setdefault", n, "err")
              ELSE /\ H("setdefault", n, "ok") /\ DI' = DI \cup {n} /\ gDI' = gDI \cup {n} /\ UNCHANGED <<DF, F, inst, gSet, gF, gDF>>)
AddFactory(n) == Def(IF blocked \/ n \in F THEN Same /\ H("addfactory", n, "err")
              ELSE /\ H("addfactory", n, "ok") /\ F' = F \cup {n} /\ DF' = DF \ {n} /\ gF' = gF \cup {n} /\ UNCHANGED <<DI, inst, gSet, gDI, gDF>>)
AddDefaultFactory(n) == Def(IF blocked \/ n \in DF THEN Same /\ H("adddefaultfactory", n, "err")
              ELSE IF n \in F THEN Same /\ H("adddefaultfactory", n, "ok")     \* accepted but ignored: an explicit factory exists
              ELSE /\ H("adddefaultfactory", n, "ok") /\ DF' = DF \cup {n} /\ gDF' = gDF \cup {n} /\ UNCHANGED <<DI, F, inst, gSet, gF, gDI>>)
\* Block(): fold default instances in (order irrelevant here because keys are distinct)
Folded == IF Variant = "prefix" THEN { n \in DI : n \notin DOMAIN inst }
          ELSE { n \in DI : n \notin DOMAIN inst /\ n \notin F }
BlockInst == [x \in DOMAIN inst \cup Folded |-> IF x \in DOMAIN inst THEN inst[x] ELSE "def"]
\* Enter(n): what Get(n) does on entry, given tables t_inst/t_F/t_DF
StartGet(n) == /\ top' = n /\ out' = <<"none","none","-">>
               /\ blocked' = TRUE
               /\ IF blocked THEN UNCHANGED <<inst, F, DF>>
                  ELSE /\ inst' = BlockInst /\ F' = F \ Folded /\ DF' = DF \ Folded
               /\ frames' = <<[n |-> n, i |-> 0]>>      \* i = 0: not yet entered
               /\ UNCHANGED <<deps, fails, DI, callstack, ret, calls, ndefs, gSet, gF, gDI, gDF, built, hist>>
GetBegin(n) == /\ Quiet /\ ~inj.on /\ ngets < MaxGets /\ ngets' = ngets + 1 /\ StartGet(n) /\ UNCHANGED inj
\* InjectTo(struct with the fields fs): one top-level call, one Get per field
InjectBegin(fs) == /\ Quiet /\ ~inj.on /\ ngets < MaxGets /\ ngets' = ngets + 1
                   /\ inj' = [on |-> TRUE, fs |-> fs, i |-> 1, got |-> <<>>] /\ StartGet(fs[1].t)
Top == frames[Len(frames)]
Pop == SubSeq(frames, 1, Len(frames)-1)
InStack(n) == \E k \in 1..Len(callstack) : callstack[k] = n
\* frame with i = 0 performs the entry test of Get
Enter == /\ frames # <<>> /\ ret = "none" /\ Top.i = 0
         /\ LET n == Top.n IN
            IF InStack(n) \/ (n \notin DOMAIN inst /\ n \notin F /\ n \notin DF)
              THEN /\ ret' = "err" /\ frames' = Pop /\ UNCHANGED <<callstack, calls>>
            ELSE IF n \in DOMAIN inst
              THEN /\ ret' = "ok" /\ frames' = Pop /\ UNCHANGED <<callstack, calls>>
            ELSE /\ callstack' = Append(callstack, n) /\ calls' = [calls EXCEPT ![n] = @ + 1]
                 /\ frames' = [frames EXCEPT ![Len(frames)].i = 1] /\ ret' = "none"
         /\ UNCHANGED <<deps, fails, inj, DI, DF, F, inst, blocked, ndefs, ngets, top, out, gSet, gF, gDI, gDF, built, hist>>
\* factory body: request next dependency, or finish
FactoryFail == /\ ret' = "err" /\ frames' = Pop
               /\ callstack' = IF Variant = "prefix" THEN callstack
                               ELSE SubSeq(callstack, 1, Len(callstack)-1)
               /\ UNCHANGED <<inst, F, DF>>
Body == /\ frames # <<>> /\ ret = "none" /\ Top.i >= 1
        /\ LET n == Top.n  d == deps[n] IN
           IF Top.i <= Len(d)
             THEN /\ frames' = Append(frames, [n |-> d[Top.i].t, i |-> 0]) /\ UNCHANGED <<ret, callstack, inst, F, DF>>
           ELSE IF n \in fails THEN FactoryFail
           ELSE /\ ret' = "ok" /\ frames' = Pop
                /\ callstack' = SubSeq(callstack, 1, Len(callstack)-1)     \* pops the LAST element, as the code does
                /\ inst' = Ext(inst, n, IF n \in F THEN "fac" ELSE "dfac")
                /\ F' = F \ {n} /\ DF' = DF \ {n}
        /\ built' = IF Top.i > Len(deps[Top.n]) /\ Top.n \notin fails THEN [built EXCEPT ![Top.n] = @ + 1] ELSE built
        /\ UNCHANGED <<deps, fails, inj, DI, blocked, calls, ndefs, ngets, top, out, gSet, gF, gDI, gDF, hist>>
\* a dependency's result arrives at the requesting factory
Deliver == /\ frames # <<>> /\ ret # "none"
           /\ LET n == Top.n  e == deps[n][Top.i] IN
              IF ret = "ok" \/ e.opt
                THEN /\ frames' = [frames EXCEPT ![Len(frames)].i = @ + 1] /\ ret' = "none" /\ UNCHANGED <<callstack, inst, F, DF>>
                ELSE FactoryFail
           /\ UNCHANGED <<deps, fails, inj, DI, blocked, calls, ndefs, ngets, top, out, gSet, gF, gDI, gDF, built, hist>>
GetEnd == /\ frames = <<>> /\ ret # "none" /\ ~inj.on /\ out' = <<top, ret, IF ret = "ok" THEN inst[top] ELSE "-">>
          /\ ret' = "none" /\ top' = "none"
          /\ hist' = Append(hist, [call |-> "get", n |-> top, res |-> ret, tag |-> IF ret = "ok" THEN inst[top] ELSE "-", calls |-> calls])
          /\ EmitHist(hist')
          /\ UNCHANGED <<deps, fails, inj, DI, DF, F, inst, blocked, callstack, frames, calls, ndefs, ngets, gSet, gF, gDI, gDF, built>>
\* the Get of one field of a struct injection has returned
InjFieldEnd ==
  /\ frames = <<>> /\ ret # "none" /\ inj.on
  /\ LET f == inj.fs[inj.i]
         g == Append(inj.got, [res |-> ret, tag |-> IF ret = "ok" THEN inst[top] ELSE "-"])
         abort == ret = "err" /\ ~f.opt
         last == inj.i = Len(inj.fs)
         fin(r) == /\ hist' = Append(hist, [call |-> "inject", n |-> "-", res |-> r, tag |-> "-", calls |-> calls, fields |-> inj.fs, got |-> g])
                   /\ inj' = NoInj /\ top' = "none" /\ UNCHANGED <<frames, blocked, inst, F, DF>>
     IN /\ out' = <<top, ret, IF ret = "ok" THEN inst[top] ELSE "-">> /\ ret' = "none"
        /\ IF abort THEN fin("err") /\ EmitHist(hist')
           ELSE IF last THEN fin("ok") /\ EmitHist(hist')       \* then the extra injectors
           ELSE /\ inj' = [inj EXCEPT !.i = @ + 1, !.got = g] /\ UNCHANGED hist
                /\ top' = inj.fs[inj.i + 1].t /\ frames' = <<[n |-> inj.fs[inj.i + 1].t, i |-> 0]>> /\ UNCHANGED <<blocked, inst, F, DF>>
  /\ UNCHANGED <<deps, fails, DI, callstack, calls, ndefs, ngets, gSet, gF, gDI, gDF, built>>
Next == \/ \E n \in Names : Set(n) \/ SetDefault(n) \/ AddFactory(n) \/ AddDefaultFactory(n) \/ GetBegin(n)
        \/ (\E fs \in InjShapes : InjectBegin(fs))
        \/ Enter \/ Body \/ Deliver \/ GetEnd \/ InjFieldEnd
Spec == Init /\ [][Next]_vars
\* ---- properties
StackEmptyWhenQuiet == Quiet => callstack = <<>>

Expected(n) == IF n \in gSet \/ n \in gF THEN {"set","fac"} ELSE IF n \in gDI \/ n \in gDF THEN {"def","dfac"} ELSE {}
Precedence == (out[2] = "ok") => out[3] \in Expected(out[1])
\* struct injection: every field that was set holds an instance of the origin a direct Get yields
InjectConsistent == \A k \in 1..Len(hist) : hist[k].call = "inject" =>
      \A j \in 1..Len(hist[k].got) : hist[k].got[j].res = "ok" => hist[k].got[j].tag \in Expected(hist[k].fields[j].t)
NoRecursion == Len(frames) <= Cardinality(Names) + 1
\* a factory that has produced an instance never runs again; it runs at all only beneath a Get (calls counts entries)
OnceBuilt == \A n \in Names : built[n] <= 1 /\ (n \in DOMAIN inst /\ inst[n] \in {"fac", "dfac"} => built[n] = 1)
LazyFactories == \A n \in Names : calls[n] > 0 => blocked
\* after the first resolution every definition is refused
Frozen == blocked => (gSet = gSet /\ TRUE)
====
