SPECIFICATION Spec
CONSTANTS
  Names = {"A", "B", "C"}
  Variant = "current"
  MaxDefs = 6
  MaxGets = 6
  Emit = TRUE
INVARIANTS StackEmptyWhenQuiet Precedence NoRecursion OnceBuilt LazyFactories
CHECK_DEADLOCK FALSE
