SPECIFICATION Spec
CONSTANTS
  Names = {"A", "B", "C"}
  Variant = "current"
  MaxDefs = 6
  MaxGets = 6
  InjLen = 3
  Wide = {}
  ChainSeq <- NoChain
  Emit = TRUE
INVARIANTS InjectConsistent StackEmptyWhenQuiet Precedence NoRecursion OnceBuilt LazyFactories
CHECK_DEADLOCK FALSE
