SPECIFICATION Spec
CONSTANTS
  Names = {"A", "B", "C"}
  Variant = "current"
  MaxDefs = 3
  MaxGets = 1
  InjLen = 0
  Wide = {"A"}
  ChainSeq <- NoChain
  Emit = TRUE
INVARIANTS StackEmptyWhenQuiet Precedence NoRecursion OnceBuilt LazyFactories
VIEW View
CHECK_DEADLOCK FALSE
