SPECIFICATION Spec
CONSTANTS
  Names = {"A", "B"}
  Variant = "current"
  MaxDefs = 3
  MaxGets = 2
  Emit = TRUE
INVARIANTS StackEmptyWhenQuiet Precedence NoRecursion OnceBuilt LazyFactories
VIEW View
CHECK_DEADLOCK FALSE
