---------------------------- MODULE PathNorm ----------------------------
(* Path spellings and their reduction, transcribed from varutil/paths.go.
   A raw spelling is a sequence of segments (the string split at "/");
   a leading "/" shows up as a first segment "".  Segments are strings;
   "", "." and ".." are the significant ones, everything else is a name.

   Reduce   = varutil.ReduceAbsPath : drops ""/".", pops on "..", and is
              Climb when it would pop the root.
   Clamp    = rooted path.Clean     : same, but ".." at the root is dropped
              ("resolved inside the root").
   The property layer (C01, C03) allows, for a climbing spelling, either an
   error or the clamped resolution. *)
EXTENDS Naturals, Sequences

Climb == <<"..", "<climb>">>          \* sentinel, not a legal canonical path

RECURSIVE RedAcc(_, _, _)
RedAcc(segs, i, acc) ==
  IF i > Len(segs) THEN acc
  ELSE LET s == segs[i] IN
       IF s = "" \/ s = "." THEN RedAcc(segs, i + 1, acc)
       ELSE IF s = ".." THEN (IF acc = <<>> THEN Climb ELSE RedAcc(segs, i + 1, SubSeq(acc, 1, Len(acc) - 1)))
       ELSE RedAcc(segs, i + 1, Append(acc, s))
Reduce(segs) == RedAcc(segs, 1, <<>>)

RECURSIVE ClampAcc(_, _, _)
ClampAcc(segs, i, acc) ==
  IF i > Len(segs) THEN acc
  ELSE LET s == segs[i] IN
       IF s = "" \/ s = "." THEN ClampAcc(segs, i + 1, acc)
       ELSE IF s = ".." THEN ClampAcc(segs, i + 1, IF acc = <<>> THEN acc ELSE SubSeq(acc, 1, Len(acc) - 1))
       ELSE ClampAcc(segs, i + 1, Append(acc, s))
Clamp(segs) == ClampAcc(segs, 1, <<>>)

Climbs(segs) == Reduce(segs) = Climb

\* all raw spellings of length <= n over segment alphabet S
Spellings(S, n) == UNION { [1..k -> S] : k \in 0..n }
=============================================================================
