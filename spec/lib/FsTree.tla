------------------------------ MODULE FsTree ------------------------------
(* The plain tree-of-named-nodes model that properties C01, C02, C06, C07
   refer to.  A tree is a function  path -> "D" | content-token  whose domain
   is prefix closed; the root (<<>>) is implicit, always a directory and never
   listed.  Every Filespace method is a pure operator returning the SET of
   allowed outcomes [t |-> tree', res |-> result]; the set has more than one
   element only in the "unspecified corners" listed here, where the property
   statement is silent:

     U1  Remove / RemoveAll of a missing path: ok or err, tree unchanged
     U2  Remove / RemoveAll of the root: ok or err unchanged, or (RemoveAll) emptied
     U3  a copy onto an existing destination: err unchanged, or ok with the
         destination replaced / merged
     U4  a copy whose source is the root: err, or ok (deep copy of everything
         that existed before the destination was created)
     U5  MkdirAll of the root: ok or err, unchanged
     U6  a failing copy may already have created the destination's parents
     U7  (trace specs only; here the root always exists) a disk filespace that removed
         its own root directory, or a child view whose base is gone and whose root is
         addressed: clean refusal -- see Trace_MemFS.tla
   Results are uniformly typed (TLC cannot compare a string with a set): a set
   of string tuples -- OK, ERR, B(b), Dat(d), Lst(listing), St(name,isDir). *)
EXTENDS Naturals, Sequences, FiniteSets

Parent(p) == SubSeq(p, 1, Len(p) - 1)
Last(p) == p[Len(p)]
Prefixes(p) == { SubSeq(p, 1, k) : k \in 1..Len(p) }          \* non-empty, incl. p
ProperPrefixes(p) == Prefixes(p) \ {p}
IsPrefixOf(p, q) == Len(p) <= Len(q) /\ SubSeq(q, 1, Len(p)) = p
Under(t, p) == { q \in DOMAIN t : Len(q) > Len(p) /\ IsPrefixOf(p, q) }
Restrict(f, S) == [x \in S |-> f[x]]
Ext(f, g) == [x \in DOMAIN f \cup DOMAIN g |-> IF x \in DOMAIN g THEN g[x] ELSE f[x]]
EmptyTree == << >>

IsDir(t, p) == p = <<>> \/ (p \in DOMAIN t /\ t[p] = "D")
IsFile(t, p) == p \in DOMAIN t /\ t[p] # "D"
IsExist(t, p) == p = <<>> \/ p \in DOMAIN t
Children(t, p) == { q \in DOMAIN t : Len(q) = Len(p) + 1 /\ IsPrefixOf(p, q) }
Listing(t, p) == { <<Last(q), t[q] = "D">> : q \in Children(t, p) }
Wf(t) == \A p \in DOMAIN t : p # <<>> /\ \A q \in ProperPrefixes(p) : q \in DOMAIN t /\ t[q] = "D"

O(t, r) == [t |-> t, res |-> r]
OK == { <<"ok">> }
ERR == { <<"err">> }
B(b) == { <<IF b THEN "true" ELSE "false">> }
Dat(d) == { <<"data", d>> }
Kind(isdir) == IF isdir THEN "D" ELSE "F"
Lst(l) == { <<"list">> } \cup { <<"e", e[1], Kind(e[2])>> : e \in l }
St(n, isdir) == { <<"stat", n, Kind(isdir)>> }
NoFileIn(t, S) == \A q \in S : ~IsFile(t, q)
MkDirs(t, S) == Ext(t, [q \in S |-> "D"])

WriteFile(t, p, d) ==
  IF p = <<>> \/ ~NoFileIn(t, ProperPrefixes(p)) \/ IsDir(t, p) THEN { O(t, ERR) }
  ELSE { O(Ext(MkDirs(t, ProperPrefixes(p)), [q \in {p} |-> d]), OK) }

MkdirAll(t, p) ==
  IF p = <<>> THEN { O(t, OK), O(t, ERR) }                                   \* U5
  ELSE IF NoFileIn(t, Prefixes(p)) THEN { O(MkDirs(t, Prefixes(p)), OK) } ELSE { O(t, ERR) }

Remove(t, p) ==
  IF p = <<>> \/ p \notin DOMAIN t THEN { O(t, OK), O(t, ERR) }               \* U1 U2
  ELSE IF Under(t, p) = {} THEN { O(Restrict(t, DOMAIN t \ {p}), OK) } ELSE { O(t, ERR) }

RemoveAll(t, p) ==
  IF p = <<>> THEN { O(t, OK), O(t, ERR), O(EmptyTree, OK) }                \* U2
  ELSE IF p \notin DOMAIN t THEN { O(t, OK), O(t, ERR) }                      \* U1
  ELSE { O(Restrict(t, DOMAIN t \ ({p} \cup Under(t, p))), OK) }

ReadFile(t, p) == IF IsFile(t, p) THEN { O(t, Dat(t[p])) } ELSE { O(t, ERR) }
ReadDir(t, p) == IF IsDir(t, p) THEN { O(t, Lst(Listing(t, p))) } ELSE { O(t, ERR) }
QExist(t, p) == { O(t, B(IsExist(t, p))) }
QFile(t, p) == { O(t, B(IsFile(t, p))) }
QDir(t, p) == { O(t, B(IsDir(t, p))) }
Lstat(t, p) == IF p = <<>> THEN { O(t, St("", TRUE)) }
               ELSE IF p \in DOMAIN t THEN { O(t, St(Last(p), t[p] = "D")) } ELSE { O(t, ERR) }

Rebase(q, s, d) == d \o SubSeq(q, Len(s) + 1, Len(q))
SrcNodes(ts, s) == (IF s = <<>> THEN {} ELSE {s}) \cup Under(ts, s)
\* graft the subtree of ts rooted at s below d in t (s = <<>> : everything in ts)
GraftMap(ts, s, d) ==
  [x \in { Rebase(q, s, d) : q \in SrcNodes(ts, s) } |->
      LET q == CHOOSE q \in SrcNodes(ts, s) : Rebase(q, s, d) = x IN ts[q]]
Graft(t, ts, s, d) == Ext(Ext(t, [x \in {d} |-> "D"]), GraftMap(ts, s, d))
GraftFile(t, ts, s, d) == Ext(t, [x \in {d} |-> ts[s]])
Without(t, d) == Restrict(t, DOMAIN t \ ({d} \cup Under(t, d)))

\* kind: "any" | "file" | "dir"
CopyOp(t, s, d, kind) ==
  LET srcOk == /\ IsExist(t, s)
               /\ (kind = "file" => IsFile(t, s))
               /\ (kind = "dir" => IsDir(t, s))
      t1 == MkDirs(t, ProperPrefixes(d))
      asFile == IsFile(t, s)
      put(base) == IF asFile THEN GraftFile(base, t1, s, d) ELSE Graft(base, t1, s, d)
  IN
  IF d = <<>> \/ ~srcOk THEN { O(t, ERR) }
  ELSE IF ~NoFileIn(t, ProperPrefixes(d)) THEN { O(t, ERR) }
  ELSE IF s = <<>> THEN { O(t, ERR), O(t1, ERR) } \cup
                        (IF d \in DOMAIN t1 THEN {} ELSE { O(put(t1), OK) })    \* U4 U6
  ELSE IF d \in DOMAIN t1
       THEN { O(t, ERR), O(put(Without(t1, d)), OK) } \cup
            (IF ~asFile /\ IsDir(t1, d) /\ \A x \in DOMAIN GraftMap(t1, s, d) :
                  (x \in DOMAIN t1 => ((t1[x] = "D") = (GraftMap(t1, s, d)[x] = "D")))
             THEN { O(put(t1), OK) } ELSE {})                                    \* U3
       ELSE { O(put(t1), OK) }

\* Generic dispatcher.  op = [name, p (, q) (, d)] with CANONICAL paths.
Apply(t, op) ==
  CASE op.name = "write"     -> WriteFile(t, op.p, op.d)
    [] op.name = "wstream"   -> WriteFile(t, op.p, op.d)      \* Writer; Write*; Close
    [] op.name = "mkdir"     -> MkdirAll(t, op.p)
    [] op.name = "remove"    -> Remove(t, op.p)
    [] op.name = "removeall" -> RemoveAll(t, op.p)
    [] op.name = "read"      -> ReadFile(t, op.p)
    [] op.name = "rstream"   -> ReadFile(t, op.p)             \* Reader; Read*; Close
    [] op.name = "readdir"   -> ReadDir(t, op.p)
    [] op.name = "isexist"   -> QExist(t, op.p)
    [] op.name = "isfile"    -> QFile(t, op.p)
    [] op.name = "isdir"     -> QDir(t, op.p)
    [] op.name = "lstat"     -> Lstat(t, op.p)
    [] op.name = "copy"      -> CopyOp(t, op.p, op.q, "any")
    [] op.name = "copyfile"  -> CopyOp(t, op.p, op.q, "file")
    [] op.name = "copydir"   -> CopyOp(t, op.p, op.q, "dir")

\* ---- C02: preconditions under which every backend must behave exactly as above
\*      (source exists, destination parent exists, destination of a copy absent), on a
\*      canonical call c; outside them a backend may answer differently but must fail
\*      cleanly: nothing changes except at, below or above (parents) the addressed paths.
PreC(t, c) ==
  CASE c.name \in {"write", "wstream"} -> c.p # <<>> /\ IsDir(t, Parent(c.p))
    [] c.name \in {"remove", "removeall"} -> c.p # <<>> /\ IsExist(t, c.p)
    [] c.name \in {"copy", "copyfile", "copydir"} -> /\ c.p # <<>> /\ c.q # <<>> /\ IsExist(t, c.p)
                                                     /\ IsDir(t, Parent(c.q)) /\ ~IsExist(t, c.q)
    [] c.name = "mkdir" -> c.p # <<>>
    [] OTHER -> TRUE
Related(p, a) == IsPrefixOf(p, a) \/ IsPrefixOf(a, p)
CleanChange(t, t2, addr) ==
  /\ \A p \in DOMAIN t : (\E a \in addr : Related(p, a)) \/ (p \in DOMAIN t2 /\ t2[p] = t[p])
  /\ \A p \in DOMAIN t2 : (\E a \in addr : Related(p, a)) \/ (p \in DOMAIN t /\ t2[p] = t[p])

Mutating == {"write", "wstream", "mkdir", "remove", "removeall", "copy", "copyfile", "copydir"}
BoolOps == {"isexist", "isfile", "isdir"}
TwoPath == {"copy", "copyfile", "copydir"}
MaxLen(t) == IF DOMAIN t = {} THEN 0 ELSE CHOOSE n \in { Len(p) : p \in DOMAIN t } : \A p \in DOMAIN t : Len(p) <= n
=============================================================================
