SPECIFICATION Spec
CONSTANTS
  Procs = {1, 2, 3}
  Variant = "prefix"
INVARIANTS NoMapRace BuiltOnce
