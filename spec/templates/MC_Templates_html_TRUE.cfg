SPECIFICATION Spec
CONSTANTS
  Kind = "html"
  Cached = TRUE
  Variant = "current"
  MaxReq = 3
  Emit = TRUE
INVARIANT Inv
CHECK_DEADLOCK FALSE
