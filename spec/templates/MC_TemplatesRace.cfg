SPECIFICATION Spec
CONSTANTS
  Procs = {1, 2, 3}
  Variant = "current"
INVARIANTS NoMapRace BuiltOnce
