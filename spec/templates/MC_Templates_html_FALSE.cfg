SPECIFICATION Spec
CONSTANTS
  Kind = "html"
  Cached = FALSE
  Variant = "current"
  MaxReq = 3
  Emit = TRUE
INVARIANT Inv
CHECK_DEADLOCK FALSE
