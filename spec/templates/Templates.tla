------------------------------ MODULE Templates ------------------------------
(* C19: template providers (goathtml/ghprovider, goattext/gtprovider).
   A template OBJECT is a mutable map  definition name -> body token; Clone
   allocates a copy, Parse overrides names IN PLACE.  The provider keeps a base
   object (helpers), one object per layout and one per (layout, view) key,
   remembered only when Cached.  Requests are the code's steps:
     Base()         new object + helper definitions
     Layout(l)      Base() ; Clone ; parse the layout's definitions        (Kind "html")
                    Base() ; Clone only if the layout has files ; parse     (Kind "text")
     View(l, v)     Layout(l) ; Clone (html: always / text: only if the view has files) ; parse
   Variant "noclone" (html Layout without Clone) is the regression model.
   A layout in `lbad` has a file that does not parse: every request through it fails,
   however often it is made and whether or not results are cached (nothing is remembered
   for it).  Variant "cachefail" (regression) remembers the failed load: the second request
   is answered with a nil template and no error.
   Property: a view sees helpers (+) layout (+) its own definitions, the more
   specific layer winning; this holds whatever was requested before, cached or not;
   and no object that was handed out is modified afterwards (views are isolated from
   each other and from the layout). *)
EXTENDS Naturals, Sequences, FiniteSets, TLC, Json

CONSTANTS Kind, Cached, Variant, MaxReq, Emit
Names == {"N1", "N2"}
Layouts == {"L1", "L2"}
Views == {"V1", "V2"}
Undef == "-"

VARIABLES hdef, ldef, vdef, lbad,  \* which file set defines which names; layouts whose files do not parse (fixed after Init)
          heap, nextid, base, layouts, views, handed, reqs
vars == <<hdef, ldef, vdef, lbad, heap, nextid, base, layouts, views, handed, reqs>>

\* a small but telling family of file sets
DefSets == {{}, {"N1"}, {"N1", "N2"}}
Failed == 0          \* object id of a failed request
NilNoError == 99     \* (regression only) a nil template handed out without an error
Init == /\ hdef \in DefSets /\ ldef \in [Layouts -> DefSets] /\ vdef \in [Views -> {{}, {"N2"}, {"N1", "N2"}}]
        /\ lbad \in {{}, {"L2"}}
        /\ heap = << >> /\ nextid = 1 /\ base = 0 /\ layouts = << >> /\ views = << >> /\ handed = << >> /\ reqs = <<>>

Body(layer, who, n) == layer \o ":" \o who \o ":" \o n
Overlay(obj, defs, layer, who) == [n \in Names |-> IF n \in defs THEN Body(layer, who, n) ELSE obj[n]]
Expected(l, v) == [n \in Names |-> IF v # "" /\ n \in vdef[v] THEN Body("V", v, n)
                                   ELSE IF l # "" /\ n \in ldef[l] THEN Body("L", l, n)
                                   ELSE IF n \in hdef THEN Body("H", "h", n) ELSE Undef]
Put(h, id, obj) == [x \in DOMAIN h \cup {id} |-> IF x = id THEN obj ELSE h[x]]

\* --- the requests as pure state transformers: st = [heap, nextid, base, layouts, views], returning also the object id
DoBase(st) ==
  IF Cached /\ st.base # 0 THEN [st |-> st, id |-> st.base]
  ELSE LET id == st.nextid
           obj == Overlay([n \in Names |-> Undef], hdef, "H", "h")
           st1 == [st EXCEPT !.heap = Put(st.heap, id, obj), !.nextid = id + 1] IN
       [st |-> IF Cached THEN [st1 EXCEPT !.base = id] ELSE st1, id |-> id]
DoLayout(st, l) ==
  IF Cached /\ l \in DOMAIN st.layouts THEN [st |-> st, id |-> st.layouts[l]]
  ELSE IF l \in lbad
       THEN LET b == DoBase(st) IN
            [st |-> IF Cached /\ Variant = "cachefail" THEN [b.st EXCEPT !.layouts = Put(b.st.layouts, l, NilNoError)] ELSE b.st, id |-> Failed]
  ELSE LET b == DoBase(st)
           hasFiles == ldef[l] # {}
           clone == IF Variant = "noclone" THEN FALSE ELSE (Kind = "html" \/ hasFiles)
           id == IF clone THEN b.st.nextid ELSE b.id
           src == b.st.heap[b.id]
           obj == Overlay(src, ldef[l], "L", l)
           st1 == [b.st EXCEPT !.heap = Put(b.st.heap, id, obj), !.nextid = IF clone THEN id + 1 ELSE b.st.nextid] IN
       [st |-> IF Cached THEN [st1 EXCEPT !.layouts = Put(st1.layouts, l, id)] ELSE st1, id |-> id]
DoView(st, l, v) ==
  LET key == <<l, v>> IN
  IF Cached /\ key \in DOMAIN st.views THEN [st |-> st, id |-> st.views[key]]
  ELSE IF DoLayout(st, l).id \in {Failed, NilNoError} THEN DoLayout(st, l)
  ELSE LET lay == DoLayout(st, l)
           hasFiles == vdef[v] # {}
           clone == Kind = "html" \/ hasFiles
           id == IF clone THEN lay.st.nextid ELSE lay.id
           obj == Overlay(lay.st.heap[lay.id], vdef[v], "V", v)
           st1 == [lay.st EXCEPT !.heap = Put(lay.st.heap, id, obj), !.nextid = IF clone THEN id + 1 ELSE lay.st.nextid] IN
       [st |-> IF Cached THEN [st1 EXCEPT !.views = Put(st1.views, key, id)] ELSE st1, id |-> id]

St == [heap |-> heap, nextid |-> nextid, base |-> base, layouts |-> layouts, views |-> views]
Apply(r, what, l, v) ==
  /\ heap' = r.st.heap /\ nextid' = r.st.nextid /\ base' = r.st.base /\ layouts' = r.st.layouts /\ views' = r.st.views
  /\ handed' = Put(handed, Len(reqs) + 1, [id |-> r.id, want |-> IF l \in lbad THEN [n \in Names |-> "ERR"] ELSE Expected(l, v)])
  /\ reqs' = Append(reqs, [what |-> what, l |-> l, v |-> v])
  /\ UNCHANGED <<hdef, ldef, vdef, lbad>>
ReqLayout(l) == Len(reqs) < MaxReq /\ Apply(DoLayout(St, l), "layout", l, "")
ReqView(l, v) == Len(reqs) < MaxReq /\ Apply(DoView(St, l, v), "view", l, v)
Next == (\E l \in Layouts : ReqLayout(l)) \/ (\E l \in Layouts, v \in Views : ReqView(l, v)) \/ (Len(reqs) = MaxReq /\ UNCHANGED vars)
Spec == Init /\ [][Next]_vars

\* every object ever handed out shows -- now and for ever after -- exactly the layering it was asked for
LayeredAndIsolated == \A i \in DOMAIN handed : handed[i].id \notin {Failed, NilNoError} => heap[handed[i].id] = handed[i].want
\* a request through a layout that does not load fails -- the first time and every time
BadAlwaysFails == \A i \in DOMAIN handed : (reqs[i].l \in lbad) = (handed[i].id = Failed)
EmitCase == (Emit /\ reqs # <<>>) => PrintT(ToJson([k |-> "tpl", hdef |-> hdef, ldef |-> ldef, vdef |-> vdef, lbad |-> lbad, reqs |-> reqs,
                                                     want |-> [i \in DOMAIN handed |-> handed[i].want]]))
Inv == LayeredAndIsolated /\ BadAlwaysFails /\ EmitCase
View2 == <<hdef, ldef, vdef, lbad, heap, nextid, base, layouts, views, handed, reqs>>
=============================================================================
