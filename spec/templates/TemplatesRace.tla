---------------------------- MODULE TemplatesRace ----------------------------
(* C19, concurrency: first use of one cache map by several requesters.  A map
   access is not atomic (begin/end); Go's runtime kills the process when a read
   overlaps a write.  Variant "prefix": the fast path reads the map without the
   mutex (code before the fix); "current": every access is under the mutex. *)
EXTENDS Naturals, FiniteSets, TLC
CONSTANTS Procs, Variant
VARIABLES pc, lock, stored, reading, writing
vars == <<pc, lock, stored, reading, writing>>
Init == pc = [p \in Procs |-> IF Variant = "prefix" THEN "fast" ELSE "lock"] /\ lock = 0 /\ stored = FALSE /\ reading = {} /\ writing = {}
Goto(p, l) == pc' = [pc EXCEPT ![p] = l]
FastBegin(p) == pc[p] = "fast" /\ reading' = reading \cup {p} /\ Goto(p, "fastend") /\ UNCHANGED <<lock, stored, writing>>
FastEnd(p) == pc[p] = "fastend" /\ reading' = reading \ {p} /\ Goto(p, IF stored THEN "done" ELSE "lock") /\ UNCHANGED <<lock, stored, writing>>
Lock(p) == pc[p] = "lock" /\ lock = 0 /\ lock' = p /\ Goto(p, "recheck") /\ UNCHANGED <<stored, reading, writing>>
Recheck(p) == pc[p] = "recheck" /\ reading' = reading \cup {p} /\ Goto(p, "recheckend") /\ UNCHANGED <<lock, stored, writing>>
RecheckEnd(p) == pc[p] = "recheckend" /\ reading' = reading \ {p} /\ Goto(p, IF stored THEN "unlock" ELSE "write") /\ UNCHANGED <<lock, stored, writing>>
WriteBegin(p) == pc[p] = "write" /\ writing' = writing \cup {p} /\ Goto(p, "writeend") /\ UNCHANGED <<lock, stored, reading>>
WriteEnd(p) == pc[p] = "writeend" /\ writing' = writing \ {p} /\ stored' = TRUE /\ Goto(p, "unlock") /\ UNCHANGED <<lock, reading>>
Unlock(p) == pc[p] = "unlock" /\ lock' = 0 /\ Goto(p, "done") /\ UNCHANGED <<stored, reading, writing>>
Next == (\E p \in Procs : FastBegin(p) \/ FastEnd(p) \/ Lock(p) \/ Recheck(p) \/ RecheckEnd(p) \/ WriteBegin(p) \/ WriteEnd(p) \/ Unlock(p))
        \/ ((\A p \in Procs : pc[p] = "done") /\ UNCHANGED vars)
Spec == Init /\ [][Next]_vars
NoMapRace == writing = {} \/ (reading \ writing = {} /\ Cardinality(writing) = 1)
BuiltOnce == Cardinality(writing) <= 1
=============================================================================
