SPECIFICATION Spec
CONSTANTS
  Kind = "html"
  Cached = TRUE
  Variant = "noclone"
  MaxReq = 3
  Emit = FALSE
INVARIANT Inv
CHECK_DEADLOCK FALSE
