--------------------------- MODULE TemplatesLayers ---------------------------
(* C19, concurrency across the LAYERS of one provider.  Base, layouts and views are built
   under three different locks: a view build (view lock) may overlap a direct layout
   build (layout lock) of another layout.  A build walks its directory file by file
   and parses every file into "the template under construction".
   Variant "current": that template is a local of the build.
   Variant "sharedloader": one loader object per provider holds it (an "allocate
   once" optimisation): a layout build that starts while a view build is between
   two files re-targets the loader, and the rest of the view's files are parsed into
   the layout's template.
   OwnFilesOnly: when all builds are done every template holds exactly the
   definitions of its own files (plus what it was cloned from). *)
EXTENDS Naturals, FiniteSets, Sequences, TLC
CONSTANTS Variant, NFiles
\* two requesters: "v" builds view V over layout L1 (L1 and the base are already cached: its layout lock is not
\* needed any more), "l" builds layout L2 directly
VARIABLES pc, target, local, built, viewLock, layoutLock, next
vars == <<pc, target, local, built, viewLock, layoutLock, next>>
Procs == {"v", "l"}
Tpl(p) == IF p = "v" THEN "V" ELSE "L2"
Files(t) == { <<t, i>> : i \in 1..NFiles }
Init == /\ pc = [p \in Procs |-> "lock"] /\ target = "none" /\ local = [p \in Procs |-> "none"]
        /\ built = [t \in {"V", "L2"} |-> {}] /\ viewLock = FALSE /\ layoutLock = FALSE /\ next = [p \in Procs |-> 1]
Lock(p) == /\ pc[p] = "lock"
           /\ IF p = "v" THEN ~viewLock /\ viewLock' = TRUE /\ UNCHANGED layoutLock
                         ELSE ~layoutLock /\ layoutLock' = TRUE /\ UNCHANGED viewLock
           /\ pc' = [pc EXCEPT ![p] = "begin"] /\ UNCHANGED <<target, local, built, next>>
\* the template under construction is chosen
Begin(p) == /\ pc[p] = "begin"
            /\ IF Variant = "sharedloader" THEN target' = Tpl(p) /\ UNCHANGED local
                                           ELSE local' = [local EXCEPT ![p] = Tpl(p)] /\ UNCHANGED target
            /\ pc' = [pc EXCEPT ![p] = "walk"] /\ UNCHANGED <<built, viewLock, layoutLock, next>>
\* one file is parsed into the template under construction
Parse(p) == /\ pc[p] = "walk" /\ next[p] <= NFiles
            /\ LET into == IF Variant = "sharedloader" THEN target ELSE local[p] IN
               built' = [built EXCEPT ![into] = @ \cup {<<Tpl(p), next[p]>>}]
            /\ next' = [next EXCEPT ![p] = @ + 1]
            /\ UNCHANGED <<pc, target, local, viewLock, layoutLock>>
Unlock(p) == /\ pc[p] = "walk" /\ next[p] > NFiles
             /\ IF p = "v" THEN viewLock' = FALSE /\ UNCHANGED layoutLock ELSE layoutLock' = FALSE /\ UNCHANGED viewLock
             /\ pc' = [pc EXCEPT ![p] = "done"] /\ UNCHANGED <<target, local, built, next>>
Next == (\E p \in Procs : Lock(p) \/ Begin(p) \/ Parse(p) \/ Unlock(p)) \/ ((\A p \in Procs : pc[p] = "done") /\ UNCHANGED vars)
Spec == Init /\ [][Next]_vars
OwnFilesOnly == (\A p \in Procs : pc[p] = "done") => \A t \in {"V", "L2"} : built[t] = Files(t)
NoForeignFile == \A t \in {"V", "L2"} : built[t] \subseteq Files(t)
=============================================================================
