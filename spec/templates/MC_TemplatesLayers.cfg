SPECIFICATION Spec
CONSTANTS
  Variant = "current"
  NFiles = 3
INVARIANTS OwnFilesOnly NoForeignFile
CHECK_DEADLOCK FALSE
