SPECIFICATION Spec
CONSTANTS
  Kind = "text"
  Cached = TRUE
  Variant = "current"
  MaxReq = 3
  Emit = TRUE
INVARIANT Inv
CHECK_DEADLOCK FALSE
