SPECIFICATION Spec
CONSTANTS
  Kind = "text"
  Cached = FALSE
  Variant = "current"
  MaxReq = 3
  Emit = TRUE
INVARIANT Inv
CHECK_DEADLOCK FALSE
