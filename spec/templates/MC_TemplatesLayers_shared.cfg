SPECIFICATION Spec
CONSTANTS
  Variant = "sharedloader"
  NFiles = 3
INVARIANTS OwnFilesOnly NoForeignFile
CHECK_DEADLOCK FALSE
