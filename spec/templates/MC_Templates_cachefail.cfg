SPECIFICATION Spec
CONSTANTS
  Kind = "text"
  Cached = TRUE
  Variant = "cachefail"
  MaxReq = 3
  Emit = FALSE
INVARIANT Inv
CHECK_DEADLOCK FALSE
