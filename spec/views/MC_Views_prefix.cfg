SPECIFICATION Spec
CONSTANTS
  Names = {"a", "f"}
  BaseNames = {"v"}
  MaxSpLen = 3
  MaxStack = 3
  Variant = "prefix"
  Emit = FALSE
INVARIANT Inv
CHECK_DEADLOCK FALSE
