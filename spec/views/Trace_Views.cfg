SPECIFICATION TraceSpec
CONSTANTS
  Names = {"a", "f", "v", "x"}
  BaseNames = {"v"}
  MaxSpLen = 1
  MaxStack = 1
  Variant = "current"
  Emit = FALSE
POSTCONDITION TraceAccepted
CHECK_DEADLOCK FALSE
