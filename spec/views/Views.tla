------------------------------- MODULE Views -------------------------------
(* Exhaustive configuration of ViewsCore: one state per (stack, spelling);
   invariants Confined / Transparent; every state is printed as a test case. *)
EXTENDS ViewsCore

VARIABLES stack, sp
vars == <<stack, sp>>
Init == stack \in Stacks /\ sp \in AllSp
Next == UNCHANGED vars
Spec == Init /\ [][Next]_vars

Confined == ConfinedAt(stack, sp, "read") /\ ConfinedAt(stack, sp, "write")
\* a non-climbing spelling is never refused and lands at base \o Reduce(sp): views are transparent
Transparent == ~Climbs(sp) => Resolve(stack, sp, "read") = FullBase(stack) \o Reduce(sp)
EmitCase == Emit => PrintT(ToJson([k |-> "view", stack |-> stack, sp |-> sp,
                                    rd |-> Resolve(stack, sp, "read"), wr |-> Resolve(stack, sp, "write"),
                                    base |-> FullBase(stack), climbs |-> Climbs(sp), clamp |-> Clamp(sp)]))
Inv == Confined /\ Transparent /\ EmitCase
=============================================================================
