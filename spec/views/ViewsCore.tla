----------------------------- MODULE ViewsCore -----------------------------
(* C03: a filespace view never reaches outside its own root.
   A view is a STACK of layers over a root filespace; every layer turns the
   raw path it is given into the raw path it hands to the layer below, or
   refuses it.  The path computations are transcribed from the code:

     mem, disk          root filespaces: ReduceAbsPath (climbing = error)
     memwrap(b)         memfs.FilespaceWrapper: ReduceAbsPath, then b/..
     disksub(b)         diskfs.Filespace(b): a new disk root at b: ReduceAbsPath
     subfs(b)           fshelper.SubFS: ReduceAbsPath, then b/..        (Variant "current")
                        b + raw argument, no reduction                   (Variant "prefix": before the fix)
     ro, crypt          pass the path through unchanged
     cache              varutil.CleanPath = NON-rooted path.Clean, then strip one leading "/"
                        (WriteFile passes the raw path)

   Confined: for every stack and every raw spelling the composed resolution is
   an error or a path under the concatenation of the bases.  TLC checks it for
   every stack up to MaxStack layers and every spelling up to MaxSpLen segments,
   and prints each (stack, spelling, resolution) as a test for the real code. *)
EXTENDS PathNorm, Naturals, Sequences, FiniteSets, TLC, Json

CONSTANTS Names,        \* names used in spellings, e.g. {"a", "f", "v"}
          BaseNames,    \* names of sub-view base directories, e.g. {"v"} (deeper bases arise by stacking)
          MaxSpLen, MaxStack, Variant, Emit

Bases == { <<b>> : b \in BaseNames }
Err == <<"<err>">>
Seg == Names \cup {".", "..", ""}
AllSp == Spellings(Seg, MaxSpLen)

Roots == { [k |-> "mem"], [k |-> "disk"] }
SubLayers(root) ==
  (IF root.k = "mem" THEN { [k |-> "memwrap", base |-> b] : b \in Bases } ELSE { [k |-> "disksub", base |-> b] : b \in Bases })
  \cup { [k |-> "subfs", base |-> b] : b \in Bases } \cup { [k |-> "ro"], [k |-> "crypt"], [k |-> "cache"] }
\* the code only ever builds these combinations: a cache sits on a filespace; subfs on anything;
\* memwrap only directly on mem or another memwrap; disksub only on disk or disksub
LegalOn(below, layer) ==
  CASE layer.k = "memwrap" -> below.k \in {"mem", "memwrap"}
    [] layer.k = "disksub" -> below.k \in {"disk", "disksub"}
    [] layer.k = "crypt"   -> below.k # "crypt"
    [] layer.k = "ro"      -> below.k # "ro"
    [] layer.k = "cache"   -> below.k # "cache"
    [] OTHER -> TRUE
RECURSIVE StacksOf(_)
StacksOf(n) == IF n = 1 THEN { <<r>> : r \in Roots }
               ELSE LET S == StacksOf(n - 1) IN
                    S \cup UNION { { Append(s, l) : l \in SubLayers(s[1]) } : s \in { x \in S : Len(x) = n - 1 } }
Stacks == { s \in StacksOf(MaxStack) : \A i \in 2..Len(s) : LegalOn(s[i-1], s[i]) }

HasBase(l) == l.k \in {"memwrap", "disksub", "subfs"}
RECURSIVE FullBaseUpTo(_, _)
FullBaseUpTo(s, i) == IF i = 0 THEN <<>> ELSE FullBaseUpTo(s, i - 1) \o (IF HasBase(s[i]) THEN s[i].base ELSE <<>>)
FullBase(s) == FullBaseUpTo(s, Len(s))

\* non-rooted path.Clean followed by stripping one leading "/" (varutil.CleanPath)
RECURSIVE KeepDotsAcc(_, _, _, _)
KeepDotsAcc(segs, i, ups, acc) ==
  IF i > Len(segs) THEN [ups |-> ups, acc |-> acc]
  ELSE LET x == segs[i] IN
       IF x = "" \/ x = "." THEN KeepDotsAcc(segs, i + 1, ups, acc)
       ELSE IF x = ".." THEN (IF acc = <<>> THEN KeepDotsAcc(segs, i + 1, ups + 1, acc)
                              ELSE KeepDotsAcc(segs, i + 1, ups, SubSeq(acc, 1, Len(acc) - 1)))
       ELSE KeepDotsAcc(segs, i + 1, ups, Append(acc, x))
Rooted(segs) == Len(segs) >= 2 /\ segs[1] = ""
CleanNR(segs) ==
  IF Rooted(segs) THEN Clamp(segs)
  ELSE LET r == KeepDotsAcc(segs, 1, 0, <<>>) IN [i \in 1..r.ups |-> ".."] \o r.acc

\* what one layer hands to the layer below (raw segments), or Err
LayerStep(l, cur, opname) ==
  CASE l.k \in {"mem", "disk"} -> IF Climbs(cur) THEN Err ELSE Reduce(cur)
    [] l.k \in {"memwrap", "disksub"} -> IF Climbs(cur) THEN Err ELSE l.base \o Reduce(cur)
    [] l.k = "subfs" -> IF Variant = "prefix" THEN l.base \o cur
                        ELSE IF Climbs(cur) THEN Err ELSE l.base \o Reduce(cur)
    [] l.k \in {"ro", "crypt"} -> cur
    [] l.k = "cache" -> IF opname = "write" THEN cur ELSE CleanNR(cur)

RECURSIVE ResolveFrom(_, _, _, _)
ResolveFrom(s, i, cur, opname) ==
  IF i = 0 THEN cur
  ELSE LET nxt == LayerStep(s[i], cur, opname) IN
       IF nxt = Err THEN Err ELSE ResolveFrom(s, i - 1, nxt, opname)
Resolve(s, sp, opname) == ResolveFrom(s, Len(s), sp, opname)

ConfinedAt(s, sp, opname) == LET r == Resolve(s, sp, opname) IN
                               r = Err \/ (Len(FullBase(s)) <= Len(r) /\ SubSeq(r, 1, Len(FullBase(s))) = FullBase(s))
=============================================================================
