SPECIFICATION Spec
CONSTANTS
  Names = {"a", "f", "v"}
  BaseNames = {"v"}
  MaxSpLen = 4
  MaxStack = 4
  Variant = "current"
  Emit = TRUE
INVARIANT Inv
CHECK_DEADLOCK FALSE
