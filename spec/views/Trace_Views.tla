---------------------------- MODULE Trace_Views ----------------------------
(* Trace validation for C03: each line records a real view stack, a raw
   spelling, and where a unique token written through the top of the stack
   landed in the root filespace (or "<err>" when nothing was written), plus
   whether anything outside the view's root changed.  The specification must
   explain every line: nothing escaped, and the landing place is the model's
   resolution (or the write was refused / resolved inside the root). *)
EXTENDS ViewsCore

TraceLog == ndJsonDeserialize("trace.ndjson")
VARIABLE l
Norm(layer) == IF "base" \in DOMAIN layer THEN [k |-> layer.k, base |-> layer.base] ELSE [k |-> layer.k]
StackOf(e) == [i \in 1..Len(e.stack) |-> Norm(e.stack[i])]
LineOk(e) ==
  LET s == StackOf(e)
      r == Resolve(s, e.sp, "write") IN
  /\ ~e.escaped /\ ~e.panicked
  /\ ConfinedAt(s, e.sp, "write")
  /\ \/ e.landed = Err                                  \* refused (or an unwritable target)
     \/ (r # Err /\ e.landed = r)                        \* exactly where the model resolves it
     \/ (Climbs(e.sp) /\ e.landed = FullBase(s) \o Clamp(e.sp))   \* resolved inside the root
TInit == l = 1
TNext == l <= Len(TraceLog) /\ (LineOk(TraceLog[l]) = TRUE) /\ l' = l + 1
TraceSpec == TInit /\ [][TNext]_l
TraceAccepted == TLCGet("stats").diameter - 1 = Len(TraceLog)
=============================================================================
