SPECIFICATION Spec
CONSTANTS
  Names = {"a", "b"}
  Data = {"x", "y"}
  MaxDepth = 2
  SeqLen = 4
  UsePre = TRUE
INVARIANT WellFormed
CHECK_DEADLOCK FALSE
