SPECIFICATION TraceSpec
CONSTANT Dev = FALSE
CONSTRAINT HighWater
POSTCONDITION TraceAccepted
CHECK_DEADLOCK FALSE
