------------------------------ MODULE MemFSSeq ------------------------------
(* C01 / C02, histories through the API: every SEQUENCE of SeqLen mutating calls
   (canonical paths) whose every step has a single specified outcome (and, for the
   disk family, lies inside the preconditions of C02).  MemFS.tla tests each call on a tree that the harness builds
   from scratch; here the state is REACHED by the calls themselves, so that anything an
   implementation remembers from earlier calls (a cache of created directories, a stale
   index, an aliased node) is exercised: write-remove-write, copy-then-overwrite,
   remove-then-recreate ...  Each complete sequence is printed with the result and the
   whole tree after every step. *)
EXTENDS FsTree, TLC, Json
CONSTANTS Names, Data, MaxDepth, SeqLen,
          UsePre      \* TRUE: only calls inside the C02 preconditions (every backend must agree); FALSE: all (in-memory filespace)
VARIABLES tree, hist
vars == <<tree, hist>>
Paths == UNION { [1..n -> Names] : n \in 1..MaxDepth }
Ops == [name : {"write"}, p : Paths, d : Data] \cup [name : {"mkdir", "remove", "removeall"}, p : Paths]
       \cup { o \in [name : {"copy"}, p : Paths, q : Paths] : ~IsPrefixOf(o.p, o.q) /\ ~IsPrefixOf(o.q, o.p) }
TJ(t) == { <<p, t[p]>> : p \in DOMAIN t }
Init == tree = EmptyTree /\ hist = <<>>
Fits(t) == \A p \in DOMAIN t : Len(p) <= MaxDepth
Do(op) == /\ Len(hist) < SeqLen
          /\ (UsePre => PreC(tree, op))
          /\ LET outs == Apply(tree, op) IN
             /\ Cardinality(outs) = 1
             /\ LET o == CHOOSE x \in outs : TRUE IN
                /\ Fits(o.t)
                /\ tree' = o.t
                /\ hist' = Append(hist, [op |-> op, res |-> o.res, tree |-> TJ(o.t)])
                /\ (Len(hist') = SeqLen => PrintT(ToJson([k |-> "seq", hist |-> hist'])))
Next == \E op \in Ops : Do(op)
Spec == Init /\ [][Next]_vars
WellFormed == Wf(tree)
=============================================================================
