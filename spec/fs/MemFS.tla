------------------------------- MODULE MemFS -------------------------------
(* C01 (and the reference for C02): a filespace = FsTree + PathNorm.
   State: the abstract tree.  One action per Filespace call, taking RAW path
   spellings.  While TLC expands a state it prints, for every call, one
   conformance test for the real code as a JSON line (previous tree, call, the
   whole set of allowed outcomes) -- "one implementation test per transition".
   The sanity theorems of the specification are asserted per transition
   (Lemmas) and per state (invariants). *)
EXTENDS FsTree, PathNorm, TLC, Json

CONSTANTS Names, Data, MaxDepth, Tier, Emit

VARIABLES tree
vars == <<tree>>

Paths == UNION { [1..n -> Names] : n \in 1..MaxDepth }
PathsR == Paths \cup {<<>>}

\* ---- spellings used by the exhaustive configurations
Seg == Names \cup {".", "..", ""}
CanonSp == PathsR
\* single-path calls: every raw spelling up to length 3 (thorough) / canonical + a sample (quick)
SampleSp == { <<"", "a">>, <<".", "a">>, <<"a", "">>, <<"a", ".">>, <<"b", "..", "a">>, <<"a", "", "b">>,
              <<"..">>, <<"..", "a">>, <<"a", "..", "..", "b">>, <<".">>, <<"">>, <<"a", ".", "b">>, <<"", "a", "b", "">> }
SpSingle == IF Tier = "thorough" THEN Spellings(Seg, 3) \cup SampleSp ELSE CanonSp \cup SampleSp
SpPair == IF Tier = "thorough" THEN CanonSp \cup SampleSp ELSE CanonSp \cup { <<"..", "a">>, <<".", "a">>, <<"a", "">> }

OnePathOps == { [name |-> n, sp |-> sp] : n \in {"mkdir", "remove", "removeall", "read", "rstream", "readdir",
                                                  "isexist", "isfile", "isdir", "lstat"}, sp \in SpSingle }
WriteOps == { [name |-> n, sp |-> sp, d |-> d] : n \in {"write", "wstream"}, sp \in SpSingle, d \in Data }
CopyOps == { [name |-> n, sp |-> sp, sq |-> sq] : n \in TwoPath, sp \in SpPair, sq \in SpPair }
Ops == OnePathOps \cup WriteOps \cup CopyOps

\* ---- resolution of spellings: the allowed outcomes of a call with raw spellings
Canon(op, f(_)) ==
  IF op.name \in TwoPath THEN [name |-> op.name, p |-> f(op.sp), q |-> f(op.sq)]
  ELSE IF op.name \in {"write", "wstream"} THEN [name |-> op.name, p |-> f(op.sp), d |-> op.d]
  ELSE [name |-> op.name, p |-> f(op.sp)]
OpClimbs(op) == Climbs(op.sp) \/ (op.name \in TwoPath /\ Climbs(op.sq))
Refuse(t, op) == IF op.name \in BoolOps THEN { O(t, B(FALSE)) } ELSE { O(t, ERR) }
Outcomes(t, op) ==
  IF OpClimbs(op) THEN Refuse(t, op) \cup Apply(t, Canon(op, Clamp))   \* rejected, or resolved inside the root
  ELSE Apply(t, Canon(op, Reduce))

Init == tree = EmptyTree

\* ---- C02: the preconditions under which every backend must behave as FsTree, and the
\*      paths a call addresses (outside the preconditions a backend may answer differently
\*      but must fail cleanly: no panic, nothing changed outside the addressed paths)
Pre(t, op) == OpClimbs(op) \/ PreC(t, Canon(op, Reduce))     \* every backend refuses a climbing spelling
\* an assumption of the check (not of the statement): a directory is not copied into itself
Assumed(t, op) == ~(op.name \in TwoPath /\ ~OpClimbs(op) /\ IsPrefixOf(Reduce(op.sp), Reduce(op.sq)))
Addressed(op) == {Clamp(op.sp)} \cup (IF op.name \in TwoPath THEN {Clamp(op.sq)} ELSE {})

TJ(t) == { <<p, t[p]>> : p \in DOMAIN t }
CaseJson(t, op, outs) == ToJson([k |-> "case", prev |-> TJ(t), op |-> op, outs |-> { [t |-> TJ(o.t), res |-> o.res] : o \in outs },
                                 pre |-> Pre(t, op), assumed |-> Assumed(t, op), addr |-> Addressed(op)])

\* ---- sanity theorems of the specification, per transition
Lemmas(t, op, outs) ==
  /\ \A o \in outs :
       /\ Wf(o.t)
       \* an err / read-only outcome never changes the tree (a failing copy may have created parents: U6)
       /\ ((o.res = ERR \/ op.name \notin Mutating) =>
             (o.t = t \/ (op.name \in TwoPath /\ \A p \in DOMAIN t : p \in DOMAIN o.t /\ o.t[p] = t[p])))
       \* only removals and copies-onto-existing ever delete a node
       /\ ((\E p \in DOMAIN t : p \notin DOMAIN o.t) => op.name \in {"remove", "removeall", "copy", "copyfile", "copydir"})
  /\ (Cardinality(outs) = 1 /\ ~OpClimbs(op)) =>
       LET c == Canon(op, Reduce)
           o == CHOOSE o \in outs : TRUE IN
       (o.res = OK) =>
         /\ (c.name \in {"write", "wstream"} => IsFile(o.t, c.p) /\ o.t[c.p] = c.d /\ \A q \in ProperPrefixes(c.p) : IsDir(o.t, q))
         /\ (c.name = "mkdir" => IsDir(o.t, c.p))
         /\ (c.name \in {"remove", "removeall"} => ~IsExist(o.t, c.p) /\ Under(o.t, c.p) = {})
         /\ (c.name = "remove" => Cardinality(DOMAIN t) = Cardinality(DOMAIN o.t) + 1)
         /\ (c.name \in TwoPath /\ ~IsPrefixOf(c.p, c.q) => \A x \in SrcNodes(t, c.p) : o.t[Rebase(x, c.p, c.q)] = t[x])

Do(op) == LET outs == Outcomes(tree, op) IN
          /\ \A o \in outs : MaxLen(o.t) <= MaxDepth /\ \A p \in DOMAIN o.t : \A i \in 1..Len(p) : p[i] \in Names
          /\ Assert(Lemmas(tree, op, outs), <<"lemma failed", tree, op>>)
          /\ (Emit => PrintT(CaseJson(tree, op, outs)))
          /\ \E o \in outs : tree' = o.t
Next == \E op \in Ops : Do(op)
Spec == Init /\ [][Next]_vars

\* ---- sanity theorems of the specification, per state
WellFormed == Wf(tree)
NoPhantomNames == \A p \in DOMAIN tree : \A i \in 1..Len(p) : p[i] \notin {".", "..", ""}
QueriesAgree == \A p \in PathsR : /\ IsExist(tree, p) = (IsFile(tree, p) \/ IsDir(tree, p))
                                  /\ ~(IsFile(tree, p) /\ IsDir(tree, p))
                                  /\ (IsDir(tree, p) => \A e \in Listing(tree, p) : Cardinality({ x \in Listing(tree, p) : x[1] = e[1] }) = 1)
=============================================================================
