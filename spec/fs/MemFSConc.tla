---- MODULE MemFSConc ----
(* C09, implementation layer: the lock structure of the in-memory filespace for the
   two schedules that matter -- (a) WriteFile(d/x) against Remove(d): Remove tests
   emptiness WITHOUT a lock (finding D_RemoveVsCreate: both succeed, the file is
   gone); (b) two stream copies in one directory: with Variant "prefix" the writer
   takes the file lock while holding the directory lock (deadlock, fixed); with
   "current" it does not; (c) a stream copy into a NEW file against ReadFile of that
   file: with Variant "unlockednew" the new, still empty node is added to the directory
   before its data lock is taken and the reader can see it empty (fixed); with "current"
   a new node is locked before it becomes visible.  Scenario selects the thread programs. *)
EXTENDS Naturals, Sequences, FiniteSets, TLC
CONSTANTS Scenario,  \* "wf_rm" | "sc_sc" | "sc_rd"
          Variant    \* "prefix": Writer takes the file lock while holding the directory lock
                     \* "unlockednew": directory lock released first, but a NEW file is visible before it is locked
Prog == IF Scenario = "wf_rm" THEN (1 :> [op |-> "wf", a |-> "x", b |-> "v1"] @@ 2 :> [op |-> "rm", a |-> "", b |-> ""])
        ELSE IF Scenario = "sc_rd" THEN (1 :> [op |-> "sc", a |-> "f", b |-> "n"] @@ 2 :> [op |-> "rd", a |-> "n", b |-> ""])
        ELSE (1 :> [op |-> "sc", a |-> "f", b |-> "g"] @@ 2 :> [op |-> "sc", a |-> "h", b |-> "f"])
InitFiles == IF Scenario = "wf_rm" THEN {} ELSE {"f", "h"}
Threads == DOMAIN Prog
VARIABLES rootD,     \* 0 or the dir object currently named "d" in the root
          ent,       \* dir object -> (name -> file object)
          data,      \* file object -> value
          outer,     \* dir object -> holder thread | 0 (free)
          dmu,       \* file object -> holder | 0
          nobj, pc, loc, res
vars == <<rootD, ent, data, outer, dmu, nobj, pc, loc, res>>
Ext(f, k, v) == [x \in DOMAIN f \cup {k} |-> IF x = k THEN v ELSE f[x]]
FileIds == { 100 + i : i \in 1..Cardinality(InitFiles) }
FileOf == CHOOSE f \in [InitFiles -> FileIds] : \A a, b \in InitFiles : a # b => f[a] # f[b]
Init == /\ rootD = 1 /\ ent = (1 :> FileOf)
        /\ data = [o \in FileIds |-> "init"] /\ outer = (1 :> 0) /\ dmu = [o \in FileIds |-> 0]
        /\ nobj = 2 /\ pc = [t \in Threads |-> Prog[t].op \o "1"] /\ loc = [t \in Threads |-> [dir |-> 0, f |-> 0, g |-> 0]]
        /\ res = [t \in Threads |-> "run"]
Goto(t, l) == pc' = [pc EXCEPT ![t] = l]
Fin(t, r) == /\ pc' = [pc EXCEPT ![t] = "end"] /\ res' = [res EXCEPT ![t] = r]
\* get-or-create directory "d" in the root (mkdir under the root's index mutex)
GetOrMkD(t, next) == IF rootD # 0
   THEN /\ loc' = [loc EXCEPT ![t].dir = rootD] /\ Goto(t, next) /\ UNCHANGED <<rootD, ent, outer, nobj>>
   ELSE /\ rootD' = nobj /\ ent' = Ext(ent, nobj, << >>) /\ outer' = Ext(outer, nobj, 0) /\ nobj' = nobj + 1
        /\ loc' = [loc EXCEPT ![t].dir = nobj] /\ Goto(t, next)
\* ---------------- WriteFile("d/a", b)
Wf1(t) == pc[t] = "wf1" /\ GetOrMkD(t, "wf2") /\ UNCHANGED <<data, dmu, res>>
Wf2(t) == /\ pc[t] = "wf2" /\ outer[loc[t].dir] = 0 /\ outer' = [outer EXCEPT ![loc[t].dir] = t]
          /\ Goto(t, "wf3") /\ UNCHANGED <<rootD, ent, data, dmu, nobj, loc, res>>
Wf3(t) == /\ pc[t] = "wf3"
          /\ LET d == loc[t].dir  a == Prog[t].a IN
             IF a \in DOMAIN ent[d]
               THEN /\ loc' = [loc EXCEPT ![t].f = ent[d][a]] /\ Goto(t, "wf4") /\ UNCHANGED <<ent, data, dmu, nobj>>
               ELSE /\ ent' = [ent EXCEPT ![d] = Ext(@, a, nobj)] /\ data' = Ext(data, nobj, Prog[t].b)
                    /\ dmu' = Ext(dmu, nobj, 0) /\ nobj' = nobj + 1 /\ Goto(t, "wf5") /\ UNCHANGED loc
          /\ UNCHANGED <<rootD, outer, res>>
Wf4(t) == /\ pc[t] = "wf4" /\ dmu[loc[t].f] = 0 /\ data' = [data EXCEPT ![loc[t].f] = Prog[t].b]
          /\ Goto(t, "wf5") /\ UNCHANGED <<rootD, ent, outer, dmu, nobj, loc, res>>
Wf5(t) == /\ pc[t] = "wf5" /\ outer' = [outer EXCEPT ![loc[t].dir] = 0] /\ Fin(t, "ok")
          /\ UNCHANGED <<rootD, ent, data, dmu, nobj, loc>>
\* ---------------- Remove("d")  (file-or-empty-directory rule)
Rm1(t) == /\ pc[t] = "rm1"
          /\ IF rootD = 0 THEN Fin(t, "err") /\ UNCHANGED loc
             ELSE loc' = [loc EXCEPT ![t].dir = rootD] /\ Goto(t, "rm2") /\ UNCHANGED res
          /\ UNCHANGED <<rootD, ent, data, outer, dmu, nobj>>
Rm2(t) == /\ pc[t] = "rm2"                         \* emptiness test, not under any lock
          /\ IF DOMAIN ent[loc[t].dir] # {} THEN Fin(t, "err") ELSE Goto(t, "rm3") /\ UNCHANGED res
          /\ UNCHANGED <<rootD, ent, data, outer, dmu, nobj, loc>>
Rm3(t) == /\ pc[t] = "rm3"                         \* removes whatever is *named* d now
          /\ IF rootD = 0 THEN Fin(t, "err") /\ UNCHANGED rootD ELSE rootD' = 0 /\ Fin(t, "ok")
          /\ UNCHANGED <<ent, data, outer, dmu, nobj, loc>>
\* ---------------- stream copy d/a -> d/b  (Reader(a); Writer(b); copy; close both)
Sc1(t) == /\ pc[t] = "sc1"
          /\ IF rootD = 0 \/ Prog[t].a \notin DOMAIN ent[rootD] THEN Fin(t, "err") /\ UNCHANGED loc
             ELSE loc' = [loc EXCEPT ![t].f = ent[rootD][Prog[t].a]] /\ Goto(t, "sc2") /\ UNCHANGED res
          /\ UNCHANGED <<rootD, ent, data, outer, dmu, nobj>>
Sc2(t) == /\ pc[t] = "sc2" /\ dmu[loc[t].f] = 0 /\ dmu' = [dmu EXCEPT ![loc[t].f] = t]    \* reader handle holds the file lock
          /\ Goto(t, "sc3") /\ UNCHANGED <<rootD, ent, data, outer, nobj, loc, res>>
Sc3(t) == pc[t] = "sc3" /\ GetOrMkD(t, "sc4") /\ UNCHANGED <<data, dmu, res>>
Sc4(t) == /\ pc[t] = "sc4" /\ outer[loc[t].dir] = 0 /\ outer' = [outer EXCEPT ![loc[t].dir] = t]
          /\ Goto(t, "sc5") /\ UNCHANGED <<rootD, ent, data, dmu, nobj, loc, res>>
Sc5(t) == /\ pc[t] = "sc5"
          /\ LET d == loc[t].dir  b == Prog[t].b IN
             IF b \in DOMAIN ent[d]
               THEN /\ loc' = [loc EXCEPT ![t].g = ent[d][b]] /\ UNCHANGED <<ent, data, dmu, nobj>>
               ELSE /\ ent' = [ent EXCEPT ![d] = Ext(@, b, nobj)] /\ data' = Ext(data, nobj, "empty")
                    /\ dmu' = Ext(dmu, nobj, IF Variant = "current" THEN t ELSE 0)      \* current: locked at birth
                    /\ nobj' = nobj + 1 /\ loc' = [loc EXCEPT ![t].g = nobj]
          /\ Goto(t, IF Variant = "prefix" THEN "sc6p" ELSE "sc6u") /\ UNCHANGED <<rootD, outer, res>>
\* prefix: file lock taken while the directory lock is still held
Sc6p(t) == /\ pc[t] = "sc6p" /\ dmu[loc[t].g] = 0 /\ dmu' = [dmu EXCEPT ![loc[t].g] = t]
           /\ outer' = [outer EXCEPT ![loc[t].dir] = 0] /\ Goto(t, "sc7")
           /\ UNCHANGED <<rootD, ent, data, nobj, loc, res>>
\* current: directory lock released first
Sc6u(t) == /\ pc[t] = "sc6u" /\ outer' = [outer EXCEPT ![loc[t].dir] = 0] /\ Goto(t, "sc6l")
           /\ UNCHANGED <<rootD, ent, data, dmu, nobj, loc, res>>
Sc6l(t) == /\ pc[t] = "sc6l" /\ dmu[loc[t].g] \in {0, t} /\ dmu' = [dmu EXCEPT ![loc[t].g] = t] /\ Goto(t, "sc7")
           /\ UNCHANGED <<rootD, ent, data, outer, nobj, loc, res>>
Sc7(t) == /\ pc[t] = "sc7" /\ data' = [data EXCEPT ![loc[t].g] = data[loc[t].f]]
          /\ dmu' = [dmu EXCEPT ![loc[t].g] = 0, ![loc[t].f] = 0] /\ Fin(t, "ok")
          /\ UNCHANGED <<rootD, ent, outer, nobj, loc>>
\* ---------------- ReadFile("d/a"): lookup under the index mutexes, then the file's read lock
Rd1(t) == /\ pc[t] = "rd1"
          /\ IF rootD = 0 \/ Prog[t].a \notin DOMAIN ent[rootD] THEN Fin(t, "err") /\ UNCHANGED loc
             ELSE loc' = [loc EXCEPT ![t].f = ent[rootD][Prog[t].a]] /\ Goto(t, "rd2") /\ UNCHANGED res
          /\ UNCHANGED <<rootD, ent, data, outer, dmu, nobj>>
Rd2(t) == /\ pc[t] = "rd2" /\ dmu[loc[t].f] = 0 /\ Fin(t, data[loc[t].f])
          /\ UNCHANGED <<rootD, ent, data, outer, dmu, nobj, loc>>
Step(t) == Rd1(t) \/ Rd2(t) \/ Wf1(t) \/ Wf2(t) \/ Wf3(t) \/ Wf4(t) \/ Wf5(t) \/ Rm1(t) \/ Rm2(t) \/ Rm3(t)
           \/ Sc1(t) \/ Sc2(t) \/ Sc3(t) \/ Sc4(t) \/ Sc5(t) \/ Sc6p(t) \/ Sc6u(t) \/ Sc6l(t) \/ Sc7(t)
AllDone == \A t \in Threads : pc[t] = "end"
Next == (\E t \in Threads : Step(t)) \/ (AllDone /\ UNCHANGED vars)
Spec == Init /\ [][Next]_vars
\* a successful write must be visible at the end unless a remove that *followed* it explains its absence:
\* with exactly one wf and one rm both "ok", sequentially either rm fails (dir not empty) or the write recreates d
NoLostWrite == AllDone =>
   \A w \in Threads : (Prog[w].op = "wf" /\ res[w] = "ok" /\ \E r \in Threads : Prog[r].op = "rm" /\ res[r] = "ok")
        => (rootD # 0 /\ Prog[w].a \in DOMAIN ent[rootD])
\* a reader sees a complete written value (or no file), never the empty node a writer has just created
NoEmptyRead == \A t \in Threads : res[t] # "empty"
====
