SPECIFICATION TraceSpec
INVARIANT WellFormed
POSTCONDITION TraceAccepted
CHECK_DEADLOCK FALSE
