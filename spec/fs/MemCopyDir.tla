----------------------------- MODULE MemCopyDir -----------------------------
(* C09, implementation layer: a directory copy racing with removals of the directory's
   children (memfs copyDir against removeNodeByName).
   The directory's children are a SEQUENCE kept in one array; a removal shifts the
   later children one place to the left IN PLACE under the index mutex (write lock).
   Variant "locked"  : copyDir holds the index mutex (read lock) while it walks the
                       children -- the set it copies is the set at one instant.
   Variant "sharedhdr": copyDir takes the slice header (length + array) under the lock,
                       releases it and walks afterwards: it reads positions of the live
                       array while removals shift them -- a child can be copied twice and
                       a child that was never removed can be missed.
   The remover deletes children in a fixed order; SnapshotIsPrefix: what was copied is
   "all children minus the first k removed ones" for some k, each name once. *)
EXTENDS Naturals, Sequences, FiniteSets, TLC
CONSTANTS N, Removals, Variant        \* N children named 1..N; Removals: sequence of names removed in that order
VARIABLES arr, len,          \* the live array (positions 1..N; positions > len hold stale entries) and its length
          lock,              \* "free" | "r" | "w"
          cpc, hdrLen, i, copied,   \* copier: pc, captured length, walk index, names copied (a sequence)
          rpc, k             \* remover: pc, number of removals done
vars == <<arr, len, lock, cpc, hdrLen, i, copied, rpc, k>>
Init == /\ arr = [p \in 1..N |-> p] /\ len = N /\ lock = "free"
        /\ cpc = "lock" /\ hdrLen = 0 /\ i = 1 /\ copied = <<>> /\ rpc = "lock" /\ k = 0
\* ---- copier
CLock == /\ cpc = "lock" /\ lock = "free" /\ lock' = "r" /\ hdrLen' = len /\ cpc' = (IF Variant = "sharedhdr" THEN "unlockearly" ELSE "walk")
         /\ UNCHANGED <<arr, len, i, copied, rpc, k>>
CUnlockEarly == /\ cpc = "unlockearly" /\ lock' = "free" /\ cpc' = "walk" /\ UNCHANGED <<arr, len, hdrLen, i, copied, rpc, k>>
CWalk == /\ cpc = "walk"
         /\ IF i <= hdrLen THEN copied' = Append(copied, arr[i]) /\ i' = i + 1 /\ UNCHANGED <<cpc, lock>>
            ELSE /\ cpc' = "end" /\ lock' = (IF Variant = "sharedhdr" THEN lock ELSE "free") /\ UNCHANGED <<copied, i>>
         /\ UNCHANGED <<arr, len, hdrLen, rpc, k>>
\* ---- remover: one child at a time, shifting in place under the write lock
Pos(name) == CHOOSE p \in 1..len : arr[p] = name
RLockW == /\ rpc = "lock" /\ k < Len(Removals) /\ lock = "free" /\ lock' = "w" /\ rpc' = "shift" /\ UNCHANGED <<arr, len, cpc, hdrLen, i, copied, k>>
RShift == /\ rpc = "shift"
          /\ LET p == Pos(Removals[k + 1]) IN
             arr' = [q \in 1..N |-> IF q >= p /\ q < len THEN arr[q + 1] ELSE arr[q]]      \* copy(nodes[p:], nodes[p+1:]); the last slot keeps its stale entry
          /\ len' = len - 1 /\ k' = k + 1 /\ lock' = "free" /\ rpc' = "lock" /\ UNCHANGED <<cpc, hdrLen, i, copied>>
Done == cpc = "end" /\ k = Len(Removals)
Next == CLock \/ CUnlockEarly \/ CWalk \/ RLockW \/ RShift \/ (Done /\ UNCHANGED vars)
Spec == Init /\ [][Next]_vars /\ WF_vars(Next)
CopiedSet == { copied[j] : j \in 1..Len(copied) }
FirstRemoved(m) == { Removals[j] : j \in 1..m }
SnapshotIsPrefix == cpc = "end" =>
    /\ Len(copied) = Cardinality(CopiedSet)                                       \* each name once
    /\ \E m \in 0..Len(Removals) : CopiedSet = (1..N) \ FirstRemoved(m)           \* the children at one instant
Terminates == <>Done
=============================================================================
