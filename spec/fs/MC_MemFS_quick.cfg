SPECIFICATION Spec
CONSTANTS
  Names = {"a", "b"}
  Data = {"x", "y"}
  MaxDepth = 2
  Tier = "quick"
  Emit = TRUE
INVARIANTS WellFormed NoPhantomNames QueriesAgree
CHECK_DEADLOCK FALSE
