SPECIFICATION Spec
CONSTANTS
  Names = {"a", "b"}
  Data = {"x", "y"}
  MaxDepth = 2
  SeqLen = 3
  UsePre = TRUE
INVARIANT WellFormed
CHECK_DEADLOCK FALSE
