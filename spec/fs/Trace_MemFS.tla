---------------------------- MODULE Trace_MemFS ----------------------------
(* Trace validation for C01/C02: a log recorded from real filespaces must be
   a behaviour of FsTree + PathNorm.  Every line carries the call (through
   which view, raw spellings), the observed result and the full projected
   tree; the specification must allow exactly that outcome.  Handles (byte
   slices and listings handed out) are re-inspected later and must still say
   what they said (snapshot obligation); a `scribble` (the caller overwrites
   a buffer it passed in or was handed) must leave the tree unchanged. *)
EXTENDS FsTree, PathNorm, TLC, Json

TraceLog == ndJsonDeserialize("trace.ndjson")

VARIABLES l, tree, handles, rootGone
tvars == <<l, tree, handles, rootGone>>

SeqSet(s) == { s[i] : i \in 1..Len(s) }
TreeVal(s) == [p \in { s[i][1] : i \in 1..Len(s) } |-> s[CHOOSE i \in 1..Len(s) : s[i][1] = p][2]]
ResOf(r) == SeqSet(r)

\* the call as seen from the root: base \o resolved path; climbing is relative to the VIEW's root
ViewOp(e, f(_)) ==
  IF e.name \in TwoPath THEN [name |-> e.name, p |-> e.base \o f(e.sp), q |-> e.base \o f(e.sq)]
  ELSE IF e.name \in {"write", "wstream"} THEN [name |-> e.name, p |-> e.base \o f(e.sp), d |-> e.d]
  ELSE [name |-> e.name, p |-> e.base \o f(e.sp)]
EvClimbs(e) == Climbs(e.sp) \/ (e.name \in TwoPath /\ Climbs(e.sq))
EvRefuse(t, e) == IF e.name \in BoolOps THEN { O(t, B(FALSE)) } ELSE { O(t, ERR) }
\* a copy whose source is the view's own root is corner U4 for the view
ViewRootCopy(t, e) ==
  IF e.name \in TwoPath /\ e.base # <<>> /\ ~Climbs(e.sp) /\ Reduce(e.sp) = <<>>
  THEN { O(t, ERR) } ELSE {}
EvOutcomes(t, e) ==
  IF EvClimbs(e) THEN EvRefuse(t, e) \cup Apply(t, ViewOp(e, Clamp))
  ELSE Apply(t, ViewOp(e, Reduce)) \cup ViewRootCopy(t, e)

\* lstat of the real root: the name is unspecified
ResMatch(want, got) ==
  \/ want = got
  \/ \E w \in want : w[1] = "stat" /\ w[2] = "" /\ \E g \in got : g[1] = "stat" /\ g[3] = w[3]

\* Corner U7 (the statements speak of a filespace "rooted in a directory"; FsTree's root always exists):
\*  (a) a disk filespace or a child view that removed its OWN root directory (logged as rootgone with every event)
\*      answers a call either as specified (calls that create parents re-create the directory) or with a clean
\*      refusal, and a call that addresses the missing root itself in any way that leaves the tree unchanged,
\*      until some call re-creates the directory;
\*  (b) a call through a nested child view whose base directory is gone that addresses the view's ROOT itself is
\*      refused, possibly after re-creating the base as a directory.
TargetsViewRoot(e) == ~EvClimbs(e) /\ (Reduce(e.sp) = <<>> \/ (e.name \in TwoPath /\ Reduce(e.sq) = <<>>))
RootlessRefusal(t, e, gone) ==
  IF gone THEN EvRefuse(t, e)
  ELSE IF "pre" \in DOMAIN e /\ e.base # <<>> /\ e.base \notin DOMAIN t /\ TargetsViewRoot(e) /\ NoFileIn(t, Prefixes(e.base))
       THEN EvRefuse(t, e) \cup EvRefuse(MkDirs(t, Prefixes(e.base)), e)
  ELSE {}
\* the root directory may disappear only by a successful Remove / RemoveAll of the root itself
RootGoneJustified(e, obsR) == e.name \in {"remove", "removeall"} /\ e.base = <<>> /\ Clamp(e.sp) = <<>> /\ obsR = OK
LoggedGone(e) == IF "rootgone" \in DOMAIN e THEN e.rootgone ELSE FALSE

\* the observed outcome is one the specification allows; a backend checked under the C02
\* preconditions ("pre" in the event) may, outside them, answer anything but must fail cleanly
Allowed(t, e, obsR, obsT, gone) ==
  \/ \E o \in EvOutcomes(t, e) \cup RootlessRefusal(t, e, gone) : ResMatch(o.res, obsR) /\ o.t = obsT
  \/ (gone /\ e.base = <<>> /\ TargetsViewRoot(e) /\ obsT = t)
  \/ /\ "pre" \in DOMAIN e
     /\ ~EvClimbs(e) /\ ~PreC(t, ViewOp(e, Reduce))
     /\ CleanChange(t, obsT, {e.base \o Reduce(e.sp)} \cup (IF e.name \in TwoPath THEN {e.base \o Reduce(e.sq)} ELSE {}))

Init == l = 1 /\ tree = EmptyTree /\ handles = << >> /\ rootGone = FALSE

Ev == TraceLog[l]
IsEv(k) == l <= Len(TraceLog) /\ Ev.ev = k /\ l' = l + 1

TraceReset == IsEv("reset") /\ tree' = EmptyTree /\ handles' = << >> /\ rootGone' = FALSE

TraceOp ==
  /\ IsEv("op")
  /\ LET e == Ev
         obsT == TreeVal(e.tree)
         obsR == ResOf(e.res) IN
     /\ Allowed(tree, e, obsR, obsT, rootGone) = TRUE   \* "= TRUE": evaluated as an expression, not enumerated as an action
     /\ ((LoggedGone(e) /\ ~rootGone) => RootGoneJustified(e, obsR)) = TRUE
     /\ (LoggedGone(e) => obsT = EmptyTree) = TRUE
     /\ rootGone' = LoggedGone(e)
     /\ tree' = obsT
     /\ handles' = IF "h" \in DOMAIN e
                   THEN [x \in DOMAIN handles \cup {e.h} |-> IF x = e.h THEN obsR ELSE handles[x]]
                   ELSE handles

TraceScribble == IsEv("scribble") /\ TreeVal(Ev.tree) = tree /\ UNCHANGED <<tree, handles, rootGone>>

TraceInspect == /\ IsEv("inspect") /\ Ev.h \in DOMAIN handles /\ handles[Ev.h] = ResOf(Ev.now)
                /\ UNCHANGED <<tree, handles, rootGone>>

TraceNext == TraceReset \/ TraceOp \/ TraceScribble \/ TraceInspect
TraceSpec == Init /\ [][TraceNext]_tvars

WellFormed == Wf(tree)
TraceAccepted == TLCGet("stats").diameter - 1 = Len(TraceLog)
=============================================================================
