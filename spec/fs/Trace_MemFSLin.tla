--------------------------- MODULE Trace_MemFSLin ---------------------------
(* Trace validation for C09: linearizability of concurrent in-memory filespace
   calls with respect to FsTree.  The log has call / ret events (ordered by a
   harness mutex); the effect of a call is an internal step between its two
   events.  Calls that create missing parents do it one level at a time, as the
   code does (mkparent steps), then take effect with the FsTree operator.
   Every written content token is unique, so a read that returns anything but a
   complete written value matches no outcome.
   Dev = TRUE adds the documented deviation D_RemoveVsCreate in its two shapes:
   (a) a pending Remove(d) may delete a directory that is no longer empty if
       everything beneath it was created while that Remove was pending (the
       emptiness test is not under a lock);
   (b) a creation beneath d that overlaps a successful Remove(d) may report success
       and leave nothing (it resolved d before the removal and added its node to
       the detached directory object). *)
EXTENDS FsTree, TLC, Json

CONSTANT Dev
TraceLog == ndJsonDeserialize("trace.ndjson")
VARIABLES l, tree, pend
tvars == <<l, tree, pend>>
Ev == TraceLog[l]
Init == TLCSet(1, 1) /\ l = 1 /\ tree = EmptyTree /\ pend = << >>
Adv == l' = l + 1
SeqSet(s) == { s[i] : i \in 1..Len(s) }
TreeVal(s) == [p \in { s[i][1] : i \in 1..Len(s) } |-> s[CHOOSE i \in 1..Len(s) : s[i][1] = p][2]]
Reset == l <= Len(TraceLog) /\ Ev.ev = "reset" /\ Adv /\ tree' = TreeVal(Ev.tree) /\ pend' = << >>
OpOf(e) == IF e.name \in TwoPath THEN [name |-> e.name, p |-> e.p, q |-> e.q]
           ELSE IF e.name \in {"write", "wstream"} THEN [name |-> e.name, p |-> e.p, d |-> e.d]
           ELSE [name |-> e.name, p |-> e.p]
Creates(name) == name \in {"write", "wstream", "mkdir", "copyfile"}
Target(op) == IF op.name \in TwoPath THEN op.q ELSE op.p
Call == /\ l <= Len(TraceLog) /\ Ev.ev = "call" /\ Adv /\ Ev.t \notin DOMAIN pend
        /\ pend' = [x \in DOMAIN pend \cup {Ev.t} |-> IF x = Ev.t THEN [op |-> OpOf(Ev), done |-> FALSE, res |-> ERR, born |-> {}, rmd |-> {}, got |-> "none"] ELSE pend[x]]
        /\ UNCHANGED tree
\* nodes created by this step are remembered by every pending remove (for the deviation)
Born(newTree) == DOMAIN newTree \ DOMAIN tree
\* (only what the rules below need is remembered, to keep the search narrow: for a pending Remove the nodes
\*  born beneath its directory, for a pending creation whether its own target was born)
Relevant(x, n) == IF pend[x].op.name = "remove" THEN IsPrefixOf(pend[x].op.p, n) /\ n # pend[x].op.p
                  ELSE Creates(pend[x].op.name) /\ n = Target(pend[x].op)
NoteBorn(t, newTree) == [x \in DOMAIN pend |->
      IF x # t /\ ~pend[x].done THEN [pend[x] EXCEPT !.born = @ \cup { n \in Born(newTree) : Relevant(x, n) }] ELSE pend[x]]
\* one missing parent directory at a time
MkParent == /\ UNCHANGED l
            /\ \E t \in DOMAIN pend :
               LET p == pend[t]  tg == Target(p.op) IN
               /\ ~p.done /\ Creates(p.op.name) /\ Len(tg) > 1
               /\ \E k \in 1..(Len(tg) - 1) :
                    LET pre == SubSeq(tg, 1, k) IN
                    /\ pre \notin DOMAIN tree /\ (k = 1 \/ IsDir(tree, SubSeq(tg, 1, k - 1)))
                    /\ tree' = Ext(tree, [x \in {pre} |-> "D"])
                    /\ pend' = NoteBorn(t, tree')
\* a file copy is not one atomic step of the code: it reads the complete source value at one moment and writes
\* the destination at a later one (the statement asks for complete written values, not for atomic copies)
LinCopyRead == /\ UNCHANGED <<l, tree>>
               /\ \E t \in DOMAIN pend :
                  LET p == pend[t] IN
                  /\ ~p.done /\ p.op.name = "copyfile" /\ p.got = "none"
                  /\ IF IsFile(tree, p.op.p)
                     THEN pend' = [pend EXCEPT ![t].got = tree[p.op.p]]
                     ELSE pend' = [pend EXCEPT ![t].done = TRUE, ![t].res = ERR]
LinCopyWrite == /\ UNCHANGED l
                /\ \E t \in DOMAIN pend :
                   LET p == pend[t] IN
                   /\ ~p.done /\ p.op.name = "copyfile" /\ p.got # "none"
                   /\ \E o \in (IF p.op.q \in DOMAIN tree THEN { O(tree, ERR) } ELSE {})           \* corner U3
                              \cup Apply(tree, [name |-> "write", p |-> p.op.q, d |-> p.got]) :
                        /\ tree' = o.t
                        /\ pend' = [NoteBorn(t, o.t) EXCEPT ![t].done = TRUE, ![t].res = o.res]
Lin == /\ UNCHANGED l
       /\ \E t \in DOMAIN pend :
          /\ ~pend[t].done /\ pend[t].op.name # "copyfile"
          /\ \E o \in Apply(tree, pend[t].op) :
               /\ tree' = o.t
               /\ pend' = [NoteBorn(t, o.t) EXCEPT ![t].done = TRUE, ![t].res = o.res]
\* Unspecified corner (the statement speaks of SUCCESSFUL operations and of "one node"): a creation may
\* fail without effect when another goroutine created the very same node while it was pending
LinContendedFail == /\ UNCHANGED <<l, tree>>
                    /\ \E t \in DOMAIN pend :
                       /\ ~pend[t].done /\ Creates(pend[t].op.name) /\ Target(pend[t].op) \in pend[t].born
                       /\ pend' = [pend EXCEPT ![t].done = TRUE, ![t].res = ERR]
\* directories deleted by a Remove are remembered by every pending creation (deviation (b))
NoteRemoved(ps, t, q) == [x \in DOMAIN ps |->
      IF x # t /\ Creates(ps[x].op.name) /\ ~ps[x].done /\ IsPrefixOf(q, Target(ps[x].op)) /\ q # Target(ps[x].op)
      THEN [ps[x] EXCEPT !.rmd = @ \cup {q}] ELSE ps[x]]
LinRemoveDir == /\ Dev /\ UNCHANGED l       \* an ordinary Remove of an empty directory, with the bookkeeping for (b)
                /\ \E t \in DOMAIN pend :
                   LET p == pend[t] IN
                   /\ ~p.done /\ p.op.name = "remove" /\ p.op.p \in DOMAIN tree /\ tree[p.op.p] = "D" /\ Under(tree, p.op.p) = {}
                   /\ tree' = Restrict(tree, DOMAIN tree \ {p.op.p})
                   /\ pend' = [NoteRemoved(pend, t, p.op.p) EXCEPT ![t].done = TRUE, ![t].res = OK]
LinLostCreate == /\ Dev /\ UNCHANGED <<l, tree>>
                 /\ \E t \in DOMAIN pend :
                    LET p == pend[t] IN
                    /\ ~p.done /\ Creates(p.op.name)
                    /\ \E q \in p.rmd : IsPrefixOf(q, Target(p.op)) /\ q # Target(p.op)
                    /\ pend' = [pend EXCEPT ![t].done = TRUE, ![t].res = OK]
\* D_RemoveVsCreate (a)
LinDev == /\ Dev /\ UNCHANGED l
          /\ \E t \in DOMAIN pend :
             LET p == pend[t] IN
             /\ ~p.done /\ p.op.name = "remove" /\ p.op.p \in DOMAIN tree /\ tree[p.op.p] = "D"
             /\ Under(tree, p.op.p) # {} /\ Under(tree, p.op.p) \subseteq p.born
             /\ tree' = Restrict(tree, DOMAIN tree \ ({p.op.p} \cup Under(tree, p.op.p)))
             /\ pend' = [NoteRemoved(pend, t, p.op.p) EXCEPT ![t].done = TRUE, ![t].res = OK]
Ret == /\ l <= Len(TraceLog) /\ Ev.ev = "ret" /\ Adv
       /\ Ev.t \in DOMAIN pend /\ pend[Ev.t].done /\ pend[Ev.t].res = SeqSet(Ev.res)
       /\ pend' = [x \in DOMAIN pend \ {Ev.t} |-> pend[x]] /\ UNCHANGED tree
Final == /\ l <= Len(TraceLog) /\ Ev.ev = "final" /\ Adv /\ pend = << >> /\ tree = TreeVal(Ev.tree) /\ UNCHANGED <<tree, pend>>
TraceNext == Reset \/ Call \/ MkParent \/ Lin \/ LinCopyRead \/ LinCopyWrite \/ LinContendedFail \/ LinDev \/ LinRemoveDir \/ LinLostCreate \/ Ret \/ Final
TraceSpec == Init /\ [][TraceNext]_tvars
HighWater == TLCSet(1, IF TLCGet(1) < l THEN l ELSE TLCGet(1))
TraceAccepted == IF TLCGet(1) = Len(TraceLog) + 1 THEN TRUE ELSE Print(<<"HIGHWATER", TLCGet(1)>>, FALSE)
=============================================================================
