SPECIFICATION TraceSpec
CONSTANT Dev = TRUE
CONSTRAINT HighWater
POSTCONDITION TraceAccepted
CHECK_DEADLOCK FALSE
