"""Parser for TLA+ values as printed by TLC (state dumps, -simulate files,
counterexample traces, dot labels).

Mapping to Python:  string -> str, int -> int, TRUE/FALSE -> bool,
<<a,b>> -> list, {a,b} -> TlaSet (a list subclass), [k |-> v] -> dict,
(k :> v @@ ...) -> dict if every key is a str, else TlaFn (list of [k,v]),
a..b -> TlaSet of ints, model values -> str.
"""
import re


class TlaSet(list):
    pass


class TlaFn(list):
    pass


_tok = re.compile(r'''\s*(?:
    (?P<str>"(?:[^"\\]|\\.)*")
  | (?P<num>-?\d+)
  | (?P<op><<|>>|\|->|:>|@@|\.\.|[\[\]{}(),])
  | (?P<id>[A-Za-z_][A-Za-z0-9_!]*)
)''', re.X)


def tokenize(s):
    pos = 0
    out = []
    n = len(s)
    while pos < n:
        m = _tok.match(s, pos)
        if not m:
            if s[pos:].strip() == '':
                break
            raise ValueError('bad TLA value at %d: %r' % (pos, s[pos:pos + 40]))
        pos = m.end()
        if m.group('str') is not None:
            raw = m.group('str')[1:-1]
            out.append(('str', re.sub(r'\\(.)', lambda k: {'n': '\n', 't': '\t'}.get(k.group(1), k.group(1)), raw)))
        elif m.group('num') is not None:
            out.append(('num', int(m.group('num'))))
        elif m.group('op') is not None:
            out.append(('op', m.group('op')))
        else:
            out.append(('id', m.group('id')))
    return out


class _P:
    def __init__(self, toks):
        self.t = toks
        self.i = 0

    def peek(self):
        return self.t[self.i] if self.i < len(self.t) else (None, None)

    def next(self):
        x = self.t[self.i]
        self.i += 1
        return x

    def expect(self, op):
        k, v = self.next()
        if k != 'op' or v != op:
            raise ValueError('expected %s got %r' % (op, v))

    def value(self):
        v = self.atom()
        k, o = self.peek()
        if k == 'op' and o == '..':
            self.next()
            hi = self.atom()
            return TlaSet(range(v, hi + 1))
        return v

    def atom(self):
        k, v = self.next()
        if k == 'str' or k == 'num':
            return v
        if k == 'id':
            if v == 'TRUE':
                return True
            if v == 'FALSE':
                return False
            return v
        if v == '<<':
            out = []
            if self.peek() == ('op', '>>'):
                self.next()
                return out
            while True:
                out.append(self.value())
                k2, v2 = self.next()
                if v2 == '>>':
                    return out
                if v2 != ',':
                    raise ValueError('seq: %r' % (v2,))
        if v == '{':
            out = TlaSet()
            if self.peek() == ('op', '}'):
                self.next()
                return out
            while True:
                out.append(self.value())
                k2, v2 = self.next()
                if v2 == '}':
                    return out
                if v2 != ',':
                    raise ValueError('set: %r' % (v2,))
        if v == '[':
            out = {}
            while True:
                kk, name = self.next()
                self.expect('|->')
                out[name] = self.value()
                k2, v2 = self.next()
                if v2 == ']':
                    return out
                if v2 != ',':
                    raise ValueError('rec: %r' % (v2,))
        if v == '(':
            pairs = []
            while True:
                key = self.value()
                self.expect(':>')
                val = self.value()
                pairs.append([key, val])
                k2, v2 = self.next()
                if v2 == ')':
                    break
                if v2 != '@@':
                    raise ValueError('fn: %r' % (v2,))
            if all(isinstance(p[0], str) for p in pairs):
                return {p[0]: p[1] for p in pairs}
            return TlaFn(pairs)
        raise ValueError('unexpected token %r' % (v,))


def parse(s):
    p = _P(tokenize(s))
    v = p.value()
    if p.i != len(p.t):
        raise ValueError('trailing tokens in %r' % s[:80])
    return v


def parse_state_block(text):
    """text: lines '/\\ var = value' (value may span lines). -> dict"""
    out = {}
    parts = re.split(r'(?m)^/\\ ', text)
    for part in parts:
        part = part.strip()
        if not part:
            continue
        m = re.match(r'([A-Za-z_][A-Za-z0-9_]*)\s*=\s*(.*)\Z', part, re.S)
        if not m:
            continue
        out[m.group(1)] = parse(m.group(2))
    return out


def parse_dump(path):
    """TLC `-dump file` output -> list of state dicts."""
    states = []
    with open(path) as f:
        txt = f.read()
    for blk in re.split(r'(?m)^State \d+:\s*$', txt):
        blk = blk.strip()
        if blk:
            states.append(parse_state_block(blk))
    return states


def parse_trace_output(out):
    """TLC stdout counterexample -> list of (action, state dict)."""
    res = []
    for m in re.finditer(r'(?ms)^State (\d+): <([^>]*)>\s*\n(.*?)(?=^\s*$)', out):
        res.append((m.group(2).strip(), parse_state_block(m.group(3))))
    return res


def parse_sim_file(path):
    """-simulate file=... output: STATE_n == blocks with action comments."""
    with open(path) as f:
        txt = f.read()
    res = []
    for m in re.finditer(r'(?ms)^STATE_(\d+) ==\s*\n(.*?)(?=^\s*$|\Z)', txt):
        res.append(parse_state_block(m.group(2)))
    return res
