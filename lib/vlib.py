"""Shared machinery for /verif/bin/check: TLC runner, harness build, evidence,
known findings, verdict bookkeeping.  Exit codes: 0 held, 1 violation, 2 infra."""
import json, os, re, shutil, subprocess, sys, tempfile, time, hashlib

VERIF = os.path.dirname(os.path.dirname(os.path.abspath(__file__)))
REPO = os.environ.get('VERIF_REPO', '/repo')
SPEC = os.path.join(VERIF, 'spec')
BUILD = os.path.join(VERIF, '.build')
sys.path.insert(0, os.path.join(VERIF, 'lib'))
import tlaval  # noqa

GOENV = dict(GOFLAGS='-mod=mod', GOPROXY='off', GOSUMDB='off', GOTOOLCHAIN='local')


class Infra(Exception):
    pass


def log(*a):
    print(*a, flush=True)


class Ctx:
    def __init__(self, pid, tier, level='model_checking'):
        self.pid = pid
        self.tier = tier
        self.level = level
        self.seed = int(os.environ.get('VERIF_SEED', '1') or '1')
        self.t0 = time.time()
        self.scratch = tempfile.mkdtemp(prefix='verif_%s_' % pid)
        self.cov = dict(states=0, transitions=0, traces_validated_against_impl=0,
                        samples=[], evaluations=0, distinct_nontrivial=0, rule='',
                        tlc_runs=[], replay=[], traces=[], known_findings=[],
                        impl_conformance=True, exhaustive=False)
        self.assumptions = []
        self.deferred_infra = []   # infrastructure failures of single phases: never a verdict, reported at the end (exit 2) unless a later phase observed a violation
        self.violations = []   # (what, replay path)
        self.known = load_known().get(pid, [])
        self.known_hit = set()
        self.quick = tier == 'quick'

    # ---------------------------------------------------------------- TLC
    def tlc(self, moddir, module, cfg, workers=4, timeout=600, dump=False, simulate=None,
            deadlock=None, extra=None, files=None, depthfirst=False, coverage=False, name=None):
        """Run TLC on spec/<moddir>/<module>.tla with <cfg> in a scratch copy.
        Returns dict(ok, generated, distinct, depth, violated, deadlock, out, dir, dumpfile)."""
        d = tempfile.mkdtemp(prefix='tlc_', dir=self.scratch)
        for sub in ('lib', moddir):
            src = os.path.join(SPEC, sub)
            for fn in os.listdir(src):
                if fn.endswith(('.tla', '.cfg')):
                    shutil.copy(os.path.join(src, fn), d)
        for k, v in (files or {}).items():
            if isinstance(v, str) and os.path.isabs(v) and os.path.exists(v):
                shutil.copy(v, os.path.join(d, k))
            else:
                with open(os.path.join(d, k), 'w') as f:
                    f.write(v)
        cmd = ['timeout', str(timeout), 'tlc', '-noGenerateSpecTE', '-metadir', os.path.join(d, 'meta'),
               '-workers', str(workers), '-config', cfg]
        if deadlock is False:
            cmd.append('-deadlock')  # -deadlock = do NOT check deadlock
        if dump:
            cmd += ['-dump', os.path.join(d, 'dump')]
        if simulate:
            cmd += ['-simulate', simulate]
        if coverage:
            cmd += ['-coverage', '1']
        cmd += (extra or [])
        cmd.append(module + '.tla')
        env = dict(os.environ)
        if depthfirst:
            env['JAVA_TOOL_OPTIONS'] = (env.get('JAVA_TOOL_OPTIONS', '') +
                                        ' -Dtlc2.tool.queue.IStateQueue=StateDeque').strip()
        t = time.time()
        p = subprocess.run(cmd, cwd=d, env=env, stdout=subprocess.PIPE, stderr=subprocess.STDOUT, text=True)
        out = p.stdout
        r = dict(rc=p.returncode, out=out, dir=d, wall=round(time.time() - t, 2), cfg=cfg, module=module,
                 dumpfile=os.path.join(d, 'dump.dump') if dump else None)
        m = re.findall(r'(\d+) states generated, (\d+) distinct states found', out)
        r['generated'], r['distinct'] = (int(m[-1][0]), int(m[-1][1])) if m else (0, 0)
        m = re.search(r'The depth of the complete state graph search is (\d+)', out)
        r['depth'] = int(m.group(1)) if m else 0
        r['violated'] = re.findall(r'Invariant (\S+) is violated', out) + \
            re.findall(r'Action property (\S+) is violated', out) + \
            (['<temporal>'] if 'Temporal properties were violated' in out else []) + \
            (['<postcondition>'] if re.search(r'(?i)post-?condition.*(violated|false)', out) else [])
        r['deadlock'] = 'Deadlock reached' in out
        r['finished'] = 'Model checking completed. No error has been found' in out or \
            (simulate is not None and p.returncode in (0, 124) and 'Error:' not in out)
        r['error'] = None
        if p.returncode == 124 and not simulate:
            r['error'] = 'timeout'
        elif not r['finished'] and not r['violated'] and not r['deadlock']:
            em = re.search(r'(?s)Error: (.*?)(\n\n|\Z)', out)
            r['error'] = em.group(1)[:2000] if em else ('rc=%d' % p.returncode)
        if coverage:
            r['zero_cov'] = re.findall(r'<(\w+) line \d+, col \d+ to line \d+, col \d+ of module \w+>: 0:0', out)
        self.cov['tlc_runs'].append(dict(name=name or cfg, module=module, cfg=cfg, generated=r['generated'],
                                         distinct=r['distinct'], depth=r['depth'], wall_s=r['wall'],
                                         violated=r['violated'], deadlock=r['deadlock'], error=r['error'],
                                         workers=workers))
        self.cov['states'] += r['distinct']
        self.cov['transitions'] += r['generated']
        return r

    def tlc_must_pass(self, *a, **kw):
        r = self.tlc(*a, **kw)
        if r['error'] or r['violated'] or r['deadlock']:
            raise Infra('TLC run %s/%s failed on the specification itself: error=%s violated=%s deadlock=%s\n%s' %
                        (r['module'], r['cfg'], r['error'], r['violated'], r['deadlock'], r['out'][-3000:]))
        return r

    def dump_states(self, r):
        return tlaval.parse_dump(r['dumpfile'])

    # ---------------------------------------------------------------- harness
    def vh(self, args, stdin=None, timeout=1200, env=None, check=True):
        """run the Go harness binary; returns parsed JSON of its last stdout line"""
        exe = build_harness()
        e = dict(os.environ)
        e['VERIF_SEED'] = str(self.seed)
        e.update(env or {})
        p = subprocess.run([exe] + args, input=stdin, stdout=subprocess.PIPE, stderr=subprocess.PIPE,
                           text=True, timeout=timeout, env=e)
        if p.returncode != 0 and check and crashed_in_repo(p.stderr):
            # the process died inside the code under test (a panic in one of ITS goroutines cannot be recovered
            # by the harness): that is behaviour of the real code, not an infrastructure failure
            self.failure('crash:' + args[0], 'the driver process died inside goatcore: ' + p.stderr[:1800], dict(cmd=args, stderr=p.stderr[:8000]))
            return dict(_rc=p.returncode, _stderr=p.stderr[-4000:], _crashed=True, executed=0, failures_by_key={}, examples={}, samples=[])
        if p.returncode != 0 and check:
            raise Infra('harness %s failed rc=%d\nstdout: %s\nstderr: %s' % (args, p.returncode, p.stdout[-2000:], p.stderr[-4000:]))
        lines = [l for l in p.stdout.splitlines() if l.strip()]
        try:
            res = json.loads(lines[-1]) if lines else {}
        except Exception:
            raise Infra('harness %s printed no JSON result: %s / %s' % (args, p.stdout[-2000:], p.stderr[-2000:]))
        res['_rc'] = p.returncode
        res['_stderr'] = p.stderr[-4000:]
        return res

    def tmp(self, name):
        return os.path.join(self.scratch, name)

    # ---------------------------------------------------------------- verdicts
    def save_replay(self, tag, obj):
        d = os.path.join(os.environ.get('VERIF_EVIDENCE_DIR') or VERIF, 'replay', self.pid)
        os.makedirs(d, exist_ok=True)
        h = hashlib.sha1(json.dumps(obj, sort_keys=True, default=str).encode()).hexdigest()[:10]
        path = os.path.join(d, '%s_%s.json' % (tag, h))
        with open(path, 'w') as f:
            json.dump(obj, f, indent=1, default=str)
        return path

    def violation(self, what, obj, tag='viol'):
        path = self.save_replay(tag, dict(property=self.pid, what=what, case=obj))
        self.violations.append((what, path))
        log('VIOLATION property=%s replay=%s' % (self.pid, path))
        log('  ' + str(what)[:600])

    def failure(self, key, what, obj, tag='viol'):
        """A failing observation with a classification key.  If the key is an
        open known finding it is reported as KNOWN-FINDING, else VIOLATION."""
        for k in self.known:
            if k.get('status') == 'open' and k['key'] == key:
                if key not in self.known_hit:
                    self.known_hit.add(key)
                    log('KNOWN-FINDING: property=%s %s %s' % (self.pid, key, k.get('what', '')))
                    self.cov['known_findings'].append(dict(key=key, what=k.get('what', ''), example=obj))
                return False
        self.violation('%s: %s' % (key, what), obj, tag)
        return True

    def sample(self, x, cap=5):
        if len(self.cov['samples']) < cap:
            self.cov['samples'].append(x)

    def finish(self):
        cov = self.cov
        ev = dict(property_id=self.pid, tier=self.tier, seed=self.seed, level=self.level,
                  coverage=cov, assumptions=self.assumptions,
                  wall_s=round(time.time() - self.t0, 2), violations=len(self.violations))
        if not cov['samples']:
            cov['samples'] = ['(none)']
        # extension specs (ids X..: behaviour beyond the listed properties) keep their evidence apart
        evdir = os.environ.get('VERIF_EVIDENCE_DIR') or os.path.join(VERIF, 'evidence_ext' if self.pid.startswith('X') else 'evidence')
        os.makedirs(evdir, exist_ok=True)
        with open(os.path.join(evdir, self.pid + '.json'), 'w') as f:
            json.dump(ev, f, indent=1, default=str)
        shutil.rmtree(self.scratch, ignore_errors=True)
        if self.violations:
            for msg in self.deferred_infra:
                log('NOTE (infrastructure, no verdict from that phase): ' + str(msg)[:400])
            log('RESULT %s %s: %d violation(s)' % (self.pid, self.tier, len(self.violations)))
            return 1
        if self.deferred_infra:
            log('INFRA-FAILURE %s: %s' % (self.pid, str(self.deferred_infra[0])[:3000]))
            return 2
        log('RESULT %s %s: held (states=%d transitions=%d traces=%d evaluations=%d, %.1fs)' % (
            self.pid, self.tier, cov['states'], cov['transitions'], cov['traces_validated_against_impl'],
            cov['evaluations'], time.time() - self.t0))
        return 0


def crashed_in_repo(stderr):
    """True if a Go panic / fatal error trace has its first non-runtime frame inside the repository's code."""
    if 'panic:' not in stderr and 'fatal error:' not in stderr:
        return False
    m = re.search(r'goroutine \d+ \[running\]:\n(.*?)(\n\n|\Z)', stderr, re.S)
    if not m:
        return False
    for line in m.group(1).splitlines():
        line = line.strip()
        if not line or line.startswith('/') or line.startswith('runtime') or line.startswith('panic(') or line.startswith('sync.') \
                or line.startswith('created by') or line.startswith('internal/'):
            continue
        return line.startswith('github.com/goatcms/goatcore')
    return False


_known_cache = None


def load_known():
    global _known_cache
    if _known_cache is None:
        p = os.path.join(VERIF, 'known_findings.json')
        by = {}
        if os.path.exists(p):
            with open(p) as f:
                for e in json.load(f).get('findings', []):
                    by.setdefault(e['property'], []).append(e)
        _known_cache = by
    return _known_cache


_built = None


def build_harness():
    """(re)build the harness against /repo's current working tree with -tags verif"""
    global _built
    if _built:
        return _built
    os.makedirs(BUILD, exist_ok=True)
    h = os.path.join(VERIF, 'harness')
    if REPO != '/repo':
        # checks against another working tree (seeded changes are applied in a scratch worktree, never in /repo):
        # build from a scratch copy of the harness whose replace directive points there
        h2 = tempfile.mkdtemp(prefix='harness_', dir=BUILD)
        shutil.copytree(h, h2, dirs_exist_ok=True)
        gm = open(os.path.join(h2, 'go.mod')).read().replace('=> /repo', '=> ' + REPO)
        open(os.path.join(h2, 'go.mod'), 'w').write(gm)
        h = h2
        import atexit as _ae
        _ae.register(lambda: shutil.rmtree(h2, ignore_errors=True))
    shutil.copy(os.path.join(REPO, 'go.sum'), os.path.join(h, 'go.sum'))
    exe = os.path.join(BUILD, 'vh_%d' % os.getpid())
    env = dict(os.environ)
    env.update(GOENV)
    p = subprocess.run(['go', 'build', '-tags', 'verif', '-o', exe, './cmd/vh'], cwd=h, env=env,
                       stdout=subprocess.PIPE, stderr=subprocess.STDOUT, text=True)
    if p.returncode != 0:
        raise Infra('harness build failed against %s:\n%s' % (REPO, p.stdout[-6000:]))
    _built = exe
    import atexit
    atexit.register(lambda: os.path.exists(exe) and os.remove(exe))
    return exe


def tree_to_json(t):
    """TLA tree (function path->val printed as TlaFn / <<>> ) -> sorted list of [path, val]"""
    if isinstance(t, dict):
        items = list(t.items())
    else:
        items = [(tuple(k), v) for k, v in t] if t else []
    return sorted([[list(k), v] for k, v in items])


# ---------------------------------------------------------------------------
# helpers shared by the file-system family (C01, C02, C03, C06, C07)
def shard_lines(ctx, text_or_path, nshards, marker='\\"k\\":\\"case\\"', every=1, offset=0):
    """split TLC output (case lines) into shard files; returns (paths, n_cases)"""
    if os.path.exists(text_or_path):
        with open(text_or_path) as f:
            lines = f.readlines()
    else:
        lines = text_or_path.splitlines(True)
    cases = [l for l in lines if marker in l]
    total = len(cases)
    if every > 1:
        cases = [l for i, l in enumerate(cases) if i % every == offset % every]
    d = tempfile.mkdtemp(prefix='shards_', dir=ctx.scratch)
    paths = []
    for i in range(nshards):
        part = cases[i::nshards]
        if not part:
            continue
        p = os.path.join(d, 'shard_%d.txt' % i)
        with open(p, 'w') as f:
            f.writelines(part)
        paths.append(p)
    return paths, total, len(cases)


def run_sharded(ctx, argv_for_shard, shard_paths, timeout=3000):
    """run one harness process per shard in parallel (the library's error
    constructor takes a stack trace under a global runtime lock, so goroutine
    parallelism inside one process does not scale); returns merged result"""
    exe = build_harness()
    procs = []
    env = dict(os.environ)
    env['VERIF_SEED'] = str(ctx.seed)
    for p in shard_paths:
        procs.append(subprocess.Popen([exe] + argv_for_shard(p), stdout=subprocess.PIPE, stderr=subprocess.PIPE,
                                      text=True, env=env))
    merged = dict(executed=0, failures_by_key={}, examples={}, ops={}, samples=[], hangs=0, skipped_pre=0)
    infra_errs = []
    for pr in procs:
        try:
            out, err = pr.communicate(timeout=timeout)
        except subprocess.TimeoutExpired:
            pr.kill()
            raise Infra('harness shard timed out')
        if pr.returncode != 0 and crashed_in_repo(err):
            ctx.failure('crash:' + argv_for_shard('')[0], 'a driver process died inside goatcore: ' + err[:1800], dict(stderr=err[:8000]))
            continue
        if pr.returncode != 0:
            # a shard that died for a reason of its own is no verdict; but it must not hide what the OTHER shards
            # observed of the real code (decided after the loop)
            infra_errs.append('harness shard failed rc=%d: %s' % (pr.returncode, err[-3000:]))
            continue
        lines = [l for l in out.splitlines() if l.strip()]
        r = json.loads(lines[-1])
        merged['executed'] += r.get('executed', 0)
        merged['hangs'] += r.get('hangs', 0)
        merged['skipped_pre'] += r.get('skipped_pre', 0)
        for k, v in r.get('failures_by_key', {}).items():
            merged['failures_by_key'][k] = merged['failures_by_key'].get(k, 0) + v
        for k, v in r.get('examples', {}).items():
            merged['examples'].setdefault(k, [])
            merged['examples'][k] += v[:max(0, 3 - len(merged['examples'][k]))]
        for k, v in r.get('ops', {}).items():
            merged['ops'][k] = merged['ops'].get(k, 0) + v
        merged['samples'] += (r.get('samples') or [])[:max(0, 3 - len(merged['samples']))]
        for k, v in (r.get('drift') or {}).items():
            merged.setdefault('drift', {})
            merged['drift'][k] = merged['drift'].get(k, 0) + v
        merged.setdefault('drift_examples', [])
        merged['drift_examples'] += (r.get('drift_examples') or [])[:max(0, 3 - len(merged['drift_examples']))]
        for k, v in (r.get('known') or {}).items():
            merged.setdefault('known', {})
            merged['known'][k] = merged['known'].get(k, 0) + v
        for k, v in (r.get('known_examples') or {}).items():
            merged.setdefault('known_examples', {}).setdefault(k, v)
        for k in ('calls', 'clean_runs', 'clean_cases', 'deviation_cases', 'repaired_like', 'unreplayable_order'):
            if k in r:
                merged[k] = merged.get(k, 0) + r[k]
    if infra_errs:
        if not any(not k.startswith('infra') for k in merged['failures_by_key']):
            if len(infra_errs) == len(procs):
                raise Infra(infra_errs[0])
            ctx.deferred_infra.append(infra_errs[0])
            return merged
        log('NOTE: %d shard(s) died for reasons of their own (%s ...); the other shards observed failures of the real code, which are reported' % (len(infra_errs), infra_errs[0][:300]))
        ctx.assumptions.append('%d harness shard(s) died (infrastructure); the failures reported come from the remaining shards' % len(infra_errs))
    return merged


def report_case_failures(ctx, merged, what):
    """turn harness failures into KNOWN-FINDING / VIOLATION lines"""
    infra = []
    real = 0
    for key, n in sorted(merged['failures_by_key'].items()):
        ex = merged['examples'].get(key, [{}])[0]
        if key.startswith('infra'):
            infra.append('%s: harness infrastructure failure %s: %s' % (what, key, ex))
            continue
        real += 1
        ctx.failure(key, '%s: %d case(s), e.g. %s on %s: %s' % (what, n, ex.get('op'), ex.get('backend'), str(ex.get('what'))[:1500]), ex)
    if infra:
        # an infrastructure failure is never a verdict -- and never hides one: with real failures reported it is a note
        if not real:
            # this phase gave no verdict; the remaining phases still run (they may observe the real code misbehaving)
            ctx.deferred_infra.append(infra[0])
            return
        log('NOTE: ' + infra[0][:600])
        ctx.assumptions.append('some cases could not be run (infrastructure): ' + infra[0][:300])


def validate_trace(ctx, moddir, module, cfg, tracefile, max_rounds=6, key_of=None, what='trace', depthfirst=False, timeout=900):
    """Validate an ndjson trace (histories separated by {"ev":"reset"}) against a
    trace specification.  A rejected history is reported, removed, and the
    rest is validated again so that one rejection does not hide the others.
    returns dict(events, histories, rejected=[...])"""
    with open(tracefile) as f:
        lines = [l for l in f.read().splitlines() if l.strip()]
    rejected = []
    total_events = len(lines)
    nhist = sum(1 for l in lines if '"ev":"reset"' in l)
    for rnd in range(max_rounds):
        tf = ctx.tmp('trace_round.ndjson')
        with open(tf, 'w') as f:
            f.write('\n'.join(lines) + '\n')
        r = ctx.tlc(moddir, module, cfg, workers=1, timeout=timeout, files={'trace.ndjson': tf}, depthfirst=depthfirst,
                    name='%s round %d' % (what, rnd))
        if r['error'] and '<postcondition>' not in r['violated']:
            raise Infra('trace validation run failed: %s\n%s' % (r['error'], r['out'][-3000:]))
        if r['violated'] and '<postcondition>' not in r['violated']:
            # an invariant of the trace spec failed on a real trace
            bad = r['depth']
        elif '<postcondition>' in r['violated']:
            bad = r['depth']  # 1-based index of the first line that could not be matched
            hw = re.search(r'<<"HIGHWATER", (\d+)>>', r['out'])
            if hw:
                bad = int(hw.group(1))  # trace specs with silent steps report the highest line reached
        else:
            break
        if bad < 1 or bad > len(lines):
            raise Infra('cannot locate rejected line (depth %d of %d)' % (bad, len(lines)))
        # the history containing line `bad`
        if nhist == 0:
            start, end = bad - 1, bad      # independent lines
        else:
            start = bad - 1
            while start > 0 and '"ev":"reset"' not in lines[start]:
                start -= 1
            end = bad
            while end < len(lines) and '"ev":"reset"' not in lines[end]:
                end += 1
        hist = lines[start:bad]
        ev = json.loads(lines[bad - 1])
        rejected.append(dict(line=bad, event=ev, history=hist))
        key = key_of(ev) if key_of else 'trace:' + str(ev.get('name', ev.get('ev')))
        ctx.failure(key, '%s: line %d is not a step the specification allows: %s' % (what, bad, lines[bad - 1][:600]),
                    dict(spec=module, rejected_line=ev, history=[json.loads(x) for x in hist]), tag='trace')
        lines = lines[:start] + lines[end:]
        if not lines:
            break
    ctx.cov['traces_validated_against_impl'] += nhist
    ctx.cov['traces'].append(dict(what=what, histories=nhist, events=total_events, rejected=len(rejected)))
    return dict(events=total_events, histories=nhist, rejected=rejected)


def selftest_trace_rejects(ctx, moddir, module, cfg, tracefile, mutate, depthfirst=False):
    """binding self-test: a corrupted copy of an accepted trace must be rejected"""
    with open(tracefile) as f:
        lines = [l for l in f.read().splitlines() if l.strip()]
    mlines, desc = mutate(lines)
    if desc == 'none':
        ctx.cov.setdefault('selftests', []).append(dict(mutation='no line of the trace fits the mutation', rejected=None))
        return None
    tf = ctx.tmp('trace_selftest.ndjson')
    with open(tf, 'w') as f:
        f.write('\n'.join(mlines) + '\n')
    r = ctx.tlc(moddir, module, cfg, workers=1, timeout=600, files={'trace.ndjson': tf}, depthfirst=depthfirst, name='selftest ' + desc)
    ok = bool(r['violated'])
    ctx.cov.setdefault('selftests', []).append(dict(mutation=desc, rejected=ok))
    # self-test runs are not coverage of the implementation
    ctx.cov['states'] -= r['distinct']
    ctx.cov['transitions'] -= r['generated']
    if not ok:
        raise Infra('binding self-test failed: corrupted trace (%s) was accepted' % desc)
    return ok
